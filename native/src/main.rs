//! Native side of the verification machinery, built against the tree under check
//! with `--cfg grex_verif`:
//!   oracle <out.json>   dump the reference tables from regex-syntax / std / unicode-segmentation
//!   eval                read a JSON list of operations on stdin, run them against the real code,
//!                       write a JSON list of results (used for translator validation and replay)
use regex_syntax::hir::{Class, ClassUnicode, ClassUnicodeRange, HirKind};
use regex_syntax::Parser;
use serde_json::{json, Value};
use std::io::Read;
use std::panic;
use unic_ucd_category::GeneralCategory;
use unicode_segmentation::UnicodeSegmentation;

fn class(p: &str) -> Vec<(u32, u32)> {
    let hir = Parser::new().parse(p).unwrap();
    match hir.kind() {
        HirKind::Class(Class::Unicode(c)) => c
            .ranges()
            .iter()
            .map(|r| (r.start() as u32, r.end() as u32))
            .collect(),
        k => panic!("{:?}", k),
    }
}

fn to_ranges(v: &[u32]) -> Vec<(u32, u32)> {
    let mut r: Vec<(u32, u32)> = vec![];
    for &x in v {
        match r.last_mut() {
            Some(l) if l.1 + 1 == x => l.1 = x,
            _ => r.push((x, x)),
        }
    }
    r
}

fn ranges_json(v: &[(u32, u32)]) -> Value {
    Value::Array(v.iter().map(|(a, b)| json!([a, b])).collect())
}

/// Does `text` parse (regex-syntax, Unicode mode, optional flags prefix) to exactly the literal `c`?
fn parses_to_literal(prefix: &str, text: &str, c: char) -> bool {
    let p = format!("{}{}", prefix, text);
    match Parser::new().parse(&p) {
        Ok(hir) => match hir.kind() {
            HirKind::Literal(l) => {
                let mut buf = [0u8; 4];
                &*l.0 == c.encode_utf8(&mut buf).as_bytes()
            }
            _ => false,
        },
        Err(_) => false,
    }
}

fn oracle(out: &str) {
    let mut orbit = vec![];
    let mut lower = vec![];
    let mut upper = vec![];
    let mut ext = vec![];
    let mut mark_or_other = vec![];
    let mut gc_mark = vec![];
    let mut gc_other = vec![];
    let mut bare_ok = vec![];
    let mut bare_ok_x = vec![];
    let mut bs_ok = vec![];
    let mut bs_ok_x = vec![];
    let mut uesc_ok = vec![];
    let mut uesc_ok_x = vec![];
    for cp in 0..=0x10FFFFu32 {
        let c = match char::from_u32(cp) {
            Some(c) => c,
            None => continue,
        };
        let mut cls = ClassUnicode::new([ClassUnicodeRange::new(c, c)]);
        cls.case_fold_simple();
        let rep = cls.ranges()[0].start() as u32;
        let n: u32 = cls
            .ranges()
            .iter()
            .map(|r| r.end() as u32 - r.start() as u32 + 1)
            .sum();
        if n > 1 {
            orbit.push(json!([cp, rep]));
        }
        let l: Vec<u32> = c.to_string().to_lowercase().chars().map(|x| x as u32).collect();
        if l != vec![cp] {
            lower.push(json!([cp, l]));
        }
        let up: Vec<u32> = c.to_string().to_uppercase().chars().map(|x| x as u32).collect();
        if up != vec![cp] {
            upper.push(json!([cp, up]));
        }
        let s = format!("a{}", c);
        let cat = GeneralCategory::of(c);
        let mo = cat.is_mark() || cat.is_other();
        if mo {
            mark_or_other.push(cp);
        }
        if cat.is_mark() {
            gc_mark.push(cp);
        }
        if cat.is_other() {
            gc_other.push(cp);
        }
        if s.graphemes(true).count() == 1 && !mo {
            ext.push(cp);
        }
        let bare = c.to_string();
        let bs = format!("\\{}", c);
        if parses_to_literal("", &bare, c) {
            bare_ok.push(cp);
        }
        if parses_to_literal("(?x)", &bare, c) {
            bare_ok_x.push(cp);
        }
        if parses_to_literal("", &bs, c) {
            bs_ok.push(cp);
        }
        if parses_to_literal("(?x)", &bs, c) {
            bs_ok_x.push(cp);
        }
        let ue = format!("\\u{{{:x}}}", cp);
        if parses_to_literal("", &ue, c) {
            uesc_ok.push(cp);
        }
        if parses_to_literal("(?x)", &ue, c) {
            uesc_ok_x.push(cp);
        }
    }
    // named escapes the regex crate understands: text -> code point it denotes (if it parses to a literal)
    let mut named = vec![];
    for (t, c) in [("\\n", '\n'), ("\\r", '\r'), ("\\t", '\t'), ("\\v", '\u{b}'), ("\\f", '\u{c}'), ("\\a", '\u{7}'), ("\\0", '\0')] {
        named.push(json!([t, c as u32, parses_to_literal("", t, c), parses_to_literal("(?x)", t, c)]));
    }
    let v = json!({
        "d": ranges_json(&class(r"\d")),
        "s": ranges_json(&class(r"\s")),
        "w": ranges_json(&class(r"\w")),
        "orbit": orbit,
        "lower1": lower,
        "upper1": upper,
        "ext_nonmark": ranges_json(&to_ranges(&ext)),
        "mark_or_other": ranges_json(&to_ranges(&mark_or_other)),
        "gc_mark": ranges_json(&to_ranges(&gc_mark)),
        "gc_other": ranges_json(&to_ranges(&gc_other)),
        "lit_bare_ok": ranges_json(&to_ranges(&bare_ok)),
        "lit_bare_ok_verbose": ranges_json(&to_ranges(&bare_ok_x)),
        "lit_backslash_ok": ranges_json(&to_ranges(&bs_ok)),
        "lit_backslash_ok_verbose": ranges_json(&to_ranges(&bs_ok_x)),
        "lit_uescape_ok": ranges_json(&to_ranges(&uesc_ok)),
        "lit_uescape_ok_verbose": ranges_json(&to_ranges(&uesc_ok_x)),
        "named_escapes": named,
        "unicode_version": format!("{:?}", std::char::UNICODE_VERSION),
    });
    std::fs::write(out, serde_json::to_string(&v).unwrap()).unwrap();
}

fn s_of(v: &Value) -> String {
    // strings travel as lists of code points so that nothing depends on JSON escaping
    match v {
        Value::Array(a) => a
            .iter()
            .map(|x| char::from_u32(x.as_u64().unwrap() as u32).unwrap())
            .collect(),
        Value::String(s) => s.clone(),
        _ => panic!("string expected"),
    }
}

fn cps(s: &str) -> Value {
    Value::Array(s.chars().map(|c| json!(c as u32)).collect())
}

fn b_of(v: &Value) -> bool {
    v.as_bool().unwrap()
}

fn flags6(v: &Value) -> [bool; 6] {
    let a = v.as_array().unwrap();
    [b_of(&a[0]), b_of(&a[1]), b_of(&a[2]), b_of(&a[3]), b_of(&a[4]), b_of(&a[5])]
}

fn chr(v: &Value) -> char {
    char::from_u32(v.as_u64().unwrap() as u32).unwrap()
}

fn apply_settings(b: &mut grex::RegExpBuilder, st: &Value) {
    let on = |k: &str| st.get(k).map(|x| x.as_bool().unwrap_or(false)).unwrap_or(false);
    if on("digits") { b.with_conversion_of_digits(); }
    if on("non_digits") { b.with_conversion_of_non_digits(); }
    if on("spaces") { b.with_conversion_of_whitespace(); }
    if on("non_spaces") { b.with_conversion_of_non_whitespace(); }
    if on("words") { b.with_conversion_of_words(); }
    if on("non_words") { b.with_conversion_of_non_words(); }
    if on("repetitions") { b.with_conversion_of_repetitions(); }
    if on("ignore_case") { b.with_case_insensitive_matching(); }
    if on("capture_groups") { b.with_capturing_groups(); }
    if on("escape") { b.with_escaping_of_non_ascii_chars(on("surrogates")); }
    if on("verbose") { b.with_verbose_mode(); }
    if on("no_start_anchor") { b.without_start_anchor(); }
    if on("no_end_anchor") { b.without_end_anchor(); }
    if on("no_anchors") { b.without_anchors(); }
    if on("colorize") { grex::verif_hooks::set_output_colorized(b); }
    if let Some(q) = st.get("min_repetitions").and_then(|x| x.as_u64()) { b.with_minimum_repetitions(q as u32); }
    if let Some(q) = st.get("min_substring_length").and_then(|x| x.as_u64()) { b.with_minimum_substring_length(q as u32); }
}

fn run_op(op: &Value) -> Value {
    use grex::verif_hooks as h;
    let name = op["op"].as_str().unwrap();
    match name {
        "is_digit" => json!(h::is_digit(chr(&op["c"]))),
        "is_word" => json!(h::is_word(chr(&op["c"]))),
        "is_space" => json!(h::is_space(chr(&op["c"]))),
        "class_tokens" => cps(&h::class_tokens(&s_of(&op["s"]), flags6(&op["flags"]))),
        "class_feature_enabled" => json!(h::is_char_class_feature_enabled(flags6(&op["flags"]))),
        "lower" => {
            let v: Vec<String> = op["cases"].as_array().unwrap().iter().map(s_of).collect();
            Value::Array(h::lower_for_case_insensitive(v).iter().map(|s| cps(s)).collect())
        }
        "sort" => {
            let v: Vec<String> = op["cases"].as_array().unwrap().iter().map(s_of).collect();
            Value::Array(h::sort_test_cases(v).iter().map(|s| cps(s)).collect())
        }
        "escape_char" => cps(&h::escape_char(chr(&op["c"]), b_of(&op["surrogates"]))),
        "escape_regexp_symbols" => cps(&h::escape_regexp_symbols(
            &s_of(&op["s"]),
            b_of(&op["escape"]),
            b_of(&op["surrogates"]),
        )),
        "split" => Value::Array(h::split_graphemes(&s_of(&op["s"])).iter().map(|s| cps(s)).collect()),
        "component" => match h::component_repr(
            op["kind"].as_u64().unwrap() as u8,
            &s_of(&op["text"]),
            op["a"].as_u64().unwrap() as u32,
            op["b"].as_u64().unwrap() as u32,
            b_of(&op["flag1"]),
            b_of(&op["flag2"]),
            b_of(&op["colored"]),
        ) {
            Some(s) => cps(&s),
            None => Value::Null,
        },
        "grapheme_display" => {
            let v: Vec<String> = op["chars"].as_array().unwrap().iter().map(s_of).collect();
            cps(&h::grapheme_display(
                v,
                op["min"].as_u64().unwrap() as u32,
                op["max"].as_u64().unwrap() as u32,
                b_of(&op["capture"]),
                b_of(&op["colored"]),
                b_of(&op["verbose"]),
            ))
        }
        "set_threshold" => {
            // which: "repetitions" | "substring"
            let mut b = grex::RegExpBuilder::from(&["a"]);
            let q = op["q"].as_u64().unwrap() as u32;
            if op["which"].as_str().unwrap() == "repetitions" {
                b.with_minimum_repetitions(q);
            } else {
                b.with_minimum_substring_length(q);
            }
            let (_, r, s) = h::config_bits(&b);
            json!([r, s])
        }
        "setters" => {
            // [[name, bool arg, u32 arg], ..] applied in order to a fresh builder
            let mut b = grex::RegExpBuilder::from(&["a"]);
            for st in op["seq"].as_array().unwrap() {
                let f = st[1].as_bool().unwrap_or(false);
                let q = st[2].as_u64().unwrap_or(1) as u32;
                match st[0].as_str().unwrap() {
                    "digits" => { b.with_conversion_of_digits(); }
                    "non_digits" => { b.with_conversion_of_non_digits(); }
                    "spaces" => { b.with_conversion_of_whitespace(); }
                    "non_spaces" => { b.with_conversion_of_non_whitespace(); }
                    "words" => { b.with_conversion_of_words(); }
                    "non_words" => { b.with_conversion_of_non_words(); }
                    "repetitions" => { b.with_conversion_of_repetitions(); }
                    "ignore_case" => { b.with_case_insensitive_matching(); }
                    "capture_groups" => { b.with_capturing_groups(); }
                    "escape" => { b.with_escaping_of_non_ascii_chars(f); }
                    "verbose" => { b.with_verbose_mode(); }
                    "no_start_anchor" => { b.without_start_anchor(); }
                    "no_end_anchor" => { b.without_end_anchor(); }
                    "no_anchors" => { b.without_anchors(); }
                    "min_repetitions" => { b.with_minimum_repetitions(q); }
                    "min_substring_length" => { b.with_minimum_substring_length(q); }
                    other => panic!("unknown setter {}", other),
                }
            }
            let (bits, r, s) = h::config_bits(&b);
            json!([bits, r, s, h::test_cases(&b).len()])
        }
        "build" => {
            let v: Vec<String> = op["cases"].as_array().unwrap().iter().map(s_of).collect();
            let mut b = grex::RegExpBuilder::from(&v);
            apply_settings(&mut b, &op["settings"]);
            cps(&b.build())
        }
        "from_file" => {
            // the library's from_file on a scratch file with the given raw content: the builder's test cases and its default build()
            let content: String = s_of(&op["content"]);
            let dir = std::env::temp_dir().join(format!("grexverif-{}", std::process::id()));
            std::fs::create_dir_all(&dir).unwrap();
            let path = dir.join("input.txt");
            std::fs::write(&path, content.as_bytes()).unwrap();
            let mut b = grex::RegExpBuilder::from_file(&path);
            let cases: Vec<Value> = h::test_cases(&b).iter().map(|c| cps(c)).collect();
            let out = b.build();
            let _ = std::fs::remove_dir_all(&dir);
            json!([cases, cps(&out)])
        }
        "build_twice" => {
            // two build() calls on the SAME builder, then one on a clone made in between
            let v: Vec<String> = op["cases"].as_array().unwrap().iter().map(s_of).collect();
            let mut b = grex::RegExpBuilder::from(&v);
            apply_settings(&mut b, &op["settings"]);
            let first = b.build();
            let mut c = b.clone();
            let second = b.build();
            let third = c.build();
            json!([cps(&first), cps(&second), cps(&third)])
        }
        "cluster_repetitions" => {
            let r = h::cluster_repetitions(
                &s_of(&op["s"]),
                op["min_repetitions"].as_u64().unwrap() as u32,
                op["min_substring_length"].as_u64().unwrap() as u32,
            );
            Value::Array(
                r.iter()
                    .map(|(d, chars, mn, mx)| json!([d, chars.iter().map(|c| cps(c)).collect::<Vec<_>>(), mn, mx]))
                    .collect(),
            )
        }
        "char_count" => {
            let v: Vec<String> = op["units"].as_array().unwrap().iter().map(s_of).collect();
            json!(h::char_count(v, b_of(&op["escaped"])))
        }
        "indent_regexp" => cps(&h::indent_regexp(
            s_of(&op["s"]),
            b_of(&op["no_start_anchor"]),
            b_of(&op["colored"]),
        )),
        "regex_is_match" => {
            let pat = s_of(&op["pattern"]);
            let text = s_of(&op["text"]);
            match regex::Regex::new(&pat) {
                Ok(re) => json!(re.is_match(&text)),
                Err(e) => json!({"compile_error": e.to_string()}),
            }
        }
        "regex_find" => {
            let pat = s_of(&op["pattern"]);
            let text = s_of(&op["text"]);
            match regex::Regex::new(&pat) {
                Ok(re) => match re.find(&text) {
                    Some(m) => json!([m.start(), m.end(), text.len()]),
                    None => Value::Null,
                },
                Err(e) => json!({"compile_error": e.to_string()}),
            }
        }
        "regex_language" => {
            // every string over `alphabet` of length <= max_len that the pattern matches IN FULL (replay oracle on a tiny universe)
            let pat = s_of(&op["pattern"]);
            let alphabet: Vec<char> = op["alphabet"].as_array().unwrap().iter().map(chr).collect();
            let max_len = op["max_len"].as_u64().unwrap() as usize;
            match regex::Regex::new(&pat) {
                Ok(re) => {
                    let mut out = vec![];
                    let mut layer: Vec<String> = vec![String::new()];
                    for len in 0..=max_len {
                        for w in layer.iter() {
                            if let Some(m) = re.find(w) {
                                if m.start() == 0 && m.end() == w.len() {
                                    out.push(cps(w));
                                }
                            }
                        }
                        if len == max_len {
                            break;
                        }
                        let mut next = Vec::with_capacity(layer.len() * alphabet.len());
                        for w in layer.iter() {
                            for c in alphabet.iter() {
                                let mut x = w.clone();
                                x.push(*c);
                                next.push(x);
                            }
                        }
                        layer = next;
                    }
                    Value::Array(out)
                }
                Err(e) => json!({"compile_error": e.to_string()}),
            }
        }
        "parses_to_literal" => json!(parses_to_literal(
            &s_of(&op["prefix"]),
            &s_of(&op["text"]),
            chr(&op["c"])
        )),
        _ => json!({"unknown_op": name}),
    }
}

fn eval() {
    let mut input = String::new();
    std::io::stdin().read_to_string(&mut input).unwrap();
    let ops: Value = serde_json::from_str(&input).unwrap();
    panic::set_hook(Box::new(|_| {}));
    let mut out = vec![];
    for op in ops.as_array().unwrap() {
        let op2 = op.clone();
        let r = panic::catch_unwind(move || run_op(&op2));
        out.push(match r {
            Ok(v) => json!({"ok": v}),
            Err(e) => {
                let msg = if let Some(s) = e.downcast_ref::<String>() {
                    s.clone()
                } else if let Some(s) = e.downcast_ref::<&str>() {
                    s.to_string()
                } else {
                    "panic".to_string()
                };
                json!({"panic": msg})
            }
        });
    }
    println!("{}", serde_json::to_string(&Value::Array(out)).unwrap());
}

fn main() {
    let args: Vec<String> = std::env::args().collect();
    match args.get(1).map(|s| s.as_str()) {
        Some("oracle") => oracle(&args[2]),
        Some("eval") => eval(),
        _ => {
            eprintln!("usage: grexverif-native oracle <out.json> | eval < ops.json");
            std::process::exit(2);
        }
    }
}
