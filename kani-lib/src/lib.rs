//! Kani proof harnesses over the compiled grex library (external crate, path dependency on the
//! tree under check; `cfg(kani)` switches grex's verification hooks on).
//! The oracle tables are generated from regex-syntax on every run and `include!`d.
#![cfg(kani)]

use grex::verif_hooks as hk;
use grex::RegExpBuilder;

include!(env!("GREX_VERIF_ORACLE_RS"));

fn scan(t: &[(char, char)], c: char) -> bool {
    let mut i = 0;
    while i < t.len() {
        if t[i].0 <= c && c <= t[i].1 {
            return true;
        }
        i += 1;
    }
    false
}

fn scan_u(t: &[(u32, u32)], c: char) -> bool {
    let x = c as u32;
    let mut i = 0;
    while i < t.len() {
        if t[i].0 <= x && x <= t[i].1 {
            return true;
        }
        i += 1;
    }
    false
}

// ---------------------------------------------------------------- C09: tables and predicates vs regex-syntax
// unwind bounds = longest table + 2; unwinding assertions stay on, so a longer table is a reported failure.

#[kani::proof]
#[kani::unwind(66)]
fn h09t_decimal_table() {
    let c: char = kani::any();
    let a = scan(hk::tables()[0], c);
    assert!(a == scan_u(ORACLE_D, c));
    kani::cover!(a);
    kani::cover!(!a);
}

#[kani::proof]
#[kani::unwind(773)]
fn h09t_word_table() {
    let c: char = kani::any();
    let a = scan(hk::tables()[1], c);
    assert!(a == scan_u(ORACLE_W, c));
    kani::cover!(a);
    kani::cover!(!a);
}

#[kani::proof]
#[kani::unwind(12)]
fn h09t_space_table() {
    let c: char = kani::any();
    let a = scan(hk::tables()[2], c);
    assert!(a == scan_u(ORACLE_S, c));
    kani::cover!(a);
    kani::cover!(!a);
}

#[kani::proof]
#[kani::unwind(66)]
fn h09d_is_digit() {
    let c: char = kani::any();
    let a = hk::is_digit(c);
    assert!(a == scan_u(ORACLE_D, c));
    kani::cover!(a);
    kani::cover!(!a);
}

#[kani::proof]
#[kani::unwind(12)]
fn h09s_is_space() {
    let c: char = kani::any();
    let a = hk::is_space(c);
    assert!(a == scan_u(ORACLE_S, c));
    kani::cover!(a);
    kani::cover!(!a);
}

// ---------------------------------------------------------------- C07: threshold validation

#[kani::proof]
#[kani::unwind(17)]
#[kani::should_panic]
fn h07a_min_repetitions_zero_panics() {
    let mut b = RegExpBuilder::from(&["a"]);
    b.with_minimum_repetitions(0);
}

#[kani::proof]
#[kani::unwind(17)]
#[kani::should_panic]
fn h07b_min_substring_length_zero_panics() {
    let mut b = RegExpBuilder::from(&["a"]);
    b.with_minimum_substring_length(0);
}

#[kani::proof]
#[kani::unwind(17)]
fn h07c_min_repetitions_positive_ok() {
    let mut b = RegExpBuilder::from(&["a"]);
    let before = hk::config_bits(&b);
    let q: u32 = kani::any();
    kani::assume(q > 0);
    b.with_minimum_repetitions(q);
    let after = hk::config_bits(&b);
    assert!(after.1 == q && after.0 == before.0 && after.2 == before.2);
    kani::cover!(q == u32::MAX);
    kani::cover!(q == 1);
}

#[kani::proof]
#[kani::unwind(17)]
fn h07d_min_substring_length_positive_ok() {
    let mut b = RegExpBuilder::from(&["a"]);
    let before = hk::config_bits(&b);
    let q: u32 = kani::any();
    kani::assume(q > 0);
    b.with_minimum_substring_length(q);
    let after = hk::config_bits(&b);
    assert!(after.2 == q && after.0 == before.0 && after.1 == before.1);
    kani::cover!(q == u32::MAX);
    kani::cover!(q == 1);
}

// ---------------------------------------------------------------- C10: setters commute / are idempotent / frame

const N_SETTERS: u8 = 16;

/// applies setter number `i`; returns the config bits the setter is documented to own
fn apply(b: &mut RegExpBuilder, i: u8, flag: bool, q: u32) {
    match i {
        0 => { b.with_conversion_of_digits(); }
        1 => { b.with_conversion_of_non_digits(); }
        2 => { b.with_conversion_of_whitespace(); }
        3 => { b.with_conversion_of_non_whitespace(); }
        4 => { b.with_conversion_of_words(); }
        5 => { b.with_conversion_of_non_words(); }
        6 => { b.with_conversion_of_repetitions(); }
        7 => { b.with_case_insensitive_matching(); }
        8 => { b.with_capturing_groups(); }
        9 => { b.with_escaping_of_non_ascii_chars(flag); }
        10 => { b.with_verbose_mode(); }
        11 => { b.without_start_anchor(); }
        12 => { b.without_end_anchor(); }
        13 => { b.without_anchors(); }
        14 => { b.with_minimum_repetitions(q); }
        _ => { b.with_minimum_substring_length(q); }
    }
}

/// bit positions (declaration order of RegExpConfig's Boolean fields, see verif_hooks::config_bits)
/// that setter `i` may change; thresholds are handled separately
fn owned_bits(i: u8) -> u32 {
    match i {
        0 => 1 << 0,
        1 => 1 << 1,
        2 => 1 << 2,
        3 => 1 << 3,
        4 => 1 << 4,
        5 => 1 << 5,
        6 => 1 << 6,
        7 => 1 << 7,
        8 => 1 << 8,
        9 => (1 << 9) | (1 << 10),
        10 => 1 << 11,
        11 => 1 << 12,
        12 => 1 << 13,
        13 => (1 << 12) | (1 << 13),
        _ => 0,
    }
}

#[kani::proof]
#[kani::unwind(17)]
fn h10c_setters_commute() {
    let i: u8 = kani::any();
    let j: u8 = kani::any();
    kani::assume(i < N_SETTERS && j < N_SETTERS);
    let fi: bool = kani::any();
    let fj: bool = kani::any();
    let qi: u32 = kani::any();
    let qj: u32 = kani::any();
    kani::assume(qi > 0 && qj > 0);
    // the same setter with two different arguments is legitimately "last one wins"
    kani::assume(i != j || (fi == fj && qi == qj));
    // with_escaping_of_non_ascii_chars(flag) is the only setter with a Boolean argument; nothing else writes its bits
    let mut a = RegExpBuilder::from(&["a"]);
    let mut b = RegExpBuilder::from(&["a"]);
    apply(&mut a, i, fi, qi);
    apply(&mut a, j, fj, qj);
    apply(&mut b, j, fj, qj);
    apply(&mut b, i, fi, qi);
    assert!(hk::config_bits(&a) == hk::config_bits(&b));
    assert!(hk::test_cases(&a).len() == 1 && hk::test_cases(&b).len() == 1);
    kani::cover!(i == 13 && j == 11);
    kani::cover!(i == 9 && j == 9);
    kani::cover!(i == 14 && j == 15);
}

#[kani::proof]
#[kani::unwind(17)]
fn h10f_setter_frame_and_idempotence() {
    let i: u8 = kani::any();
    kani::assume(i < N_SETTERS);
    let f: bool = kani::any();
    let q: u32 = kani::any();
    kani::assume(q > 0);
    let mut a = RegExpBuilder::from(&["a"]);
    let before = hk::config_bits(&a);
    apply(&mut a, i, f, q);
    let once = hk::config_bits(&a);
    // frame: only the bits the setter owns may differ; thresholds only for setters 14 / 15
    assert!((before.0 ^ once.0) & !owned_bits(i) == 0);
    assert!(i == 14 || once.1 == before.1);
    assert!(i == 15 || once.2 == before.2);
    assert!(i != 14 || once.1 == q);
    assert!(i != 15 || once.2 == q);
    // effect: flag setters set (never clear) their bits
    if i < 9 || (i >= 10 && i <= 13) {
        assert!(once.0 & owned_bits(i) == owned_bits(i));
    }
    if i == 9 {
        assert!(once.0 & (1 << 9) != 0 && ((once.0 & (1 << 10)) != 0) == f);
    }
    apply(&mut a, i, f, q);
    assert!(hk::config_bits(&a) == once);
    kani::cover!(i == 9 && f);
    kani::cover!(i == 15);
}

#[kani::proof]
#[kani::unwind(17)]
fn h10k_clone_preserves_settings() {
    let i: u8 = kani::any();
    kani::assume(i < N_SETTERS);
    let f: bool = kani::any();
    let q: u32 = kani::any();
    kani::assume(q > 0);
    let mut a = RegExpBuilder::from(&["a"]);
    apply(&mut a, i, f, q);
    let b = a.clone();
    assert!(hk::config_bits(&a) == hk::config_bits(&b));
    assert!(hk::test_cases(&b).len() == 1);
    kani::cover!(i == 0);
}
