// Kani harnesses for the CLI front end (C12).  This text is `include!`d into /repo/src/main.rs
// (inside `mod cli`, under cfg(kani)) through the GREX_VERIF_CLI_HARNESS hook; it is not part of grex.
use super::*;

static mut SEEN: (u32, u32, u32) = (0, 0, 0);
static mut BUILD_CALLS: u32 = 0;

fn stub_build(b: &mut RegExpBuilder) -> String {
    unsafe {
        SEEN = grex::verif_hooks::config_bits(b);
        BUILD_CALLS += 1;
    }
    String::new()
}

fn stub_print(_args: std::fmt::Arguments<'_>) {}

fn stub_format(_args: std::fmt::Arguments<'_>) -> String {
    String::new()
}

fn any_cli() -> Cli {
    let minrep: u32 = kani::any();
    let minlen: u32 = kani::any();
    // clap's value parser (repetition_options_parser) rejects zero before handle_input is reached
    kani::assume(minrep > 0 && minlen > 0);
    Cli {
        input: vec![],
        file_path: None,
        is_digit_converted: kani::any(),
        is_non_digit_converted: kani::any(),
        is_space_converted: kani::any(),
        is_non_space_converted: kani::any(),
        is_word_converted: kani::any(),
        is_non_word_converted: kani::any(),
        is_non_ascii_char_escaped: kani::any(),
        is_astral_code_point_converted_to_surrogate: kani::any(),
        is_repetition_converted: kani::any(),
        minimum_repetitions: minrep,
        minimum_substring_length: minlen,
        is_caret_anchor_disabled: kani::any(),
        is_dollar_sign_anchor_disabled: kani::any(),
        are_anchors_disabled: kani::any(),
        is_verbose_mode_enabled: kani::any(),
        is_output_colorized: kani::any(),
        is_case_ignored: kani::any(),
        is_group_captured: kani::any(),
        help: None,
        version: None,
    }
}

/// a test case that is either the empty string or "a" (the empty string is a legitimate test case)
fn any_case() -> String {
    if kani::any() {
        String::new()
    } else {
        String::from("a")
    }
}

fn bit(bits: u32, k: u32) -> bool {
    bits & (1 << k) != 0
}

/// bit positions = declaration order of RegExpConfig's Boolean fields (verif_hooks::config_bits)
fn assert_mapping(cli: &Cli) {
    let (bits, mr, ml) = unsafe { SEEN };
    assert!(unsafe { BUILD_CALLS } == 1);
    assert!(mr == cli.minimum_repetitions);
    assert!(ml == cli.minimum_substring_length);
    assert!(bit(bits, 0) == cli.is_digit_converted);
    assert!(bit(bits, 1) == cli.is_non_digit_converted);
    assert!(bit(bits, 2) == cli.is_space_converted);
    assert!(bit(bits, 3) == cli.is_non_space_converted);
    assert!(bit(bits, 4) == cli.is_word_converted);
    assert!(bit(bits, 5) == cli.is_non_word_converted);
    assert!(bit(bits, 6) == cli.is_repetition_converted);
    assert!(bit(bits, 7) == cli.is_case_ignored);
    assert!(bit(bits, 8) == cli.is_group_captured);
    assert!(bit(bits, 9) == cli.is_non_ascii_char_escaped);
    assert!(bit(bits, 10) == (cli.is_non_ascii_char_escaped && cli.is_astral_code_point_converted_to_surrogate));
    assert!(bit(bits, 11) == cli.is_verbose_mode_enabled);
    assert!(bit(bits, 12) == (cli.is_caret_anchor_disabled || cli.are_anchors_disabled));
    assert!(bit(bits, 13) == (cli.is_dollar_sign_anchor_disabled || cli.are_anchors_disabled));
    assert!(bit(bits, 14) == cli.is_output_colorized);
}

#[kani::proof]
#[kani::unwind(17)]
#[kani::stub(grex::RegExpBuilder::build, stub_build)]
#[kani::stub(std::io::_print, stub_print)]
fn h12m_flag_mapping() {
    let cli = any_cli();
    let case = any_case();
    let empty = case.is_empty();
    let r = handle_input(&cli, Ok(vec![case]));
    assert!(r.is_ok());
    assert_mapping(&cli);
    kani::cover!(empty);
    kani::cover!(!empty);
    kani::cover!(cli.are_anchors_disabled && !cli.is_caret_anchor_disabled);
    kani::cover!(cli.is_astral_code_point_converted_to_surrogate && !cli.is_non_ascii_char_escaped);
    kani::cover!(cli.minimum_repetitions == u32::MAX);
}

#[kani::proof]
#[kani::unwind(17)]
#[kani::stub(grex::RegExpBuilder::build, stub_build)]
#[kani::stub(std::io::_print, stub_print)]
fn h12p2_two_test_cases() {
    let cli = any_cli();
    let (c1, c2) = (any_case(), any_case());
    let both_empty = c1.is_empty() && c2.is_empty();
    let r = handle_input(&cli, Ok(vec![c1, c2]));
    assert!(r.is_ok());
    assert_mapping(&cli);
    kani::cover!(both_empty);
    kani::cover!(!both_empty);
}

#[kani::proof]
#[kani::unwind(17)]
#[kani::stub(grex::RegExpBuilder::build, stub_build)]
#[kani::stub(std::io::_print, stub_print)]
fn h12p0_no_test_cases_is_an_error_not_a_panic() {
    let cli = any_cli();
    let r = handle_input(&cli, Ok(vec![]));
    assert!(r.is_err());
    assert!(unsafe { BUILD_CALLS } == 0);
}

#[kani::proof]
#[kani::unwind(17)]
#[kani::stub(grex::RegExpBuilder::build, stub_build)]
#[kani::stub(std::io::_print, stub_print)]
#[kani::stub(alloc::fmt::format, stub_format)]
fn h12e_input_errors_become_err() {
    let cli = any_cli();
    let k: u8 = kani::any();
    let kind = match k {
        0 => ErrorKind::NotFound,
        1 => ErrorKind::InvalidData,
        2 => ErrorKind::PermissionDenied,
        3 => ErrorKind::InvalidInput,
        4 => ErrorKind::UnexpectedEof,
        _ => ErrorKind::Other,
    };
    let r = handle_input(&cli, Err(Error::from(kind)));
    assert!(r.is_err());
    assert!(unsafe { BUILD_CALLS } == 0);
    kani::cover!(k == 0);
    kani::cover!(k == 3);
    kani::cover!(k > 4);
}
