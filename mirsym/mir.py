"""Parser for rustc's `-Zunpretty=mir` text.

Produces `Body` objects (fn / const / static / promoted) with their basic blocks as
lists of statement strings.  Nothing is interpreted here; see sym.py.
"""
import os
import re


class Body:
    def __init__(self, kind, name, params, ret, text):
        self.kind, self.name, self.params, self.ret, self.text = kind, name, params, ret, text
        self.blocks = {}       # 'bbN' -> (list of statement strings, is_cleanup)
        self.local_types = {}  # '_N' -> type text
        self.debug = {}        # debug name -> place text
        self._parse()

    def _parse(self):
        for m in re.finditer(r'^\s+let (?:mut )?(_\d+): (.*);$', self.text, re.M):
            self.local_types[m.group(1)] = m.group(2)
        for p, t in self.params:
            self.local_types[p] = t
        self.local_types['_0'] = self.ret
        for m in re.finditer(r'^\s+debug (\w+) => (.*);$', self.text, re.M):
            self.debug[m.group(1)] = m.group(2)
        for m in re.finditer(r'^    (bb\d+)( \(cleanup\))?: \{\n(.*?)^    \}$', self.text, re.S | re.M):
            stmts = []
            for s in m.group(3).split('\n'):
                s = s.strip()
                if not s:
                    continue
                # statements always end with ';' except a multi-line continuation, which MIR does not emit
                stmts.append(s[:-1] if s.endswith(';') else s)
            self.blocks[m.group(1)] = (stmts, bool(m.group(2)))


_CHAR_LIT = re.compile(r"'(\\u\{[0-9a-fA-F]+\}|\\.|[^'\\])'")


def split_top(s, sep=','):
    """split on sep at nesting depth 0 of ()[]{} and outside string / char literals"""
    out, depth, cur, i, q = [], 0, '', 0, None
    n = len(s)
    while i < n:
        ch = s[i]
        if q:
            cur += ch
            if ch == '\\':
                cur += s[i + 1]
                i += 1
            elif ch == q:
                q = None
        elif ch == '"':
            q = ch
            cur += ch
        elif ch == "'" and _CHAR_LIT.match(s, i):
            m = _CHAR_LIT.match(s, i)
            cur += m.group(0)
            i += len(m.group(0)) - 1
        elif ch in '([{':
            depth += 1
            cur += ch
        elif ch in ')]}':
            depth -= 1
            cur += ch
        elif ch == sep and depth == 0:
            out.append(cur.strip())
            cur = ''
        else:
            cur += ch
        i += 1
    if cur.strip():
        out.append(cur.strip())
    return out


def split_call(rhs):
    """'callee(args)' -> (callee, args text); parentheses inside string / char literals do not count"""
    depth, i, n, q = 0, 0, len(rhs), None
    start = end = None
    while i < n:
        ch = rhs[i]
        if q:
            if ch == '\\':
                i += 1
            elif ch == q:
                q = None
        elif ch == '"':
            q = ch
        elif ch == "'" and _CHAR_LIT.match(rhs, i):
            i += len(_CHAR_LIT.match(rhs, i).group(0)) - 1
        elif ch == '(':
            if depth == 0:
                start = i
            depth += 1
        elif ch == ')':
            depth -= 1
            if depth == 0:
                end = i
        i += 1
    if start is None or end != n - 1:
        return None
    return rhs[:start].strip(), rhs[start + 1:end]


def parse_params(s):
    res = []
    for p in split_top(s):
        m = re.match(r'(_\d+): (.*)$', p, re.S)
        if m:
            res.append((m.group(1), m.group(2)))
    return res


class Mir:
    """All bodies of one crate's MIR dump, plus source-derived facts (impl headers, enum variants)."""

    def __init__(self, text, src_root=None):
        self.text = text
        self.src_root = src_root
        self.fns, self.consts = {}, {}
        # items start at column 0 with fn/const/static; header is a single line; body ends with a line "}"
        for m in re.finditer(r'^(fn|const|static) ([^\n]*?) \{\n(.*?)^\}$', text, re.S | re.M):
            kind, head, body = m.groups()
            if kind == 'fn':
                hm = re.match(r'(.*?)\((.*)\) -> (.*)$', head, re.S)
                if not hm:
                    continue
                name, params, ret = hm.group(1), parse_params(hm.group(2)), hm.group(3)
                self.fns[name] = Body('fn', name, params, ret, body)
            else:
                if not head.endswith(' ='):
                    continue
                depth, cut = 0, None
                for i, ch in enumerate(head):
                    if ch == '<':
                        depth += 1
                    elif ch == '>' and head[i - 1] != '-':
                        depth -= 1
                    elif ch == ':' and depth == 0 and head[i + 1:i + 2] == ' ' and head[i - 1] != ':':
                        cut = i
                        break
                if cut is None:
                    continue
                name = head[:cut]
                if name.startswith('mut '):
                    name = name[4:]
                self.consts[name] = Body(kind, name, [], head[cut + 2:-2], body)
        self.inline_consts = {}  # one-line items:  const NAME: T = const VALUE;
        for m in re.finditer(r'^const ([^\n:]+(?:::[^\n:]+)*): [^\n]*? = (const [^\n]*);$', text, re.M):
            self.inline_consts[m.group(1)] = m.group(2)
        self.impl_headers = {}   # fn name -> source text of its `<impl at file:l:c: l:c>` span
        self.enums = {}          # enum short name -> [variant names]
        self.structs = {}        # struct short name -> [field names]
        if src_root:
            self._read_sources()

    # ---- facts read from the current source text (declaration order only; no semantics)
    def _read_sources(self):
        cache = {}
        for name in self.fns:
            m = re.search(r'<impl at ([^:>]+):(\d+):(\d+): (\d+):(\d+)>', name)
            if not m:
                continue
            f, l1, c1, l2, c2 = m.group(1), int(m.group(2)), int(m.group(3)), int(m.group(4)), int(m.group(5))
            path = f if os.path.isabs(f) else os.path.join(self.src_root, f)
            if path not in cache:
                try:
                    cache[path] = open(path, encoding='utf-8').read().split('\n')
                except OSError:
                    cache[path] = None
            lines = cache[path]
            if lines is None or l1 != l2 or l1 > len(lines):
                continue
            self.impl_headers[name] = lines[l1 - 1][c1 - 1:c2 - 1]
        srcdir = os.path.join(self.src_root, 'src')
        for root, _d, files in os.walk(srcdir):
            for fn in files:
                if not fn.endswith('.rs'):
                    continue
                txt = open(os.path.join(root, fn), encoding='utf-8').read()
                for m in re.finditer(r'^\s*(?:pub(?:\([a-z]+\))? )?enum (\w+)(?:<[^>]*>)?\s*\{(.*?)^\s*\}', txt, re.S | re.M):
                    body = re.sub(r'//[^\n]*', '', m.group(2))
                    vs = []
                    for part in split_top(body):
                        part = re.sub(r'#\[[^\]]*\]', '', part).strip()
                        vm = re.match(r'(\w+)', part)
                        if vm:
                            vs.append(vm.group(1))
                    self.enums[m.group(1)] = vs
                for m in re.finditer(r'^\s*(?:pub(?:\([a-z]+\))? )?struct (\w+)(?:<[^>]*>)?\s*\{(.*?)^\s*\}', txt, re.S | re.M):
                    body = re.sub(r'//[^\n]*', '', m.group(2))
                    fs = []
                    for part in split_top(body):
                        part = re.sub(r'#\[[^\]]*\]', '', part).strip()
                        fm = re.match(r'(?:pub(?:\([a-z]+\))? )?(\w+)\s*:', part)
                        if fm:
                            fs.append(fm.group(1))
                    self.structs[m.group(1)] = fs

    def find_fn(self, regex):
        return [n for n in self.fns if re.search(regex, n)]

    def one_fn(self, regex):
        c = self.find_fn(regex)
        if len(c) != 1:
            raise KeyError('expected exactly one MIR body matching %r, found %d: %s' % (regex, len(c), c[:5]))
        return c[0]
