"""Solver side: deciding obligations, all-SAT enumeration, SMT-LIB export and second opinions."""
import os
import re
import subprocess
import tempfile
import time
import z3

BV = z3.BitVecVal


def valid_char(c):
    return z3.And(z3.ULE(c, BV(0x10FFFF, 32)), z3.Or(z3.ULT(c, BV(0xD800, 32)), z3.UGT(c, BV(0xDFFF, 32))))


def in_ranges(x, ranges):
    """membership of bit-vector x in sorted disjoint closed ranges, as a balanced decision tree"""
    rs = [(int(a), int(b)) for a, b in ranges]
    w = x.size()

    def go(lo, hi):
        if hi - lo <= 3:
            return z3.Or(*[z3.And(z3.ULE(BV(a, w), x), z3.ULE(x, BV(b, w))) if a != b else x == BV(a, w)
                           for a, b in rs[lo:hi]]) if hi > lo else z3.BoolVal(False)
        mid = (lo + hi) // 2
        return z3.If(z3.ULT(x, BV(rs[mid][0], w)), go(lo, mid), go(mid, hi))
    return go(0, len(rs))


def table_tree(x, entries, default):
    """balanced decision tree over sorted (key, value term) entries; missing keys -> default"""
    es = sorted(entries, key=lambda e: e[0])
    w = x.size()

    def go(lo, hi):
        if hi - lo <= 4:
            e = default
            for k, v in es[lo:hi]:
                e = z3.If(x == BV(k, w), v, e)
            return e
        mid = (lo + hi) // 2
        return z3.If(z3.ULT(x, BV(es[mid][0], w)), go(lo, mid), go(mid, hi))
    return go(0, len(es))


def eq_alts(items, alts):
    """items: list of terms; alts: [(guard, [terms])] -> Bool: some alternative with a true guard equals items"""
    ds = []
    for g, ref in alts:
        if len(ref) != len(items):
            continue
        ds.append(z3.And(g, *[a == b for a, b in zip(items, ref)]))
    return z3.Or(*ds) if ds else z3.BoolVal(False)


class Verdict:
    def __init__(self, name):
        self.name = name
        self.result = None          # 'unsat' | 'sat' | 'inconclusive'
        self.models = []            # list of dicts var -> int/bool
        self.solver_s = 0.0
        self.queries = 0
        self.second = {}            # solver name -> 'unsat'/'sat'/'unknown'/'error'/...
        self.note = ''
        self.smt2 = None

    def as_dict(self):
        return {'result': self.result, 'models': self.models[:20], 'n_models': len(self.models),
                'solver_s': round(self.solver_s, 3), 'queries': self.queries, 'second_opinion': self.second,
                'note': self.note}


def _model_dict(m, vars_):
    d = {}
    for v in vars_:
        x = m.eval(v, model_completion=True)
        if z3.is_bv_value(x):
            d[str(v)] = x.as_long()
        elif z3.is_true(x) or z3.is_false(x):
            d[str(v)] = z3.is_true(x)
        else:
            d[str(v)] = str(x)
    return d


def decide(name, assumptions, bad, vars_, logic='QF_BV', all_sat=False, max_models=2000, timeout_s=120,
           second=(), workdir=None, second_timeout_s=60, block_vars=None, blocker=None):
    """Is `assumptions AND bad` satisfiable?  all_sat: enumerate every assignment of block_vars (default vars_)."""
    v = Verdict(name)
    s = z3.SolverFor(logic)
    s.set('timeout', int(timeout_s * 1000))
    s.add(*assumptions)
    s.add(bad)
    v.smt2 = '(set-logic %s)\n' % logic + s.to_smt2().replace('(set-info :status unknown)\n', '')
    t0 = time.time()
    bvars = block_vars if block_vars is not None else vars_
    while True:
        r = s.check()
        v.queries += 1
        if r == z3.unsat:
            v.result = 'sat' if v.models else 'unsat'
            break
        if r != z3.sat:
            if v.models:
                # the enumeration of FURTHER counterexamples gave up; the ones found stand
                v.result = 'sat'
                v.note = 'enumeration stopped after %d models: primary solver %s (%s)' % (len(v.models), r, s.reason_unknown())
            else:
                v.result = 'inconclusive'
                v.note = 'primary solver: %s (%s)' % (r, s.reason_unknown())
            break
        m = s.model()
        v.models.append(_model_dict(m, vars_))
        if not all_sat or len(v.models) >= max_models:
            v.result = 'sat'
            if all_sat:
                v.note = 'model cap %d reached' % max_models
            break
        s.add(blocker(m) if blocker is not None else z3.Or(*[x != m.eval(x, model_completion=True) for x in bvars]))
    v.solver_s = time.time() - t0
    if second and v.result in ('unsat', 'sat'):
        first = 'unsat' if not v.models else 'sat'
        import concurrent.futures as cf
        with cf.ThreadPoolExecutor(max_workers=len(second)) as pool:
            futs = {name2: pool.submit(run_external, name2, v.smt2, second_timeout_s, workdir) for name2 in second}
        for name2 in second:
            r2 = futs[name2].result()
            v.second[name2] = r2
            if r2 in ('sat', 'unsat') and r2 != first:
                v.result = 'inconclusive'
                v.note = 'solver disagreement: z3-lib says %s, %s says %s' % (first, name2, r2)
    return v


EXTERNAL = {
    'z3-4.8.12': lambda f, t: ['/usr/bin/z3', '-smt2', '-T:%d' % t, f],
    'cvc5-1.0': lambda f, t: ['cvc5', '--lang', 'smt2', '--tlimit=%d' % (t * 1000), f],
}


def run_external(which, smt2, timeout_s, workdir=None):
    d = workdir or tempfile.gettempdir()
    os.makedirs(d, exist_ok=True)
    fd, path = tempfile.mkstemp(suffix='.smt2', dir=d)
    with os.fdopen(fd, 'w') as f:
        f.write(smt2)
        if '(check-sat)' not in smt2:
            f.write('\n(check-sat)\n')
    try:
        p = subprocess.run(EXTERNAL[which](path, timeout_s), capture_output=True, text=True, timeout=timeout_s + 10)
        out = (p.stdout + p.stderr).strip()
    except subprocess.TimeoutExpired:
        return 'timeout'
    except OSError as e:
        return 'unavailable: %s' % e
    finally:
        try:
            os.unlink(path)
        except OSError:
            pass
    if '(error' in out:
        return 'error'
    first = out.split('\n')[0].strip() if out else ''
    if first in ('sat', 'unsat', 'unknown'):
        return first
    if 'timeout' in out:
        return 'timeout'
    return 'unrecognised: ' + first[:40]
