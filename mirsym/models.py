"""Models of std / dependency functions called by the grex bodies that mirsym executes.

Each model is exact by the documented behaviour of the API it stands for, or is a named
stub (table stub / uninterpreted); `MODEL_DOC` gives the one-line statement that goes into
the evidence file.  Signature: model(ex, st, fr, callee, args, depth) -> value | [(state, value)] | Outcome.
"""
import re
import z3
from .sym import (SymStr, ListV, TupV, EnumV, RefV, ClosV, FnItem, IterV, Opaque, Outcome, Inconclusive, UNIT, NONE,
                  some, ok, err, lit, is_z3, concrete, BV, INT_W, strip_generics)

MODEL_DOC = {}


def deref(st, v):
    while isinstance(v, RefV):
        v = st.load(v)
    return v


def as_str(st, v):
    v = deref(st, v)
    if isinstance(v, SymStr):
        return v
    raise Inconclusive('expected a string, got %r' % (v,))


# --------------------------------------------------------------------------- number rendering
def nibble_char(n4):
    n = z3.ZeroExt(28, n4)
    return z3.If(z3.ULT(n, 10), n + 48, n + 87)


def hex_cases(v, maxd=None):
    """[(condition, [digit terms])] for lower-hex of bit-vector v without leading zeros"""
    w = v.size()
    maxd = maxd or (w + 3) // 4
    ve = z3.ZeroExt(4 * maxd - w, v) if 4 * maxd > w else v
    out = []
    for k in range(1, maxd + 1):
        conds = []
        if k < maxd:
            conds.append(z3.ULT(ve, BV(16 ** k, ve.size())))
        if k > 1:
            conds.append(z3.UGE(ve, BV(16 ** (k - 1), ve.size())))
        digs = [nibble_char(z3.Extract(4 * (k - 1 - i) + 3, 4 * (k - 1 - i), ve)) for i in range(k)]
        out.append((z3.And(*conds) if conds else z3.BoolVal(True), digs))
    return out


def dec_cases(v):
    """[(condition, [digit terms])] for the decimal rendering of unsigned bit-vector v"""
    w = v.size()
    maxd = len(str(2 ** w - 1))
    out = []
    for k in range(1, maxd + 1):
        conds = []
        if 10 ** k < 2 ** w:
            conds.append(z3.ULT(v, BV(10 ** k, w)))
        if k > 1:
            conds.append(z3.UGE(v, BV(10 ** (k - 1), w)))
        digs = []
        for i in range(k):
            d = z3.URem(z3.UDiv(v, BV(10 ** (k - 1 - i), w)), BV(10, w))
            d = z3.ZeroExt(32 - w, d) if w < 32 else z3.Extract(31, 0, d)
            digs.append(d + 48)
        out.append((z3.And(*conds) if conds else z3.BoolVal(True), digs))
    return out


def fork_cases(ex, st, cases):
    """[(cond, payload)] -> [(state, payload)] for the feasible cases"""
    c = concrete_case(cases)
    if c is not None:
        return [(st, c)]
    live = [(cond, p) for cond, p in cases if ex.feasible(st.pc, cond)]
    if len(live) == 1:
        st.pc.append(live[0][0])
        return [(st, live[0][1])]
    return [(st.fork(cond), p) for cond, p in live]


def concrete_case(cases):
    hit = None
    for cond, p in cases:
        s = z3.simplify(cond)
        if z3.is_true(s):
            if hit is not None:
                return None
            hit = p
        elif not z3.is_false(s):
            return None
    return hit


# --------------------------------------------------------------------------- iterators
# An iterator is an IterV: a source (list / chars / range) or an adaptor over a base iterator.  `elems` materialises
# the remaining items of a FINITE iterator, running adaptor closures from their MIR in order (forking where needed).
SOURCE_KINDS = ('list', 'chars', 'range', 'matches')


def call_seq(ex, st, clos, items, depth, by_ref=False, merged=True):
    """apply closure to each item in order -> [(state, [results])]"""
    cur = [(st, [])]
    for x in items:
        nxt = []
        for s1, acc in cur:
            arg = s1.ref(x) if by_ref else x
            outs = ex.call_merged(s1, clos, [arg], depth) if merged else ex.call_value(s1, clos, [arg], depth)
            for o in outs:
                if o.panic:
                    raise Inconclusive('panic inside an iterator closure')
                nxt.append((o.st, acc + [o.val]))
        cur = nxt
    return cur


def truth_forks(ex, st, v):
    if not is_z3(v):
        raise Inconclusive('expected a Boolean, got %r' % (v,))
    return ex.branch(st, v)


def iterable(st, v):
    """value usable as an iterator source -> IterV or None"""
    if isinstance(v, IterV):
        return v
    if isinstance(v, TupV) and v.names == ('start', 'end'):
        if v.tag == 'RangeInclusive':
            hi = concrete(v.get('end'))
            if hi is None:
                raise Inconclusive('inclusive range with a symbolic end')
            return IterV('range', items=(v.get('start'), BV(hi + 1, v.get('end').size())))
        return IterV('range', items=(v.get('start'), v.get('end')))
    if isinstance(v, ListV):
        return IterV('list', items=v.items)
    if isinstance(v, RefV):
        t = st.load(v)
        if isinstance(t, ListV):
            return IterV('list', by_ref=v)
        if isinstance(t, RefV):
            return iterable(st, t)
        if isinstance(t, (IterV, TupV)):
            return iterable(st, t)
    if isinstance(v, EnumV) and v.enum == 'Option':
        return IterV('list', items=tuple(v.fields))
    return None


def elems(ex, st, it, depth):
    """consume iterator value -> [(state, [items])]"""
    it0 = it
    it = iterable(st, deref_iter(st, it))
    if it is None:
        raise Inconclusive('iterate %r' % (it0,))
    k = it.kind
    if k == 'chars' or k == 'matches':
        return [(st, list(it.items[it.pos:]))]
    if k == 'list':
        if it.by_ref is not None:
            n = len(deref(st, it.by_ref).items)
            return [(st, [RefV(it.by_ref.addr, it.by_ref.path + (i,)) for i in range(it.pos, n)])]
        return [(st, list(it.items[it.pos:]))]
    if k == 'range':
        lo, hi = concrete(it.items[0]), concrete(it.items[1])
        if lo is None or hi is None:
            raise Inconclusive('range with symbolic bounds')
        return [(st, [BV(i, it.items[0].size()) for i in range(lo, hi)])]
    outs = []
    for st1, xs in elems(ex, st, it.base, depth):
        if k == 'map':
            outs += call_seq(ex, st1, it.clos, xs, depth)
        elif k == 'filter':
            for st2, keeps in call_seq(ex, st1, it.clos, xs, depth, by_ref=True):
                cur = [(st2, [])]
                for x, kp in zip(xs, keeps):
                    nxt = []
                    for s3, acc in cur:
                        for s4, t in truth_forks(ex, s3, kp):
                            nxt.append((s4, acc + [x] if t else acc))
                    cur = nxt
                outs += cur
        elif k == 'filter_map':
            for st2, rs in call_seq(ex, st1, it.clos, xs, depth, merged=False):
                outs.append((st2, [r.fields[0] for r in rs if r.variant == 'Some']))
        elif k == 'enumerate':
            outs.append((st1, [TupV((BV(i, 64), x)) for i, x in enumerate(xs)]))
        elif k == 'rev':
            outs.append((st1, xs[::-1]))
        elif k in ('cloned', 'copied'):
            outs.append((st1, [deref(st1, x) if isinstance(x, RefV) and not isinstance(st1.load(x), RefV) else st1.load(x) for x in xs]))
        elif k == 'flat_map':
            for st2, rs in call_seq(ex, st1, it.clos, xs, depth, merged=False):
                cur = [(st2, [])]
                for r in rs:
                    nxt = []
                    for s3, acc in cur:
                        for s4, ys in elems(ex, s3, r, depth):
                            nxt.append((s4, acc + ys))
                    cur = nxt
                outs += cur
        elif k == 'zip':
            for st2, ys in elems(ex, st1, it.clos, depth):
                outs.append((st2, [TupV((x, y)) for x, y in zip(xs, ys)]))
        elif k == 'take':
            outs.append((st1, xs[:it.pos]))
        elif k == 'skip':
            outs.append((st1, xs[it.pos:]))
        elif k == 'chain':
            for st2, ys in elems(ex, st1, it.clos, depth):
                outs.append((st2, xs + ys))
        else:
            raise Inconclusive('iterator adaptor ' + k)
    return outs


def deref_iter(st, v):
    while isinstance(v, RefV):
        t = st.load(v)
        if isinstance(t, ListV):
            return v
        v = t
    return v


def m_slice_iter(ex, st, fr, callee, a, depth):
    r = a[0]
    while isinstance(r, RefV) and isinstance(st.load(r), RefV):
        r = st.load(r)
    v = st.load(r)
    if isinstance(v, ListV):
        return IterV('list', by_ref=r)
    raise Inconclusive('slice::iter on %r' % (v,))


def m_into_iter(ex, st, fr, callee, a, depth):
    it = iterable(st, a[0])
    return it if it is not None else a[0]


def m_iter_next(ex, st, fr, callee, a, depth):
    r = a[0]
    while isinstance(st.load(r), RefV) and not isinstance(st.load(st.load(r)), ListV):
        r = st.load(r)
    it = iterable(st, st.load(r))
    if it is None:
        return NotImplemented
    if it.kind == 'range':
        lo, hi = concrete(it.items[0]), concrete(it.items[1])
        if lo is None or hi is None:
            raise Inconclusive('Range::next with symbolic bounds')
        w = it.items[0].size()
        if lo < hi:
            st.store(r, IterV('range', items=(BV(lo + 1, w), it.items[1])))
            return some(BV(lo, w))
        return NONE
    if it.kind == 'list':
        if it.by_ref is not None:
            n = len(deref(st, it.by_ref).items)
            if it.pos < n:
                st.store(r, IterV('list', pos=it.pos + 1, by_ref=it.by_ref))
                return some(RefV(it.by_ref.addr, it.by_ref.path + (it.pos,)))
            return NONE
        if it.pos < len(it.items):
            st.store(r, IterV('list', items=it.items, pos=it.pos + 1))
            return some(it.items[it.pos])
        return NONE
    if it.kind in ('chars', 'matches'):
        if it.pos < len(it.items):
            st.store(r, IterV(it.kind, items=it.items, pos=it.pos + 1))
            return some(it.items[it.pos])
        return NONE
    # adaptor: materialise once, then behave like a list
    outs = []
    for s1, xs in elems(ex, st, it, depth):
        if xs:
            s1.store(r, IterV('list', items=tuple(xs), pos=1))
            outs.append((s1, some(xs[0])))
        else:
            s1.store(r, IterV('list', items=(), pos=0))
            outs.append((s1, NONE))
    return outs


def adaptor(kind, with_clos=True, by_count=False):
    def m(ex, st, fr, callee, a, depth):
        base = a[0]
        if iterable(st, deref_iter(st, base)) is None:
            return NotImplemented
        if by_count:
            n = concrete(a[1])
            if n is None:
                raise Inconclusive('%s with a symbolic count' % kind)
            return IterV(kind, base=base, pos=n)
        return IterV(kind, base=base, clos=a[1] if with_clos and len(a) > 1 else None)
    m.__name__ = 'm_iter_' + kind
    return m


def _value_eq(st, p, q):
    p, q = deref(st, p), deref(st, q)
    if isinstance(p, SymStr) and isinstance(q, SymStr):
        if len(p.items) != len(q.items):
            return z3.BoolVal(False)
        return z3.And(*[u == v for u, v in zip(p.items, q.items)]) if p.items else z3.BoolVal(True)
    if is_z3(p) and is_z3(q):
        return p == q
    raise Inconclusive('equality of %r and %r' % (p, q))


def m_unique_by(ex, st, fr, callee, a, depth):
    """Itertools::unique_by / unique: keeps the first element of every key class (forks on key equality)"""
    by_key = '::unique_by::<' in callee
    outs = []
    for s, xs in elems(ex, st, a[0], depth):
        keyed = call_seq(ex, s, a[1], xs, depth, by_ref=True, merged=False) if by_key else [(s, list(xs))]
        for s1, keys in keyed:
            cur = [(s1, [], [])]      # state, kept items, kept keys
            for x, k in zip(xs, keys):
                nxt = []
                for s2, kept, kk in cur:
                    work = [(s2, 0)]
                    while work:
                        s3, j = work.pop()
                        if j == len(kk):
                            nxt.append((s3, kept + [x], kk + [k]))
                            continue
                        for s4, same in ex.branch(s3, _value_eq(s3, kk[j], k)):
                            if same:
                                nxt.append((s4, kept, kk))
                            else:
                                work.append((s4, j + 1))
                cur = nxt
            for s2, kept, _kk in cur:
                outs.append((s2, IterV('list', items=tuple(kept))))
    return outs


def m_mem_take(ex, st, fr, callee, a, depth):
    r = a[0]
    v = st.load(r)
    if isinstance(v, ListV):
        st.store(r, ListV(()))
    elif isinstance(v, SymStr):
        st.store(r, SymStr(()))
    else:
        raise Inconclusive('mem::take of %r' % (v,))
    return v


def m_collect_vec(ex, st, fr, callee, a, depth):
    return [(s, ListV(xs)) for s, xs in elems(ex, st, a[0], depth)]


def m_collect(ex, st, fr, callee, a, depth):
    m = re.search(r'::collect::<(.*)>$', callee, re.S)
    target = strip_generics(m.group(1)).strip() if m else ''
    outs = []
    for s, xs in elems(ex, st, a[0], depth):
        if target.split('::')[-1] == 'String':
            items = []
            for x in xs:
                x = deref(s, x)
                items += list(x.items) if isinstance(x, SymStr) else [x]
            outs.append((s, SymStr(items)))
        elif target.split('::')[-1] == 'Vec':
            outs.append((s, ListV(xs)))
        else:
            raise Inconclusive('collect into ' + target)
    return outs


def m_join(ex, st, fr, callee, a, depth):
    sep = as_str(st, a[1])
    outs = []
    for s, xs in elems(ex, st, a[0], depth):
        items = []
        for i, x in enumerate(xs):
            if i:
                items += sep.items
            x = deref(s, x)
            items += x.items if isinstance(x, SymStr) else (x,)
        outs.append((s, SymStr(items)))
    return outs


def m_vec_join(ex, st, fr, callee, a, depth):
    """<[String]>::join(&self, sep: &str)"""
    v = deref(st, a[0])
    sep = as_str(st, a[1])
    if not isinstance(v, ListV):
        raise Inconclusive('join on %r' % (v,))
    items = []
    for i, x in enumerate(v.items):
        if i:
            items += sep.items
        items += as_str(st, x).items
    return SymStr(items)


def m_vec_concat(ex, st, fr, callee, a, depth):
    v = deref(st, a[0])
    if not isinstance(v, ListV):
        raise Inconclusive('concat on %r' % (v,))
    items = []
    for x in v.items:
        items += as_str(st, x).items
    return SymStr(items)


def _quantified(kind):
    def m(ex, st, fr, callee, a, depth):
        outs = []
        for s, xs in elems(ex, st, a[0], depth):
            for s2, acc in call_seq(ex, s, a[1], xs, depth):
                if not all(is_z3(v) for v in acc):
                    raise Inconclusive('%s-closure returned a non-Boolean' % kind)
                if kind == 'any':
                    r = z3.Or(*acc) if acc else z3.BoolVal(False)
                else:
                    r = z3.And(*acc) if acc else z3.BoolVal(True)
                if len(acc) > 8:
                    r = ex.define(r, kind)
                outs.append((s2, r))
        return outs
    m.__name__ = 'm_iter_' + kind
    return m


m_any = _quantified('any')
m_all = _quantified('all')


def m_find(ex, st, fr, callee, a, depth):
    """Iterator::find / position: closures are evaluated in order until one holds"""
    want_pos = '::position::<' in callee
    outs = []
    for s, xs in elems(ex, st, a[0], depth):
        work = [(s, 0)]
        while work:
            s1, i = work.pop()
            if i == len(xs):
                outs.append((s1, NONE))
                continue
            arg = xs[i] if want_pos else s1.ref(xs[i])
            for o in ex.call_merged(s1, a[1], [arg], depth):
                if o.panic:
                    raise Inconclusive('panic inside find-closure')
                for s2, t in truth_forks(ex, o.st, o.val):
                    if t:
                        outs.append((s2, some(BV(i, 64) if want_pos else xs[i])))
                    else:
                        work.append((s2, i + 1))
    return outs


def m_for_each(ex, st, fr, callee, a, depth):
    outs = []
    for s, xs in elems(ex, st, a[0], depth):
        for s2, _acc in call_seq(ex, s, a[1], xs, depth, merged=False):
            outs.append((s2, UNIT))
    return outs


def m_count(ex, st, fr, callee, a, depth):
    return [(s, BV(len(xs), 64)) for s, xs in elems(ex, st, a[0], depth)]


def m_last(ex, st, fr, callee, a, depth):
    return [(s, some(xs[-1]) if xs else NONE) for s, xs in elems(ex, st, a[0], depth)]


def m_sum(ex, st, fr, callee, a, depth):
    outs = []
    for s, xs in elems(ex, st, a[0], depth):
        t = BV(0, 64)
        for x in xs:
            x = deref(s, x)
            t = t + x
        outs.append((s, z3.simplify(t)))
    return outs


# --------------------------------------------------------------------------- Option / Result
def _opt(v, st):
    v2 = v
    while isinstance(v2, RefV):
        v2 = st.load(v2)
    if isinstance(v2, EnumV) and v2.enum in ('Option', 'Result'):
        return v2
    raise Inconclusive('expected Option/Result, got %r' % (v,))


def m_opt_map(ex, st, fr, callee, a, depth):
    o = _opt(a[0], st)
    if o.variant in ('None', 'Err'):
        return o
    outs = []
    for r in ex.call_value(st, a[1], [o.fields[0]], depth):
        if r.panic:
            outs.append(r)
        else:
            outs.append((r.st, EnumV(o.enum, o.variant, o.disc, (r.val,))))
    return outs


def m_opt_and_then(ex, st, fr, callee, a, depth):
    o = _opt(a[0], st)
    if o.variant in ('None', 'Err'):
        return o
    return ex.call_value(st, a[1], [o.fields[0]], depth)


def m_opt_unwrap_or_else(ex, st, fr, callee, a, depth):
    o = _opt(a[0], st)
    if o.variant in ('Some', 'Ok'):
        return o.fields[0]
    args = [] if o.variant == 'None' else [o.fields[0]]
    return ex.call_value(st, a[1], args, depth)


def m_opt_unwrap_or(ex, st, fr, callee, a, depth):
    o = _opt(a[0], st)
    return o.fields[0] if o.variant in ('Some', 'Ok') else a[1]


def m_opt_unwrap(ex, st, fr, callee, a, depth):
    o = _opt(a[0], st)
    if o.variant in ('Some', 'Ok'):
        return o.fields[0]
    return Outcome(st, None, panic='called unwrap/expect on %s' % o.variant)


def m_opt_is(ex, st, fr, callee, a, depth):
    o = _opt(a[0], st)
    name = callee.rsplit('::', 1)[-1]
    return z3.BoolVal({'is_some': o.variant == 'Some', 'is_none': o.variant == 'None', 'is_ok': o.variant == 'Ok',
                       'is_err': o.variant == 'Err'}[name])


def m_opt_cloned(ex, st, fr, callee, a, depth):
    o = _opt(a[0], st)
    if o.variant == 'None':
        return o
    x = o.fields[0]
    return some(st.load(x) if isinstance(x, RefV) else x)


def m_opt_as_ref(ex, st, fr, callee, a, depth):
    o = _opt(a[0], st)
    if o.variant == 'None':
        return o
    r = a[0]
    while isinstance(st.load(r), RefV):
        r = st.load(r)
    return some(RefV(r.addr, r.path + (0,)))


def m_opt_filter(ex, st, fr, callee, a, depth):
    o = _opt(a[0], st)
    if o.variant == 'None':
        return o
    outs = []
    for r in ex.call_merged(st, a[1], [st.ref(o.fields[0])], depth):
        for s2, t in truth_forks(ex, r.st, r.val):
            outs.append((s2, o if t else NONE))
    return outs


def m_result_ok(ex, st, fr, callee, a, depth):
    o = _opt(a[0], st)
    return some(o.fields[0]) if o.variant == 'Ok' else NONE


# --------------------------------------------------------------------------- slices
def _list_ref(st, v):
    r = v
    while isinstance(r, RefV) and isinstance(st.load(r), RefV):
        r = st.load(r)
    if not isinstance(r, RefV) or not isinstance(st.load(r), ListV):
        raise Inconclusive('expected a slice reference, got %r' % (v,))
    return r


def m_slice_first_last(ex, st, fr, callee, a, depth):
    r = _list_ref(st, a[0])
    n = len(st.load(r).items)
    if n == 0:
        return NONE
    i = 0 if callee.rsplit('::', 1)[-1].startswith('first') else n - 1
    return some(RefV(r.addr, r.path + (i,)))


def m_slice_get(ex, st, fr, callee, a, depth):
    r = _list_ref(st, a[0])
    i = concrete(a[1])
    if i is None:
        raise Inconclusive('slice::get with a symbolic index')
    return some(RefV(r.addr, r.path + (i,))) if i < len(st.load(r).items) else NONE


def m_binary_search_by(ex, st, fr, callee, a, depth):
    """slice::binary_search_by: the std algorithm (halving) with the comparator closure run from MIR"""
    r = _list_ref(st, a[0])
    n = len(st.load(r).items)
    if n == 0:
        return err(BV(0, 64))

    def cmp_at(s, i):
        res = []
        for o in ex.call_value(s, a[1], [RefV(r.addr, r.path + (i,))], depth):
            if o.panic or not (isinstance(o.val, EnumV) and o.val.enum == 'Ordering'):
                raise Inconclusive('comparator of binary_search_by returned %r' % (o.val,))
            res.append((o.st, o.val.variant))
        return res
    outs = []
    work = [(st, 0, n)]
    while work:
        s, base, size = work.pop()
        if size > 1:
            half = size // 2
            mid = base + half
            for s2, c in cmp_at(s, mid):
                work.append((s2, base if c == 'Greater' else mid, size - half))
            continue
        for s2, c in cmp_at(s, base):
            if c == 'Equal':
                outs.append((s2, ok(BV(base, 64))))
            else:
                outs.append((s2, err(BV(base + (1 if c == 'Less' else 0), 64))))
    return outs


def ordering(name):
    return EnumV('Ordering', name, {'Less': -1, 'Equal': 0, 'Greater': 1}[name], ())


def cmp_scalar_forks(ex, st, x, y, signed=False):
    """three-way comparison of two bit-vectors -> [(state, 'Less'|'Equal'|'Greater')]"""
    lt = (x < y) if signed else z3.ULT(x, y)
    outs = []
    for s1, t in ex.branch(st, lt):
        if t:
            outs.append((s1, 'Less'))
        else:
            for s2, e in ex.branch(s1, x == y):
                outs.append((s2, 'Equal' if e else 'Greater'))
    return outs


def cmp_str_forks(ex, st, xs, ys):
    """lexicographic comparison of two code-point sequences (= byte order of their UTF-8 encodings)"""
    outs = []
    work = [(st, 0)]
    while work:
        s, i = work.pop()
        if i == len(xs) or i == len(ys):
            outs.append((s, 'Equal' if len(xs) == len(ys) else ('Less' if len(xs) < len(ys) else 'Greater')))
            continue
        for s2, c in cmp_scalar_forks(ex, s, xs[i], ys[i]):
            if c == 'Equal':
                work.append((s2, i + 1))
            else:
                outs.append((s2, c))
    return outs


def m_ord_cmp(ex, st, fr, callee, a, depth):
    """<T as Ord>::cmp for integers, char, str/String (lexicographic by code point)"""
    x, y = deref(st, a[0]), deref(st, a[1])
    if isinstance(x, SymStr) and isinstance(y, SymStr):
        return [(s, ordering(c)) for s, c in cmp_str_forks(ex, st, list(x.items), list(y.items))]
    if is_z3(x) and is_z3(y) and not z3.is_bool(x):
        m = re.match(r'^<(\w+) as (?:Partial)?Ord>', callee)
        signed = bool(m) and m.group(1).startswith('i')
        return [(s, ordering(c)) for s, c in cmp_scalar_forks(ex, st, x, y, signed)]
    raise Inconclusive('Ord::cmp on %r, %r' % (x, y))


def _stable_sort(ex, st, items, cmp):
    """insertion sort (stable); cmp(state, a, b) -> [(state, ordering name)]; -> [(state, sorted items)]"""
    cur = [(st, [])]
    for x in items:
        nxt = []
        for s, acc in cur:
            # find the insertion point from the right: skip elements that are Greater than x
            work = [(s, len(acc))]
            while work:
                s1, j = work.pop()
                if j == 0:
                    nxt.append((s1, [x] + acc))
                    continue
                for s2, c in cmp(s1, acc[j - 1], x):
                    if c == 'Greater':
                        work.append((s2, j - 1))
                    else:
                        nxt.append((s2, acc[:j] + [x] + acc[j:]))
        cur = nxt
    return cur


def m_slice_sort(ex, st, fr, callee, a, depth):
    """<[T]>::sort: the stable sorted permutation under Ord (strings: lexicographic by code point)"""
    r = _list_ref(st, a[0])
    items = list(st.load(r).items)

    def cmp(s, x, y):
        x, y = deref(s, x), deref(s, y)
        if isinstance(x, SymStr):
            return cmp_str_forks(ex, s, list(x.items), list(y.items))
        if is_z3(x):
            return cmp_scalar_forks(ex, s, x, y)
        raise Inconclusive('sort of %r' % (x,))
    outs = []
    for s, xs in _stable_sort(ex, st, items, cmp):
        s.store(r, ListV(xs))
        outs.append((s, UNIT))
    return outs


def m_slice_sort_by(ex, st, fr, callee, a, depth):
    """<[T]>::sort_by: the stable sorted permutation under the comparator closure (run from its MIR)"""
    r = _list_ref(st, a[0])
    items = list(st.load(r).items)

    def cmp(s, x, y):
        res = []
        for o in ex.call_value(s, a[1], [s.ref(x), s.ref(y)], depth):
            if o.panic or not (isinstance(o.val, EnumV) and o.val.enum == 'Ordering'):
                raise Inconclusive('sort_by comparator returned %r' % (o.val,))
            res.append((o.st, o.val.variant))
        return res
    outs = []
    for s, xs in _stable_sort(ex, st, items, cmp):
        s.store(r, ListV(xs))
        outs.append((s, UNIT))
    return outs


def m_vec_dedup(ex, st, fr, callee, a, depth):
    """Vec::dedup: consecutive equal elements are removed (first one kept)"""
    r = _list_ref(st, a[0])
    items = list(st.load(r).items)
    cur = [(st, [])]
    for x in items:
        nxt = []
        for s, acc in cur:
            if not acc:
                nxt.append((s, [x]))
                continue
            p, q = deref(s, acc[-1]), deref(s, x)
            if isinstance(p, SymStr):
                eq = z3.BoolVal(False) if len(p.items) != len(q.items) else (
                    z3.And(*[u == v for u, v in zip(p.items, q.items)]) if p.items else z3.BoolVal(True))
            elif is_z3(p):
                eq = p == q
            else:
                raise Inconclusive('dedup of %r' % (p,))
            for s2, t in ex.branch(s, eq):
                nxt.append((s2, acc if t else acc + [x]))
        cur = nxt
    outs = []
    for s, xs in cur:
        s.store(r, ListV(xs))
        outs.append((s, UNIT))
    return outs


def m_str_repeat(ex, st, fr, callee, a, depth):
    s = as_str(st, a[0])
    n = concrete(a[1])
    if n is None:
        raise Inconclusive('str::repeat with a symbolic count')
    if n > 10000:
        return Outcome(st, None, panic='capacity overflow')
    return SymStr(list(s.items) * n)


def m_str_lines(ex, st, fr, callee, a, depth):
    """str::lines: split at \\n (a preceding \\r is dropped); a trailing empty piece is not yielded"""
    s = list(as_str(st, a[0]).items)
    outs = []
    work = [(st, 0, [], [])]     # state, position, finished lines, current line
    while work:
        s1, i, lines, cur = work.pop()
        if i == len(s):
            if cur:
                lines = lines + [cur]
            outs.append((s1, IterV('list', items=tuple(s1.ref(SymStr(l)) for l in lines))))
            continue
        for s2, nl in ex.branch(s1, s[i] == BV(10, 32)):
            if not nl:
                work.append((s2, i + 1, lines, cur + [s[i]]))
                continue
            if cur:
                for s3, cr in ex.branch(s2, cur[-1] == BV(13, 32)):
                    work.append((s3, i + 1, lines + [cur[:-1] if cr else cur], []))
            else:
                work.append((s2, i + 1, lines + [cur], []))
    return outs


def m_vec_push(ex, st, fr, callee, a, depth):
    r = _list_ref(st, a[0])
    st.store(r, ListV(st.load(r).items + (a[1],)))
    return UNIT


def m_vec_from_list(ex, st, fr, callee, a, depth):
    v = deref(st, a[0])
    if isinstance(v, ListV):
        return v
    raise Inconclusive('Vec from %r' % (v,))


# --------------------------------------------------------------------------- char / str / String
def m_is_ascii(ex, st, fr, callee, a, depth):
    return z3.ULT(deref(st, a[0]), BV(0x80, 32))


def m_range_contains(ex, st, fr, callee, a, depth):
    r, c = deref(st, a[0]), deref(st, a[1])
    return z3.And(z3.ULE(r.get('start'), c), z3.ULT(c, r.get('end')))


def m_range_inclusive_new(ex, st, fr, callee, a, depth):
    return TupV((a[0], a[1]), ('start', 'end'), 'RangeInclusive')


def m_range_inclusive_contains(ex, st, fr, callee, a, depth):
    r, c = deref(st, a[0]), deref(st, a[1])
    if r.tag != 'RangeInclusive':
        raise Inconclusive('RangeInclusive::contains on %r' % (r,))
    return z3.And(z3.ULE(r.get('start'), c), z3.ULE(c, r.get('end')))


def m_char_to_string(ex, st, fr, callee, a, depth):
    return SymStr([deref(st, a[0])])


def m_str_to_string(ex, st, fr, callee, a, depth):
    return as_str(st, a[0])


def m_identity_ref(ex, st, fr, callee, a, depth):
    return a[0]


def m_string_deref(ex, st, fr, callee, a, depth):
    r = a[0]
    while isinstance(st.load(r), RefV):
        r = st.load(r)
    return r


def m_clone(ex, st, fr, callee, a, depth):
    return deref(st, a[0]) if not isinstance(st.load(a[0]), RefV) else st.load(a[0])


def m_str_chars(ex, st, fr, callee, a, depth):
    return IterV('chars', items=as_str(st, a[0]).items)


def m_str_len_chars_count(ex, st, fr, callee, a, depth):
    return BV(len(as_str(st, a[0]).items), 64)


def m_str_contains_char(ex, st, fr, callee, a, depth):
    if isinstance(a[1], (ClosV, FnItem)):
        return _closure_pattern(ex, st, a, depth, 'any')
    s = as_str(st, a[0])
    p = deref(st, a[1])
    if isinstance(p, SymStr):
        k = len(p.items)
        if k == 0:
            return z3.BoolVal(True)
        n = len(s.items)
        return z3.Or(*[z3.And(*[s.items[i + j] == p.items[j] for j in range(k)]) for i in range(n - k + 1)]) if n >= k else z3.BoolVal(False)
    return z3.Or(*[x == p for x in s.items]) if s.items else z3.BoolVal(False)


def m_str_matches(ex, st, fr, callee, a, depth):
    s = as_str(st, a[0])
    pat = deref(st, a[1])
    if not is_z3(pat):
        raise Inconclusive('str::matches with a non-char pattern')
    return IterV('matches', items=tuple(z3.If(x == pat, BV(1, 64), BV(0, 64)) for x in s.items))


def m_matches_count(ex, st, fr, callee, a, depth):
    it = deref(st, a[0])
    t = BV(0, 64)
    for x in it.items:
        t = t + x
    return z3.simplify(t)


def m_str_eq(ex, st, fr, callee, a, depth):
    x, y = as_str(st, a[0]), as_str(st, a[1])
    if len(x.items) != len(y.items):
        return z3.BoolVal(False)
    return z3.And(*[p == q for p, q in zip(x.items, y.items)]) if x.items else z3.BoolVal(True)


def m_str_ne(ex, st, fr, callee, a, depth):
    return z3.Not(m_str_eq(ex, st, fr, callee, a, depth))


def m_str_replace(ex, st, fr, callee, a, depth):
    """str::replace(pattern, to) for a one-code-point pattern (char or 1-char str): every occurrence is
    replaced, left to right; forks on each comparison that the path condition does not decide."""
    s = as_str(st, a[0])
    pat = deref(st, a[1])
    to = as_str(st, a[2])
    if isinstance(pat, SymStr):
        if len(pat.items) != 1:
            raise Inconclusive('str::replace with a pattern of %d code points' % len(pat.items))
        pat = pat.items[0]
    if isinstance(pat, ListV):
        # [char; N] / &[char] pattern: any of the characters
        hit = lambda x: z3.Or(*[x == p for p in pat.items]) if pat.items else z3.BoolVal(False)
    elif isinstance(pat, (ClosV, FnItem)):
        raise Inconclusive('str::replace with a closure pattern')
    else:
        hit = lambda x: x == pat
    cur = [(st, [])]
    for x in s.items:
        nxt = []
        for s1, acc in cur:
            for s2, truth in ex.branch(s1, hit(x)):
                nxt.append((s2, acc + (list(to.items) if truth else [x])))
        cur = nxt
    return [(s1, SymStr(acc)) for s1, acc in cur]


def utf8_len(c):
    return z3.If(z3.ULT(c, BV(0x80, 32)), BV(1, 64), z3.If(z3.ULT(c, BV(0x800, 32)), BV(2, 64),
                 z3.If(z3.ULT(c, BV(0x10000, 32)), BV(3, 64), BV(4, 64))))


def m_str_len(ex, st, fr, callee, a, depth):
    """str::len / String::len: UTF-8 byte length = sum over code points of 1/2/3/4"""
    s = as_str(st, a[0])
    t = BV(0, 64)
    for c in s.items:
        t = t + utf8_len(c)
    return z3.simplify(t)


def m_char_len_utf8(ex, st, fr, callee, a, depth):
    return utf8_len(deref(st, a[0]))


def m_char_len_utf16(ex, st, fr, callee, a, depth):
    return z3.If(z3.ULT(deref(st, a[0]), BV(0x10000, 32)), BV(1, 64), BV(2, 64))


def _pattern_items(st, p):
    p = deref(st, p)
    if isinstance(p, SymStr):
        return list(p.items)
    if is_z3(p):
        return [p]
    raise Inconclusive('string pattern %r' % (p,))


def _closure_pattern(ex, st, a, depth, which):
    """starts_with / ends_with / contains with a `|c: char| -> bool` pattern"""
    s = as_str(st, a[0]).items
    if not s:
        return z3.BoolVal(False)
    idx = {'first': [0], 'last': [len(s) - 1], 'any': list(range(len(s)))}[which]
    outs = []
    for s1, vals in call_seq(ex, st, a[1], [s[i] for i in idx], depth):
        outs.append((s1, z3.Or(*vals) if len(vals) > 1 else vals[0]))
    return outs


def m_str_starts_with(ex, st, fr, callee, a, depth):
    if isinstance(a[1], (ClosV, FnItem)):
        return _closure_pattern(ex, st, a, depth, 'first')
    s = as_str(st, a[0]).items
    p = _pattern_items(st, a[1])
    if len(p) > len(s):
        return z3.BoolVal(False)
    return z3.And(*[x == y for x, y in zip(s, p)]) if p else z3.BoolVal(True)


def m_str_ends_with(ex, st, fr, callee, a, depth):
    if isinstance(a[1], (ClosV, FnItem)):
        return _closure_pattern(ex, st, a, depth, 'last')
    s = as_str(st, a[0]).items
    p = _pattern_items(st, a[1])
    if len(p) > len(s):
        return z3.BoolVal(False)
    return z3.And(*[x == y for x, y in zip(s[len(s) - len(p):], p)]) if p else z3.BoolVal(True)


def m_str_trim_end_matches(ex, st, fr, callee, a, depth):
    s = list(as_str(st, a[0]).items)
    p = _pattern_items(st, a[1])
    if len(p) != 1:
        raise Inconclusive('trim_end_matches with a multi-char pattern')
    outs = []
    work = [(st, len(s))]
    while work:
        s1, n = work.pop()
        if n == 0:
            outs.append((s1, s1.ref(SymStr(()))))
            continue
        for s2, t in ex.branch(s1, s[n - 1] == p[0]):
            if t:
                work.append((s2, n - 1))
            else:
                outs.append((s2, s2.ref(SymStr(s[:n]))))
    return outs


def m_string_push(ex, st, fr, callee, a, depth):
    r = a[0]
    while isinstance(st.load(r), RefV):
        r = st.load(r)
    st.store(r, SymStr(st.load(r).items + (deref(st, a[1]),)))
    return UNIT


def m_char_is_ascii_class(ex, st, fr, callee, a, depth):
    c = deref(st, a[0])
    name = callee.rsplit('::', 1)[-1]
    def rng(lo, hi):
        return z3.And(z3.UGE(c, BV(ord(lo), 32)), z3.ULE(c, BV(ord(hi), 32)))
    return {'is_ascii_digit': rng('0', '9'), 'is_ascii_lowercase': rng('a', 'z'), 'is_ascii_uppercase': rng('A', 'Z'),
            'is_ascii_alphabetic': z3.Or(rng('a', 'z'), rng('A', 'Z')),
            'is_ascii_alphanumeric': z3.Or(rng('a', 'z'), rng('A', 'Z'), rng('0', '9'))}[name]


def m_string_new(ex, st, fr, callee, a, depth):
    return SymStr(())


def m_push_str(ex, st, fr, callee, a, depth):
    cur = as_str(st, a[0])
    r = a[0]
    while isinstance(st.load(r), RefV):
        r = st.load(r)
    st.store(r, SymStr(cur.items + as_str(st, a[1]).items))
    return UNIT


def m_escape_unicode(ex, st, fr, callee, a, depth):
    return Opaque('EscapeUnicode', deref(st, a[0]))


def m_eu_to_string(ex, st, fr, callee, a, depth):
    eu = deref(st, a[0])
    c = eu.p[0]
    outs = []
    for s, digs in fork_cases(ex, st, hex_cases(z3.Extract(23, 0, c), 6)):
        outs.append((s, SymStr(list(lit('\\u{').items) + digs + list(lit('}').items))))
    return outs


def m_encode_utf16(ex, st, fr, callee, a, depth):
    c = deref(st, a[0])
    v = c - BV(0x10000, 32)
    hi = z3.Extract(15, 0, BV(0xD800, 32) + z3.LShR(v, 10))
    lo = z3.Extract(15, 0, BV(0xDC00, 32) + (v & BV(0x3FF, 32)))
    outs = []
    for s, truth in ex.branch(st, z3.ULT(c, BV(0x10000, 32))):
        val = ListV([z3.Extract(15, 0, c)]) if truth else ListV([hi, lo])
        outs.append((s, s.ref(val)))
    return outs


# --------------------------------------------------------------------------- Vec / slices / Box
def m_len(ex, st, fr, callee, a, depth):
    v = deref(st, a[0])
    if isinstance(v, ListV):
        return BV(len(v.items), 64)
    if isinstance(v, SymStr):
        raise Inconclusive('byte length of a string')
    raise Inconclusive('len of %r' % (v,))


def m_is_empty(ex, st, fr, callee, a, depth):
    v = deref(st, a[0])
    if isinstance(v, ListV):
        return z3.BoolVal(len(v.items) == 0)
    if isinstance(v, SymStr):
        return z3.BoolVal(len(v.items) == 0)
    raise Inconclusive('is_empty of %r' % (v,))


def _elem_ref(st, base, idx):
    r = base
    while isinstance(st.load(r), RefV):
        r = st.load(r)
    v = st.load(r)
    i = concrete(idx)
    if i is None:
        raise Inconclusive('symbolic index')
    if not isinstance(v, ListV):
        raise Inconclusive('index into %r' % (v,))
    if i >= len(v.items):
        return None
    return RefV(r.addr, r.path + (i,))


def m_index(ex, st, fr, callee, a, depth):
    r = _elem_ref(st, a[0], a[1])
    if r is None:
        return Outcome(st, None, panic='index out of bounds')
    return r


def m_vec_new(ex, st, fr, callee, a, depth):
    return ListV(())


def m_vec_deref(ex, st, fr, callee, a, depth):
    return m_string_deref(ex, st, fr, callee, a, depth)


def m_slice_contains(ex, st, fr, callee, a, depth):
    v = deref(st, a[0])
    x = deref(st, a[1])
    if not isinstance(v, ListV):
        raise Inconclusive('slice::contains on %r' % (v,))
    if isinstance(x, SymStr):
        eqs = []
        for it in v.items:
            y = as_str(st, it)
            if len(y.items) == len(x.items):
                eqs.append(z3.And(*[p == q for p, q in zip(x.items, y.items)]) if x.items else z3.BoolVal(True))
        return z3.Or(*eqs) if eqs else z3.BoolVal(False)
    raise Inconclusive('slice::contains element %r' % (x,))


def m_box_new_uninit(ex, st, fr, callee, a, depth):
    # Box<[T; N]>::new_uninit()  (the lowering of `vec![..]`): a fresh cell that the caller fills through
    # ((*box).1.value.value) = [..]; represented as nested one-field tuples around the payload
    cell = st.alloc(TupV((None, TupV((TupV((None,)),)))))
    return TupV((TupV((RefV(cell),)),))


def m_box_into_vec(ex, st, fr, callee, a, depth):
    b = a[0]
    cell = b.fields[0].fields[0]
    v = st.load(cell)
    payload = v.fields[1].fields[0].fields[0]
    if not isinstance(payload, ListV):
        raise Inconclusive('vec! payload %r' % (payload,))
    return payload


# --------------------------------------------------------------------------- unic / lazy_static
def m_cr_closed(ex, st, fr, callee, a, depth):
    return TupV((a[0], a[1]), ('low', 'high'), 'CharRange')


def m_cr_contains(ex, st, fr, callee, a, depth):
    r = deref(st, a[0])
    c = deref(st, a[1])
    return z3.And(z3.ULE(r.get('low'), c), z3.ULE(c, r.get('high')))


def m_lazy_get(ex, st, fr, callee, a, depth):
    outs = ex.call_value(st, a[1], [], depth)
    res = []
    for o in outs:
        if o.panic:
            raise Inconclusive('lazy initialiser panicked')
        res.append((o.st, o.st.ref(o.val)))
    return res


# --------------------------------------------------------------------------- fmt
class FmtArg:
    __slots__ = ('kind', 'ty', 'val')

    def __init__(self, kind, ty, val):
        self.kind, self.ty, self.val = kind, ty, val


def m_fmt_arg(ex, st, fr, callee, a, depth):
    m = re.search(r'new_(\w+)::<(.*)>$', callee, re.S)
    return FmtArg(m.group(1), m.group(2).strip(), a[0])


def m_args_new(ex, st, fr, callee, a, depth):
    tmpl = deref(st, a[0])
    if not (isinstance(tmpl, Opaque) and tmpl.tag == 'bytes'):
        raise Inconclusive('format template %r' % (tmpl,))
    args = deref(st, a[1])
    return Opaque('fmtargs', tmpl.p[0], args.items if isinstance(args, ListV) else ())


def m_args_from_str(ex, st, fr, callee, a, depth):
    return Opaque('fmtstr', as_str(st, a[0]))


def render_display(ex, st, ty, v, depth):
    """Display rendering of value v of (printed) type ty -> [(state, [code point terms])]"""
    t = ty.strip()
    x = v
    while t.startswith('&'):
        t = t[1:].strip()
        if t.startswith('mut '):
            t = t[4:]
        if t.startswith("'"):
            t = t.split(' ', 1)[1] if ' ' in t else t
        x = st.load(x) if isinstance(x, RefV) else x
    if isinstance(x, RefV):
        x = deref(st, x)
    ts = strip_generics(t).split('::')[-1]
    if isinstance(x, SymStr) and ts in ('str', 'String'):
        return [(st, list(x.items))]
    if ts == 'char' and is_z3(x):
        return [(st, [x])]
    if ts in ('u8', 'u16', 'u32', 'u64', 'usize') and is_z3(x):
        return fork_cases(ex, st, dec_cases(x))
    # a grex type with its own Display impl: run its fmt body on a scratch formatter
    name = ex.resolve_fn('<%s as Display>::fmt' % ts, '')
    if name:
        buf = st.ref(SymStr(()))
        cell = st.ref(x)
        outs = ex.run_fn(st, name, [cell, buf], depth + 1)
        res = []
        for o in outs:
            if o.panic:
                raise Inconclusive('panic inside Display::fmt of ' + ts)
            res.append((o.st, list(o.st.load(buf).items)))
        return res
    raise Inconclusive('Display of %s (%r)' % (ty, x))


def render(ex, st, fa, depth):
    """fmt::Arguments -> [(state, [code points])]"""
    if fa.tag == 'fmtstr':
        return [(st, list(fa.p[0].items))]
    tmpl, args = fa.p
    cur = [(st, [])]
    i, k = 0, 0
    while i < len(tmpl):
        b = tmpl[i]
        if b == 0:
            break
        if b < 0x80:
            piece = tmpl[i + 1:i + 1 + b].decode('utf-8')
            # a literal run may be split inside a multi-byte sequence only at its end; rustc does not do that
            cur = [(s, acc + list(lit(piece).items)) for s, acc in cur]
            i += 1 + b
        elif b == 0xC0:
            if k >= len(args):
                raise Inconclusive('format placeholder without argument')
            arg = args[k]
            k += 1
            i += 1
            nxt = []
            for s, acc in cur:
                if arg.kind == 'display':
                    for s2, cps in render_display(ex, s, arg.ty, arg.val, depth):
                        nxt.append((s2, acc + cps))
                elif arg.kind == 'lower_hex':
                    v = deref(s, arg.val)
                    for s2, digs in fork_cases(ex, s, hex_cases(v)):
                        nxt.append((s2, acc + digs))
                else:
                    raise Inconclusive('format argument kind ' + arg.kind)
            cur = nxt
        else:
            raise Inconclusive('format template byte %#x (non-default placeholder options)' % b)
    return cur


def m_format(ex, st, fr, callee, a, depth):
    return [(s, SymStr(cps)) for s, cps in render(ex, st, a[0], depth)]


def m_write_fmt(ex, st, fr, callee, a, depth):
    outs = []
    for s, cps in render(ex, st, a[1], depth):
        buf = a[0]
        while isinstance(s.load(buf), RefV):
            buf = s.load(buf)
        s.store(buf, SymStr(s.load(buf).items + tuple(cps)))
        outs.append((s, ok()))
    return outs


def m_write_str(ex, st, fr, callee, a, depth):
    buf = a[0]
    while isinstance(st.load(buf), RefV):
        buf = st.load(buf)
    st.store(buf, SymStr(st.load(buf).items + as_str(st, a[1]).items))
    return ok()


def m_display_to_string(ex, st, fr, callee, a, depth):
    m = re.match(r'^<(.*) as ToString>::to_string$', callee)
    ty = m.group(1)
    return [(s, SymStr(cps)) for s, cps in render_display(ex, st, '&' + ty, a[0], depth)]


def m_must_use(ex, st, fr, callee, a, depth):
    return a[0]


def m_panic_display(ex, st, fr, callee, a, depth):
    msg = None
    try:
        v = deref(st, a[0])
        if isinstance(v, SymStr):
            cs = [concrete(x) for x in v.items]
            if all(c is not None for c in cs):
                msg = ''.join(chr(c) for c in cs)
    except Inconclusive:
        pass
    return Outcome(st, None, panic=msg or 'panic')


def m_panic_fmt(ex, st, fr, callee, a, depth):
    msg = 'panic'
    try:
        outs = render(ex, st, a[0], depth)
        if len(outs) == 1:
            cs = [concrete(x) for x in outs[0][1]]
            if all(c is not None for c in cs):
                msg = ''.join(chr(c) for c in cs)
    except Inconclusive:
        pass
    return Outcome(st, None, panic=msg)


def m_try_branch(ex, st, fr, callee, a, depth):
    v = a[0]
    if isinstance(v, EnumV) and v.enum == 'Result':
        if v.variant == 'Ok':
            return EnumV('ControlFlow', 'Continue', 0, (v.fields[0],))
        return EnumV('ControlFlow', 'Break', 1, (EnumV('Result', 'Err', 1, (v.fields[0],)),))
    if isinstance(v, EnumV) and v.enum == 'Option':
        if v.variant == 'Some':
            return EnumV('ControlFlow', 'Continue', 0, (v.fields[0],))
        return EnumV('ControlFlow', 'Break', 1, (EnumV('Option', 'None', 0, ()),))
    raise Inconclusive('Try::branch on %r' % (v,))


def m_from_residual(ex, st, fr, callee, a, depth):
    return a[0]


def P(pat):
    return re.compile(pat, re.S)


BASE_MODELS = [
    (P(r'impl char>::is_ascii$'), m_is_ascii),
    (P(r'Range::<char>::contains::<char>$'), m_range_contains),
    (P(r'RangeInclusive::<char>::new$'), m_range_inclusive_new),
    (P(r'RangeInclusive::<char>::contains::<char>$'), m_range_inclusive_contains),
    (P(r'^<char as ToString>::to_string$'), m_char_to_string),
    (P(r'^<&*(str|String) as ToString>::to_string$'), m_str_to_string),
    (P(r'^<(String|Vec<.*>) as Deref>::deref$'), m_string_deref),
    (P(r'^<(String|Vec<.*>) as DerefMut>::deref_mut$'), m_string_deref),
    (P(r'^String::as_str$'), m_string_deref),
    (P(r'^Vec::<.*>::as_mut$|^<Vec<.*> as AsMut<.*>>::as_mut$'), m_string_deref),
    (P(r'^<String as Clone>::clone$'), m_str_to_string),
    (P(r'^<&str as Into<String>>::into$|^<str as ToOwned>::to_owned$|^<String as From<&str>>::from$'), m_str_to_string),
    (P(r'^core::str::<impl str>::chars$'), m_str_chars),
    (P(r'^core::str::<impl str>::contains::<'), m_str_contains_char),
    (P(r'^str::<impl str>::replace::<'), m_str_replace),
    (P(r'^core::str::<impl str>::matches::<char>$'), m_str_matches),
    (P(r'^<&*(String|str) as PartialEq(<&*(String|str)>)?>::eq$'), m_str_eq),
    (P(r'^<&*(String|str) as PartialEq(<&*(String|str)>)?>::ne$'), m_str_ne),
    (P(r'^String::new$'), m_string_new),
    (P(r'^String::push_str$'), m_push_str),
    (P(r'impl char>::escape_unicode$'), m_escape_unicode),
    (P(r'^<std::char::EscapeUnicode as ToString>::to_string$'), m_eu_to_string),
    (P(r'impl char>::encode_utf16$'), m_encode_utf16),
    (P(r'^core::slice::<impl \[.*\]>::iter$'), m_slice_iter),
    (P(r'^core::slice::<impl \[.*\]>::contains$'), m_slice_contains),
    (P(r'^core::slice::<impl \[.*\]>::len$|^Vec::<.*>::len$'), m_len),
    (P(r'^Vec::<.*>::is_empty$|^core::slice::<impl \[.*\]>::is_empty$|^String::is_empty$|^core::str::<impl str>::is_empty$'), m_is_empty),
    (P(r'^Vec::<.*>::new$'), m_vec_new),
    (P(r'^<Vec<.*> as Index<usize>>::index$|^<Vec<.*> as std::ops::Index<usize>>::index$|^<Vec<.*> as IndexMut<usize>>::index_mut$'), m_index),
    (P(r'^(std::)?slice::<impl \[String\]>::join::<&str>$'), m_vec_join),
    (P(r' as IntoIterator>::into_iter$'), m_into_iter),
    (P(r'^core::slice::<impl \[.*\]>::iter_mut$'), m_slice_iter),
    (P(r' as Iterator>::next$'), m_iter_next),
    (P(r' as Iterator>::map::<'), adaptor('map')),
    (P(r' as Iterator>::filter::<'), adaptor('filter')),
    (P(r' as Iterator>::filter_map::<'), adaptor('filter_map')),
    (P(r' as Iterator>::flat_map::<'), adaptor('flat_map')),
    (P(r' as Iterator>::enumerate$'), adaptor('enumerate', with_clos=False)),
    (P(r' as Iterator>::rev$'), adaptor('rev', with_clos=False)),
    (P(r' as Iterator>::cloned::<|as Iterator>::cloned$'), adaptor('cloned', with_clos=False)),
    (P(r' as Iterator>::copied::<|as Iterator>::copied$'), adaptor('copied', with_clos=False)),
    (P(r' as Iterator>::zip::<'), adaptor('zip')),
    (P(r' as Iterator>::chain::<'), adaptor('chain')),
    (P(r' as Iterator>::take$'), adaptor('take', by_count=True)),
    (P(r' as Iterator>::skip$'), adaptor('skip', by_count=True)),
    (P(r' as Itertools>::collect_vec$'), m_collect_vec),
    (P(r' as Itertools>::unique_by::<| as Itertools>::unique$'), m_unique_by),
    (P(r'^std::mem::take::<|^core::mem::take::<'), m_mem_take),
    (P(r' as Iterator>::collect::<'), m_collect),
    (P(r' as Itertools>::join$'), m_join),
    (P(r' as Iterator>::any::<'), m_any),
    (P(r' as Iterator>::all::<'), m_all),
    (P(r' as Iterator>::find::<| as Iterator>::position::<'), m_find),
    (P(r' as Iterator>::for_each::<'), m_for_each),
    (P(r"^<std::str::Matches<'_, char> as Iterator>::count$"), m_matches_count),
    (P(r' as Iterator>::count$'), m_count),
    (P(r' as Iterator>::last$'), m_last),
    (P(r' as Iterator>::sum::<usize>$'), m_sum),
    (P(r'^Option::<.*>::map::<|^Result::<.*>::map::<'), m_opt_map),
    (P(r'^Option::<.*>::and_then::<'), m_opt_and_then),
    (P(r'^Option::<.*>::unwrap_or_else::<|^Option::<.*>::map_or_else::<|^Result::<.*>::unwrap_or_else::<'), m_opt_unwrap_or_else),
    (P(r'^Option::<.*>::unwrap_or$|^Result::<.*>::unwrap_or$'), m_opt_unwrap_or),
    (P(r'^Option::<.*>::(unwrap|expect)$|^Result::<.*>::(unwrap|expect)$'), m_opt_unwrap),
    (P(r'^Option::<.*>::(is_some|is_none)$|^Result::<.*>::(is_ok|is_err)$'), m_opt_is),
    (P(r'^Option::<&.*>::(cloned|copied)$'), m_opt_cloned),
    (P(r'^Option::<.*>::as_ref$'), m_opt_as_ref),
    (P(r'^Option::<.*>::filter::<'), m_opt_filter),
    (P(r'^Result::<.*>::ok$'), m_result_ok),
    (P(r'^core::slice::<impl \[.*\]>::(first|last|first_mut|last_mut)$'), m_slice_first_last),
    (P(r'^core::slice::<impl \[.*\]>::get::<usize>$'), m_slice_get),
    (P(r'^core::slice::<impl \[.*\]>::binary_search_by::<'), m_binary_search_by),
    (P(r'^Vec::<.*>::push$'), m_vec_push),
    (P(r'^<(usize|u8|u16|u32|u64|i32|i64|isize|char|String|str|&str) as (Partial)?Ord>::cmp$'), m_ord_cmp),
    (P(r'^(std::)?slice::<impl \[.*\]>::sort$|^core::slice::<impl \[.*\]>::sort_unstable$'), m_slice_sort),
    (P(r'^(std::)?slice::<impl \[.*\]>::sort_by::<|^core::slice::<impl \[.*\]>::sort_unstable_by::<'), m_slice_sort_by),
    (P(r'^Vec::<.*>::dedup$'), m_vec_dedup),
    (P(r'^(std::)?str::<impl str>::repeat$'), m_str_repeat),
    (P(r'^core::str::<impl str>::lines$'), m_str_lines),
    (P(r'^(std::)?slice::<impl \[.*\]>::to_vec$|^<\[.*\] as ToOwned>::to_owned$|^<Vec<.*> as From<.*>>::from$'), m_vec_from_list),
    (P(r'^(std::)?slice::<impl \[String\]>::concat::<'), m_vec_concat),
    (P(r'^core::str::<impl str>::len$|^String::len$'), m_str_len),
    (P(r'impl char>::len_utf8$'), m_char_len_utf8),
    (P(r'impl char>::len_utf16$'), m_char_len_utf16),
    (P(r'^core::str::<impl str>::starts_with::<'), m_str_starts_with),
    (P(r'^core::str::<impl str>::ends_with::<'), m_str_ends_with),
    (P(r'^core::str::<impl str>::trim_end_matches::<'), m_str_trim_end_matches),
    (P(r'^String::push$'), m_string_push),
    (P(r'impl char>::is_ascii_(digit|lowercase|uppercase|alphabetic|alphanumeric)$'), m_char_is_ascii_class),
    (P(r'^CharRange::closed$'), m_cr_closed),
    (P(r'^CharRange::contains$'), m_cr_contains),
    (P(r'^lazy_static::lazy::Lazy::<.*>::get::<'), m_lazy_get),
    (P(r"^core::fmt::rt::Argument::<'_>::new_\w+::<"), m_fmt_arg),
    (P(r"^Arguments::<'_>::new::<"), m_args_new),
    (P(r"^Arguments::<'_>::from_str$"), m_args_from_str),
    (P(r'^std::fmt::format$'), m_format),
    (P(r"^Formatter::<'_>::write_fmt$"), m_write_fmt),
    (P(r"^Formatter::<'_>::write_str$"), m_write_str),
    (P(r'^must_use::<'), m_must_use),
    (P(r'panic_display::<'), m_panic_display),
    (P(r'panic_fmt$|panicking::panic_fmt'), m_panic_fmt),
    (P(r' as Try>::branch$'), m_try_branch),
    (P(r' as FromResidual<.*>>::from_residual$'), m_from_residual),
    (P(r'^Box::<\[.*; \d+\]>::new_uninit$'), m_box_new_uninit),
    (P(r'box_assume_init_into_vec_unsafe'), m_box_into_vec),
    # Display of grex types via ToString: keep last so that the str/String/char cases win
    (P(r"^<[\w:<>' ]+ as ToString>::to_string$"), m_display_to_string),
]

MODEL_DOC.update({
    'char::is_ascii': 'c < 0x80',
    'Range<char>::contains': 'start <= c < end (half-open); RangeInclusive: start <= c <= end',
    'ToString for char/str/String, String::clone, Deref': 'identity on the code-point sequence',
    'str::chars / count / contains(char)': 'the code-point sequence, its (concrete) length, disjunction of equalities',
    'str::replace(1-code-point pattern, to)': 'every occurrence replaced left to right; path fork per undecided comparison',
    'String == &str': 'equal length and element-wise equality',
    'char::escape_unicode().to_string()': r'"\u{" + lower-hex(c) without leading zeros + "}" (fork per digit count)',
    'char::encode_utf16': '1 unit below U+10000, else 0xD800+((c-0x10000)>>10), 0xDC00+((c-0x10000)&0x3FF)',
    'slice::iter / Iterator::map/any/count/sum / Itertools::collect_vec/join': 'on sequences of concrete length; closures run from their MIR per element',
    'fmt::format / Formatter::write_fmt': 'template bytes decoded from MIR: literal runs, default {} (Display of str/String/char/unsigned/grex Display impls run from MIR) and {:x}; any other placeholder option is INCONCLUSIVE',
    'CharRange::closed/contains': 'low <= c <= high',
    'lazy_static Lazy::get(f)': 'f()',
    'Box::new_uninit + box_assume_init_into_vec_unsafe': 'the lowering of vec![..]: the written array becomes the Vec',
})


def model_name(ex, pattern):
    for pat, fn in ex.models:
        if pat.pattern == pattern:
            d = (fn.__doc__ or '').strip().split('\n')[0]
            return fn.__name__[2:] + (' -- ' + d if d else '')
    return pattern
