"""Models of std / dependency functions called by the grex bodies that mirsym executes.

Each model is exact by the documented behaviour of the API it stands for, or is a named
stub (table stub / uninterpreted); `MODEL_DOC` gives the one-line statement that goes into
the evidence file.  Signature: model(ex, st, fr, callee, args, depth) -> value | [(state, value)] | Outcome.
"""
import re
import z3
from .sym import (SymStr, ListV, TupV, EnumV, RefV, ClosV, FnItem, IterV, Opaque, Outcome, Inconclusive, UNIT, NONE,
                  some, ok, err, lit, is_z3, concrete, BV, INT_W, strip_generics)

MODEL_DOC = {}


def deref(st, v):
    while isinstance(v, RefV):
        v = st.load(v)
    return v


def as_str(st, v):
    v = deref(st, v)
    if isinstance(v, SymStr):
        return v
    raise Inconclusive('expected a string, got %r' % (v,))


# --------------------------------------------------------------------------- number rendering
def nibble_char(n4):
    n = z3.ZeroExt(28, n4)
    return z3.If(z3.ULT(n, 10), n + 48, n + 87)


def hex_cases(v, maxd=None):
    """[(condition, [digit terms])] for lower-hex of bit-vector v without leading zeros"""
    w = v.size()
    maxd = maxd or (w + 3) // 4
    ve = z3.ZeroExt(4 * maxd - w, v) if 4 * maxd > w else v
    out = []
    for k in range(1, maxd + 1):
        conds = []
        if k < maxd:
            conds.append(z3.ULT(ve, BV(16 ** k, ve.size())))
        if k > 1:
            conds.append(z3.UGE(ve, BV(16 ** (k - 1), ve.size())))
        digs = [nibble_char(z3.Extract(4 * (k - 1 - i) + 3, 4 * (k - 1 - i), ve)) for i in range(k)]
        out.append((z3.And(*conds) if conds else z3.BoolVal(True), digs))
    return out


def dec_cases(v):
    """[(condition, [digit terms])] for the decimal rendering of unsigned bit-vector v"""
    w = v.size()
    maxd = len(str(2 ** w - 1))
    out = []
    for k in range(1, maxd + 1):
        conds = []
        if 10 ** k < 2 ** w:
            conds.append(z3.ULT(v, BV(10 ** k, w)))
        if k > 1:
            conds.append(z3.UGE(v, BV(10 ** (k - 1), w)))
        digs = []
        for i in range(k):
            d = z3.URem(z3.UDiv(v, BV(10 ** (k - 1 - i), w)), BV(10, w))
            d = z3.ZeroExt(32 - w, d) if w < 32 else z3.Extract(31, 0, d)
            digs.append(d + 48)
        out.append((z3.And(*conds) if conds else z3.BoolVal(True), digs))
    return out


def fork_cases(ex, st, cases):
    """[(cond, payload)] -> [(state, payload)] for the feasible cases"""
    c = concrete_case(cases)
    if c is not None:
        return [(st, c)]
    live = [(cond, p) for cond, p in cases if ex.feasible(st.pc, cond)]
    if len(live) == 1:
        st.pc.append(live[0][0])
        return [(st, live[0][1])]
    return [(st.fork(cond), p) for cond, p in live]


def concrete_case(cases):
    hit = None
    for cond, p in cases:
        s = z3.simplify(cond)
        if z3.is_true(s):
            if hit is not None:
                return None
            hit = p
        elif not z3.is_false(s):
            return None
    return hit


# --------------------------------------------------------------------------- iterators
def elems(ex, st, it, depth):
    """consume iterator value -> [(state, [items])]"""
    it = deref(st, it)
    if isinstance(it, IterV):
        if it.kind == 'chars':
            return [(st, list(it.items[it.pos:]))]
        if it.kind == 'list':
            if it.by_ref is not None:
                n = len(deref(st, it.by_ref).items)
                return [(st, [RefV(it.by_ref.addr, it.by_ref.path + (i,)) for i in range(it.pos, n)])]
            return [(st, list(it.items[it.pos:]))]
        if it.kind == 'map':
            outs = []
            for st1, xs in elems(ex, st, it.base, depth):
                cur = [(st1, [])]
                for x in xs:
                    nxt = []
                    for st2, acc in cur:
                        for o in ex.call_merged(st2, it.clos, [x], depth):
                            if o.panic:
                                raise Inconclusive('panic inside iterator closure')
                            nxt.append((o.st, acc + [o.val]))
                    cur = nxt
                outs += cur
            return outs
        if it.kind == 'range':
            lo, hi = concrete(it.items[0]), concrete(it.items[1])
            if lo is None or hi is None:
                raise Inconclusive('range with symbolic bounds')
            return [(st, [BV(i, 64) for i in range(lo, hi)])]
    if isinstance(it, ListV):
        return [(st, list(it.items))]
    raise Inconclusive('iterate %r' % (it,))


def m_slice_iter(ex, st, fr, callee, a, depth):
    r = a[0]
    while isinstance(r, RefV) and isinstance(st.load(r), RefV):
        r = st.load(r)
    v = st.load(r)
    if isinstance(v, ListV):
        return IterV('list', by_ref=r)
    raise Inconclusive('slice::iter on %r' % (v,))


def m_into_iter(ex, st, fr, callee, a, depth):
    v = a[0]
    if isinstance(v, TupV) and v.names == ('start', 'end'):
        return IterV('range', items=(v.get('start'), v.get('end')))
    if isinstance(v, RefV):
        t = st.load(v)
        if isinstance(t, ListV):
            return IterV('list', by_ref=v)
    if isinstance(v, ListV):
        return IterV('list', items=v.items)
    return v


def m_iter_next(ex, st, fr, callee, a, depth):
    r = a[0]
    it = st.load(r)
    if isinstance(it, TupV) and it.names == ('start', 'end'):
        it = IterV('range', items=(it.get('start'), it.get('end')))
    if not isinstance(it, IterV):
        raise Inconclusive('next on %r' % (it,))
    if it.kind == 'range':
        lo, hi = concrete(it.items[0]), concrete(it.items[1])
        if lo is None or hi is None:
            raise Inconclusive('Range::next with symbolic bounds')
        if lo < hi:
            st.store(r, IterV('range', items=(BV(lo + 1, 64), it.items[1])))
            return some(BV(lo, 64))
        return NONE
    if it.kind == 'list':
        if it.by_ref is not None:
            n = len(deref(st, it.by_ref).items)
            if it.pos < n:
                st.store(r, IterV('list', pos=it.pos + 1, by_ref=it.by_ref))
                return some(RefV(it.by_ref.addr, it.by_ref.path + (it.pos,)))
            return NONE
        if it.pos < len(it.items):
            st.store(r, IterV('list', items=it.items, pos=it.pos + 1))
            return some(it.items[it.pos])
        return NONE
    if it.kind == 'chars':
        if it.pos < len(it.items):
            st.store(r, IterV('chars', items=it.items, pos=it.pos + 1))
            return some(it.items[it.pos])
        return NONE
    raise Inconclusive('next on iterator kind ' + it.kind)


def m_map(ex, st, fr, callee, a, depth):
    return IterV('map', base=a[0], clos=a[1])


def m_collect_vec(ex, st, fr, callee, a, depth):
    return [(s, ListV(xs)) for s, xs in elems(ex, st, a[0], depth)]


def m_join(ex, st, fr, callee, a, depth):
    sep = as_str(st, a[1])
    outs = []
    for s, xs in elems(ex, st, a[0], depth):
        items = []
        for i, x in enumerate(xs):
            if i:
                items += sep.items
            items += as_str(s, x).items
        outs.append((s, SymStr(items)))
    return outs


def m_vec_join(ex, st, fr, callee, a, depth):
    """<[String]>::join(&self, sep: &str)"""
    v = deref(st, a[0])
    sep = as_str(st, a[1])
    if not isinstance(v, ListV):
        raise Inconclusive('join on %r' % (v,))
    items = []
    for i, x in enumerate(v.items):
        if i:
            items += sep.items
        items += as_str(st, x).items
    return SymStr(items)


def m_any(ex, st, fr, callee, a, depth):
    outs = []
    for s, xs in elems(ex, st, a[0], depth):
        cur = [(s, [])]
        for x in xs:
            nxt = []
            for s2, acc in cur:
                for o in ex.call_merged(s2, a[1], [x], depth):
                    if o.panic:
                        raise Inconclusive('panic inside any-closure')
                    nxt.append((o.st, acc + [o.val]))
            cur = nxt
        for s2, acc in cur:
            r = z3.Or(*acc) if acc else z3.BoolVal(False)
            if len(acc) > 8:
                r = ex.define(r, 'any')
            outs.append((s2, r))
    return outs


def m_count(ex, st, fr, callee, a, depth):
    return [(s, BV(len(xs), 64)) for s, xs in elems(ex, st, a[0], depth)]


def m_sum(ex, st, fr, callee, a, depth):
    outs = []
    for s, xs in elems(ex, st, a[0], depth):
        t = BV(0, 64)
        for x in xs:
            t = t + x
        outs.append((s, z3.simplify(t)))
    return outs


# --------------------------------------------------------------------------- char / str / String
def m_is_ascii(ex, st, fr, callee, a, depth):
    return z3.ULT(deref(st, a[0]), BV(0x80, 32))


def m_range_contains(ex, st, fr, callee, a, depth):
    r, c = deref(st, a[0]), deref(st, a[1])
    return z3.And(z3.ULE(r.get('start'), c), z3.ULT(c, r.get('end')))


def m_range_inclusive_new(ex, st, fr, callee, a, depth):
    return TupV((a[0], a[1]), ('start', 'end'), 'RangeInclusive')


def m_range_inclusive_contains(ex, st, fr, callee, a, depth):
    r, c = deref(st, a[0]), deref(st, a[1])
    if r.tag != 'RangeInclusive':
        raise Inconclusive('RangeInclusive::contains on %r' % (r,))
    return z3.And(z3.ULE(r.get('start'), c), z3.ULE(c, r.get('end')))


def m_char_to_string(ex, st, fr, callee, a, depth):
    return SymStr([deref(st, a[0])])


def m_str_to_string(ex, st, fr, callee, a, depth):
    return as_str(st, a[0])


def m_identity_ref(ex, st, fr, callee, a, depth):
    return a[0]


def m_string_deref(ex, st, fr, callee, a, depth):
    r = a[0]
    while isinstance(st.load(r), RefV):
        r = st.load(r)
    return r


def m_clone(ex, st, fr, callee, a, depth):
    return deref(st, a[0]) if not isinstance(st.load(a[0]), RefV) else st.load(a[0])


def m_str_chars(ex, st, fr, callee, a, depth):
    return IterV('chars', items=as_str(st, a[0]).items)


def m_str_len_chars_count(ex, st, fr, callee, a, depth):
    return BV(len(as_str(st, a[0]).items), 64)


def m_str_contains_char(ex, st, fr, callee, a, depth):
    s = as_str(st, a[0])
    p = deref(st, a[1])
    if isinstance(p, SymStr):
        if len(p.items) != 1:
            raise Inconclusive('str::contains with a multi-char pattern')
        p = p.items[0]
    return z3.Or(*[x == p for x in s.items]) if s.items else z3.BoolVal(False)


def m_str_matches(ex, st, fr, callee, a, depth):
    s = as_str(st, a[0])
    pat = deref(st, a[1])
    if not is_z3(pat):
        raise Inconclusive('str::matches with a non-char pattern')
    return IterV('matches', items=tuple(z3.If(x == pat, BV(1, 64), BV(0, 64)) for x in s.items))


def m_matches_count(ex, st, fr, callee, a, depth):
    it = deref(st, a[0])
    t = BV(0, 64)
    for x in it.items:
        t = t + x
    return z3.simplify(t)


def m_str_eq(ex, st, fr, callee, a, depth):
    x, y = as_str(st, a[0]), as_str(st, a[1])
    if len(x.items) != len(y.items):
        return z3.BoolVal(False)
    return z3.And(*[p == q for p, q in zip(x.items, y.items)]) if x.items else z3.BoolVal(True)


def m_str_ne(ex, st, fr, callee, a, depth):
    return z3.Not(m_str_eq(ex, st, fr, callee, a, depth))


def m_str_replace(ex, st, fr, callee, a, depth):
    """str::replace(pattern, to) for a one-code-point pattern (char or 1-char str): every occurrence is
    replaced, left to right; forks on each comparison that the path condition does not decide."""
    s = as_str(st, a[0])
    pat = deref(st, a[1])
    to = as_str(st, a[2])
    if isinstance(pat, SymStr):
        if len(pat.items) != 1:
            raise Inconclusive('str::replace with a pattern of %d code points' % len(pat.items))
        pat = pat.items[0]
    if isinstance(pat, ListV):
        raise Inconclusive('str::replace with a char-slice pattern')
    cur = [(st, [])]
    for x in s.items:
        nxt = []
        for s1, acc in cur:
            for s2, truth in ex.branch(s1, x == pat):
                nxt.append((s2, acc + (list(to.items) if truth else [x])))
        cur = nxt
    return [(s1, SymStr(acc)) for s1, acc in cur]


def m_string_new(ex, st, fr, callee, a, depth):
    return SymStr(())


def m_push_str(ex, st, fr, callee, a, depth):
    cur = as_str(st, a[0])
    r = a[0]
    while isinstance(st.load(r), RefV):
        r = st.load(r)
    st.store(r, SymStr(cur.items + as_str(st, a[1]).items))
    return UNIT


def m_escape_unicode(ex, st, fr, callee, a, depth):
    return Opaque('EscapeUnicode', deref(st, a[0]))


def m_eu_to_string(ex, st, fr, callee, a, depth):
    eu = deref(st, a[0])
    c = eu.p[0]
    outs = []
    for s, digs in fork_cases(ex, st, hex_cases(z3.Extract(23, 0, c), 6)):
        outs.append((s, SymStr(list(lit('\\u{').items) + digs + list(lit('}').items))))
    return outs


def m_encode_utf16(ex, st, fr, callee, a, depth):
    c = deref(st, a[0])
    v = c - BV(0x10000, 32)
    hi = z3.Extract(15, 0, BV(0xD800, 32) + z3.LShR(v, 10))
    lo = z3.Extract(15, 0, BV(0xDC00, 32) + (v & BV(0x3FF, 32)))
    outs = []
    for s, truth in ex.branch(st, z3.ULT(c, BV(0x10000, 32))):
        val = ListV([z3.Extract(15, 0, c)]) if truth else ListV([hi, lo])
        outs.append((s, s.ref(val)))
    return outs


# --------------------------------------------------------------------------- Vec / slices / Box
def m_len(ex, st, fr, callee, a, depth):
    v = deref(st, a[0])
    if isinstance(v, ListV):
        return BV(len(v.items), 64)
    if isinstance(v, SymStr):
        raise Inconclusive('byte length of a string')
    raise Inconclusive('len of %r' % (v,))


def m_is_empty(ex, st, fr, callee, a, depth):
    v = deref(st, a[0])
    if isinstance(v, ListV):
        return z3.BoolVal(len(v.items) == 0)
    if isinstance(v, SymStr):
        return z3.BoolVal(len(v.items) == 0)
    raise Inconclusive('is_empty of %r' % (v,))


def _elem_ref(st, base, idx):
    r = base
    while isinstance(st.load(r), RefV):
        r = st.load(r)
    v = st.load(r)
    i = concrete(idx)
    if i is None:
        raise Inconclusive('symbolic index')
    if not isinstance(v, ListV):
        raise Inconclusive('index into %r' % (v,))
    if i >= len(v.items):
        return None
    return RefV(r.addr, r.path + (i,))


def m_index(ex, st, fr, callee, a, depth):
    r = _elem_ref(st, a[0], a[1])
    if r is None:
        return Outcome(st, None, panic='index out of bounds')
    return r


def m_vec_new(ex, st, fr, callee, a, depth):
    return ListV(())


def m_vec_deref(ex, st, fr, callee, a, depth):
    return m_string_deref(ex, st, fr, callee, a, depth)


def m_slice_contains(ex, st, fr, callee, a, depth):
    v = deref(st, a[0])
    x = deref(st, a[1])
    if not isinstance(v, ListV):
        raise Inconclusive('slice::contains on %r' % (v,))
    if isinstance(x, SymStr):
        eqs = []
        for it in v.items:
            y = as_str(st, it)
            if len(y.items) == len(x.items):
                eqs.append(z3.And(*[p == q for p, q in zip(x.items, y.items)]) if x.items else z3.BoolVal(True))
        return z3.Or(*eqs) if eqs else z3.BoolVal(False)
    raise Inconclusive('slice::contains element %r' % (x,))


def m_box_new_uninit(ex, st, fr, callee, a, depth):
    # Box<[T; N]>::new_uninit()  (the lowering of `vec![..]`): a fresh cell that the caller fills through
    # ((*box).1.value.value) = [..]; represented as nested one-field tuples around the payload
    cell = st.alloc(TupV((None, TupV((TupV((None,)),)))))
    return TupV((TupV((RefV(cell),)),))


def m_box_into_vec(ex, st, fr, callee, a, depth):
    b = a[0]
    cell = b.fields[0].fields[0]
    v = st.load(cell)
    payload = v.fields[1].fields[0].fields[0]
    if not isinstance(payload, ListV):
        raise Inconclusive('vec! payload %r' % (payload,))
    return payload


# --------------------------------------------------------------------------- unic / lazy_static
def m_cr_closed(ex, st, fr, callee, a, depth):
    return TupV((a[0], a[1]), ('low', 'high'), 'CharRange')


def m_cr_contains(ex, st, fr, callee, a, depth):
    r = deref(st, a[0])
    c = deref(st, a[1])
    return z3.And(z3.ULE(r.get('low'), c), z3.ULE(c, r.get('high')))


def m_lazy_get(ex, st, fr, callee, a, depth):
    outs = ex.call_value(st, a[1], [], depth)
    res = []
    for o in outs:
        if o.panic:
            raise Inconclusive('lazy initialiser panicked')
        res.append((o.st, o.st.ref(o.val)))
    return res


# --------------------------------------------------------------------------- fmt
class FmtArg:
    __slots__ = ('kind', 'ty', 'val')

    def __init__(self, kind, ty, val):
        self.kind, self.ty, self.val = kind, ty, val


def m_fmt_arg(ex, st, fr, callee, a, depth):
    m = re.search(r'new_(\w+)::<(.*)>$', callee, re.S)
    return FmtArg(m.group(1), m.group(2).strip(), a[0])


def m_args_new(ex, st, fr, callee, a, depth):
    tmpl = deref(st, a[0])
    if not (isinstance(tmpl, Opaque) and tmpl.tag == 'bytes'):
        raise Inconclusive('format template %r' % (tmpl,))
    args = deref(st, a[1])
    return Opaque('fmtargs', tmpl.p[0], args.items if isinstance(args, ListV) else ())


def m_args_from_str(ex, st, fr, callee, a, depth):
    return Opaque('fmtstr', as_str(st, a[0]))


def render_display(ex, st, ty, v, depth):
    """Display rendering of value v of (printed) type ty -> [(state, [code point terms])]"""
    t = ty.strip()
    x = v
    while t.startswith('&'):
        t = t[1:].strip()
        if t.startswith('mut '):
            t = t[4:]
        if t.startswith("'"):
            t = t.split(' ', 1)[1] if ' ' in t else t
        x = st.load(x) if isinstance(x, RefV) else x
    if isinstance(x, RefV):
        x = deref(st, x)
    ts = strip_generics(t).split('::')[-1]
    if isinstance(x, SymStr) and ts in ('str', 'String'):
        return [(st, list(x.items))]
    if ts == 'char' and is_z3(x):
        return [(st, [x])]
    if ts in ('u8', 'u16', 'u32', 'u64', 'usize') and is_z3(x):
        return fork_cases(ex, st, dec_cases(x))
    # a grex type with its own Display impl: run its fmt body on a scratch formatter
    name = ex.resolve_fn('<%s as Display>::fmt' % ts, '')
    if name:
        buf = st.ref(SymStr(()))
        cell = st.ref(x)
        outs = ex.run_fn(st, name, [cell, buf], depth + 1)
        res = []
        for o in outs:
            if o.panic:
                raise Inconclusive('panic inside Display::fmt of ' + ts)
            res.append((o.st, list(o.st.load(buf).items)))
        return res
    raise Inconclusive('Display of %s (%r)' % (ty, x))


def render(ex, st, fa, depth):
    """fmt::Arguments -> [(state, [code points])]"""
    if fa.tag == 'fmtstr':
        return [(st, list(fa.p[0].items))]
    tmpl, args = fa.p
    cur = [(st, [])]
    i, k = 0, 0
    while i < len(tmpl):
        b = tmpl[i]
        if b == 0:
            break
        if b < 0x80:
            piece = tmpl[i + 1:i + 1 + b].decode('utf-8')
            # a literal run may be split inside a multi-byte sequence only at its end; rustc does not do that
            cur = [(s, acc + list(lit(piece).items)) for s, acc in cur]
            i += 1 + b
        elif b == 0xC0:
            if k >= len(args):
                raise Inconclusive('format placeholder without argument')
            arg = args[k]
            k += 1
            i += 1
            nxt = []
            for s, acc in cur:
                if arg.kind == 'display':
                    for s2, cps in render_display(ex, s, arg.ty, arg.val, depth):
                        nxt.append((s2, acc + cps))
                elif arg.kind == 'lower_hex':
                    v = deref(s, arg.val)
                    for s2, digs in fork_cases(ex, s, hex_cases(v)):
                        nxt.append((s2, acc + digs))
                else:
                    raise Inconclusive('format argument kind ' + arg.kind)
            cur = nxt
        else:
            raise Inconclusive('format template byte %#x (non-default placeholder options)' % b)
    return cur


def m_format(ex, st, fr, callee, a, depth):
    return [(s, SymStr(cps)) for s, cps in render(ex, st, a[0], depth)]


def m_write_fmt(ex, st, fr, callee, a, depth):
    outs = []
    for s, cps in render(ex, st, a[1], depth):
        buf = a[0]
        while isinstance(s.load(buf), RefV):
            buf = s.load(buf)
        s.store(buf, SymStr(s.load(buf).items + tuple(cps)))
        outs.append((s, ok()))
    return outs


def m_write_str(ex, st, fr, callee, a, depth):
    buf = a[0]
    while isinstance(st.load(buf), RefV):
        buf = st.load(buf)
    st.store(buf, SymStr(st.load(buf).items + as_str(st, a[1]).items))
    return ok()


def m_display_to_string(ex, st, fr, callee, a, depth):
    m = re.match(r'^<(.*) as ToString>::to_string$', callee)
    ty = m.group(1)
    return [(s, SymStr(cps)) for s, cps in render_display(ex, st, '&' + ty, a[0], depth)]


def m_must_use(ex, st, fr, callee, a, depth):
    return a[0]


def m_panic_display(ex, st, fr, callee, a, depth):
    msg = None
    try:
        v = deref(st, a[0])
        if isinstance(v, SymStr):
            cs = [concrete(x) for x in v.items]
            if all(c is not None for c in cs):
                msg = ''.join(chr(c) for c in cs)
    except Inconclusive:
        pass
    return Outcome(st, None, panic=msg or 'panic')


def m_panic_fmt(ex, st, fr, callee, a, depth):
    msg = 'panic'
    try:
        outs = render(ex, st, a[0], depth)
        if len(outs) == 1:
            cs = [concrete(x) for x in outs[0][1]]
            if all(c is not None for c in cs):
                msg = ''.join(chr(c) for c in cs)
    except Inconclusive:
        pass
    return Outcome(st, None, panic=msg)


def m_try_branch(ex, st, fr, callee, a, depth):
    v = a[0]
    if isinstance(v, EnumV) and v.enum == 'Result':
        if v.variant == 'Ok':
            return EnumV('ControlFlow', 'Continue', 0, (v.fields[0],))
        return EnumV('ControlFlow', 'Break', 1, (EnumV('Result', 'Err', 1, (v.fields[0],)),))
    raise Inconclusive('Try::branch on %r' % (v,))


def m_from_residual(ex, st, fr, callee, a, depth):
    return a[0]


def P(pat):
    return re.compile(pat, re.S)


BASE_MODELS = [
    (P(r'impl char>::is_ascii$'), m_is_ascii),
    (P(r'Range::<char>::contains::<char>$'), m_range_contains),
    (P(r'RangeInclusive::<char>::new$'), m_range_inclusive_new),
    (P(r'RangeInclusive::<char>::contains::<char>$'), m_range_inclusive_contains),
    (P(r'^<char as ToString>::to_string$'), m_char_to_string),
    (P(r'^<(str|String) as ToString>::to_string$'), m_str_to_string),
    (P(r'^<(String|Vec<.*>) as Deref>::deref$'), m_string_deref),
    (P(r'^<(String|Vec<.*>) as DerefMut>::deref_mut$'), m_string_deref),
    (P(r'^String::as_str$'), m_string_deref),
    (P(r'^Vec::<.*>::as_mut$|^<Vec<.*> as AsMut<.*>>::as_mut$'), m_string_deref),
    (P(r'^<String as Clone>::clone$'), m_str_to_string),
    (P(r'^<&str as Into<String>>::into$|^<str as ToOwned>::to_owned$|^<String as From<&str>>::from$'), m_str_to_string),
    (P(r'^core::str::<impl str>::chars$'), m_str_chars),
    (P(r'^core::str::<impl str>::contains::<char>$'), m_str_contains_char),
    (P(r'^str::<impl str>::replace::<'), m_str_replace),
    (P(r'^core::str::<impl str>::matches::<char>$'), m_str_matches),
    (P(r'^<String as PartialEq<&str>>::eq$|^<String as PartialEq<str>>::eq$|^<String as PartialEq>::eq$|^<str as PartialEq>::eq$|^<&str as PartialEq<String>>::eq$|^<&str as PartialEq>::eq$'), m_str_eq),
    (P(r'^<String as PartialEq<&str>>::ne$|^<String as PartialEq>::ne$'), m_str_ne),
    (P(r'^String::new$'), m_string_new),
    (P(r'^String::push_str$'), m_push_str),
    (P(r'impl char>::escape_unicode$'), m_escape_unicode),
    (P(r'^<std::char::EscapeUnicode as ToString>::to_string$'), m_eu_to_string),
    (P(r'impl char>::encode_utf16$'), m_encode_utf16),
    (P(r'^core::slice::<impl \[.*\]>::iter$'), m_slice_iter),
    (P(r'^core::slice::<impl \[.*\]>::contains$'), m_slice_contains),
    (P(r'^core::slice::<impl \[.*\]>::len$|^Vec::<.*>::len$'), m_len),
    (P(r'^Vec::<.*>::is_empty$|^core::slice::<impl \[.*\]>::is_empty$|^String::is_empty$|^core::str::<impl str>::is_empty$'), m_is_empty),
    (P(r'^Vec::<.*>::new$'), m_vec_new),
    (P(r'^<Vec<.*> as Index<usize>>::index$|^<Vec<.*> as std::ops::Index<usize>>::index$|^<Vec<.*> as IndexMut<usize>>::index_mut$'), m_index),
    (P(r'^(std::)?slice::<impl \[String\]>::join::<&str>$'), m_vec_join),
    (P(r' as IntoIterator>::into_iter$'), m_into_iter),
    (P(r'^<(std::ops::Range<usize>|std::slice::Iter<.*>|Chars<.*>) as Iterator>::next$'), m_iter_next),
    (P(r' as Iterator>::map::<'), m_map),
    (P(r' as Itertools>::collect_vec$'), m_collect_vec),
    (P(r' as Itertools>::join$'), m_join),
    (P(r' as Iterator>::any::<'), m_any),
    (P(r"^<std::str::Matches<'_, char> as Iterator>::count$"), m_matches_count),
    (P(r' as Iterator>::count$'), m_count),
    (P(r' as Iterator>::sum::<usize>$'), m_sum),
    (P(r'^CharRange::closed$'), m_cr_closed),
    (P(r'^CharRange::contains$'), m_cr_contains),
    (P(r'^lazy_static::lazy::Lazy::<.*>::get::<'), m_lazy_get),
    (P(r"^core::fmt::rt::Argument::<'_>::new_\w+::<"), m_fmt_arg),
    (P(r"^Arguments::<'_>::new::<"), m_args_new),
    (P(r"^Arguments::<'_>::from_str$"), m_args_from_str),
    (P(r'^std::fmt::format$'), m_format),
    (P(r"^Formatter::<'_>::write_fmt$"), m_write_fmt),
    (P(r"^Formatter::<'_>::write_str$"), m_write_str),
    (P(r'^must_use::<'), m_must_use),
    (P(r'panic_display::<'), m_panic_display),
    (P(r'panic_fmt$|panicking::panic_fmt'), m_panic_fmt),
    (P(r' as Try>::branch$'), m_try_branch),
    (P(r' as FromResidual<.*>>::from_residual$'), m_from_residual),
    (P(r'^Box::<\[.*; \d+\]>::new_uninit$'), m_box_new_uninit),
    (P(r'box_assume_init_into_vec_unsafe'), m_box_into_vec),
    # Display of grex types via ToString: keep last so that the str/String/char cases win
    (P(r'^<[\w:]+ as ToString>::to_string$'), m_display_to_string),
]

MODEL_DOC.update({
    'char::is_ascii': 'c < 0x80',
    'Range<char>::contains': 'start <= c < end (half-open); RangeInclusive: start <= c <= end',
    'ToString for char/str/String, String::clone, Deref': 'identity on the code-point sequence',
    'str::chars / count / contains(char)': 'the code-point sequence, its (concrete) length, disjunction of equalities',
    'str::replace(1-code-point pattern, to)': 'every occurrence replaced left to right; path fork per undecided comparison',
    'String == &str': 'equal length and element-wise equality',
    'char::escape_unicode().to_string()': r'"\u{" + lower-hex(c) without leading zeros + "}" (fork per digit count)',
    'char::encode_utf16': '1 unit below U+10000, else 0xD800+((c-0x10000)>>10), 0xDC00+((c-0x10000)&0x3FF)',
    'slice::iter / Iterator::map/any/count/sum / Itertools::collect_vec/join': 'on sequences of concrete length; closures run from their MIR per element',
    'fmt::format / Formatter::write_fmt': 'template bytes decoded from MIR: literal runs, default {} (Display of str/String/char/unsigned/grex Display impls run from MIR) and {:x}; any other placeholder option is INCONCLUSIVE',
    'CharRange::closed/contains': 'low <= c <= high',
    'lazy_static Lazy::get(f)': 'f()',
    'Box::new_uninit + box_assume_init_into_vec_unsafe': 'the lowering of vec![..]: the written array becomes the Vec',
})


def model_name(ex, pattern):
    for pat, fn in ex.models:
        if pat.pattern == pattern:
            d = (fn.__doc__ or '').strip().split('\n')[0]
            return fn.__name__[2:] + (' -- ' + d if d else '')
    return pattern
