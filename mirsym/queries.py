"""The obligations mirsym decides.  Each q_* function executes the current MIR of the named grex
functions with symbolic arguments and returns an `Obligation` with the solver's verdict.
"""
import re
import time
import z3
from .mir import Mir
from .sym import InfiniteLanguage
from .sym import (Exec, State, SymStr, ListV, TupV, EnumV, RefV, ClosV, IterV, Opaque, Inconclusive, UNIT, lit, concrete,
                  BV, Outcome)
from . import models as M
from .models import BASE_MODELS, P, deref, as_str, hex_cases, fork_cases
from .models2 import MODELS2
from .smt import valid_char, in_ranges, table_tree, eq_alts, decide, Verdict
from . import regexsem as RS


class Obligation:
    def __init__(self, qid, title):
        self.qid, self.title = qid, title
        self.functions = []
        self.domain = ''
        self.bound = ''
        self.stubs = []
        self.paths = 0
        self.exec_s = 0.0
        self.verdict = None         # smt.Verdict
        self.classes_seen = {}
        self.classes_expected = []
        self.inconclusive = None    # reason string
        self.panic_edges = 0
        self.feasibility_checks = 0
        self.extra = {}
        self.defs = []

    @property
    def result(self):
        if self.verdict is not None and self.verdict.result == 'sat':
            return 'sat'        # a counterexample stands even if the vacuity guard missed an expected outcome class
        if self.inconclusive:
            return 'inconclusive'
        return self.verdict.result if self.verdict else 'inconclusive'

    def as_dict(self):
        d = {'id': self.qid, 'title': self.title, 'engine': 'mirsym (MIR -> SMT, z3 %s)' % z3.get_version_string(),
             'functions_encoded': self.functions, 'input_domain': self.domain, 'bound': self.bound,
             'stubs_and_models': self.stubs, 'paths': self.paths, 'exec_s': round(self.exec_s, 2),
             'path_feasibility_queries': self.feasibility_checks, 'outcome_classes_seen': self.classes_seen,
             'result': self.result}
        if self.verdict:
            d.update(self.verdict.as_dict())
            d['result'] = self.result
        if self.inconclusive and self.result != 'sat':
            d['inconclusive_reason'] = self.inconclusive
        elif self.inconclusive:
            d['vacuity_note'] = self.inconclusive
        d.update(self.extra)
        return d


def realisable_unit(ctx, cs):
    """constraints that make the code points cs (len >= 2) ONE extended grapheme cluster that the splitter keeps whole:
    a base that is neither mark nor other, followed by grapheme extenders that are not marks (simplified UAX #29 shape)"""
    O = ctx.oracle
    res = [z3.Not(in_ranges(cs[0], O['mark_or_other'])), z3.Not(in_ranges(cs[0], O['ext_nonmark'])), cs[0] != BV(92, 32)]
    res += [in_ranges(x, O['ext_nonmark']) for x in cs[1:]]
    return res


REALISABLE_NOTE = '; restricted to units of the shape base + non-mark grapheme extenders (reachable through the public API)'


class Ctx:
    def __init__(self, mir_text, src_root, oracle, workdir, second=(), tier='quick'):
        self.mir = Mir(mir_text, src_root)
        self.oracle = oracle
        self.workdir = workdir
        self.second = tuple(second)
        self.tier = tier
        self.known_counts = {}
        self.extra_cap = int(__import__('os').environ.get('VERIF_EXTRA_MODELS', '0'))

    def cap(self, qid):
        """all-SAT model cap: every listed known finding of the obligation plus a few new ones"""
        return self.known_counts.get(qid.split('[')[0], 0) + 8 + self.extra_cap

    def new_exec(self, extra_models=()):
        return Exec(self.mir, list(extra_models) + MODELS2 + BASE_MODELS + [(P(r'^<str as UnicodeSegmentation>::graphemes$'), m_graphemes_default)],
                    max_steps=getattr(self, 'max_steps', 2_000_000))

    def finish(self, ob, ex, t0):
        ob.exec_s = time.time() - t0
        ob.feasibility_checks = ex.stats['feasibility_checks']
        ob.panic_edges = ex.stats['panic_edges_cut']
        ob.functions = sorted(ex.stats['inlined_fns'].keys())
        ob.stubs = sorted(set(M.model_name(ex, p) for p in ex.stats['models_used'].keys()))
        ob.defs = list(ex.defs)

    def check_classes(self, ob):
        missing = [c for c in ob.classes_expected if not ob.classes_seen.get(c)]
        if missing and not ob.inconclusive:
            ob.inconclusive = 'vacuity guard: no feasible path for outcome class(es) %s' % missing


def guarded(run):
    """decorator: any Inconclusive / unexpected error inside a query becomes an inconclusive obligation"""
    def w(ctx, *a, **k):
        try:
            return run(ctx, *a, **k)
        except Inconclusive as e:
            ob = Obligation(run.__name__, run.__doc__ or '')
            ob.inconclusive = 'encoder: %s' % e
            return ob
        except KeyError as e:
            ob = Obligation(run.__name__, run.__doc__ or '')
            ob.inconclusive = 'MIR body not found: %s' % e
            return ob
        except InfiniteLanguage as e:
            ob = Obligation(run.__name__, run.__doc__ or '')
            ob.inconclusive = 'encoder: %s (this obligation has no finite-language reading of it)' % e
            return ob
    w.__name__ = run.__name__
    w.__doc__ = run.__doc__
    return w


def cps(items):
    return [concrete(x) for x in items]


# =========================================================================== Q11  Grapheme::escape
def escape_reference(c, surr):
    """guarded reference texts for the escape of c (list of (guard, [code point terms]))"""
    alts = [(z3.ULT(c, BV(0x80, 32)), [c])]
    nonascii = z3.UGE(c, BV(0x80, 32))
    astral = z3.UGE(c, BV(0x10000, 32))
    pre, post = list(lit('\\u{').items), list(lit('}').items)
    for cond, digs in hex_cases(z3.Extract(23, 0, c), 6):
        alts.append((z3.And(nonascii, z3.Not(z3.And(surr, astral)), cond), pre + digs + post))
    v = c - BV(0x10000, 32)
    hi = z3.Extract(15, 0, BV(0xD800, 32) + z3.LShR(v, 10))
    lo = z3.Extract(15, 0, BV(0xDC00, 32) + (v & BV(0x3FF, 32)))
    for c1, d1 in hex_cases(hi, 4):
        for c2, d2 in hex_cases(lo, 4):
            alts.append((z3.And(surr, astral, c1, c2), pre + d1 + post + pre + d2 + post))
    return alts


def exec_escape(ctx, c, surr):
    ex = ctx.new_exec()
    fn = ctx.mir.one_fn(r'^grapheme::<impl at [^>]*>::escape$')
    st = State(pc=[valid_char(c)])
    return ex, ex.run_fn(st, fn, [st.ref(Opaque('self')), c, surr])


@guarded
def q11(ctx):
    """Q11: Grapheme::escape(c, use_surrogate_pairs) == reference escape text, all c, both flag values"""
    ob = Obligation('Q11', q11.__doc__)
    ob.domain = 'c: every Unicode scalar value (0..=0x10FFFF minus surrogates), use_surrogate_pairs: bool'
    ob.bound = 'none (loop-free; output length <= 20 code points by construction)'
    ob.classes_expected = ['ascii', 'unicode_escape', 'surrogate_pair']
    c = z3.BitVec('c', 32)
    surr = z3.Bool('surr')
    t0 = time.time()
    ex, outs = exec_escape(ctx, c, surr)
    ctx.finish(ob, ex, t0)
    ob.paths = len(outs)
    alts = escape_reference(c, surr)
    bads = []
    for o in outs:
        if o.panic:
            bads.append(z3.And(*o.st.pc))
            ob.classes_seen['panic'] = ob.classes_seen.get('panic', 0) + 1
            continue
        items = as_str(o.st, o.val).items
        n = len(items)
        # classify by shape: one code point / one \u{..} / two \u{..}
        k = sum(1 for x in items if concrete(x) == ord('{'))
        cls = 'ascii' if n == 1 and k == 0 else ('surrogate_pair' if k == 2 else 'unicode_escape')
        ob.classes_seen[cls] = ob.classes_seen.get(cls, 0) + 1
        bads.append(z3.And(*o.st.pc, z3.Not(eq_alts(list(items), alts))))
    ctx.check_classes(ob)
    ob.verdict = decide('Q11', [valid_char(c)] + ob.defs, z3.Or(*bads), [c, surr], all_sat=True, max_models=ctx.cap('Q11'),
                        second=ctx.second, workdir=ctx.workdir, second_timeout_s=getattr(ctx, 'second_timeout', 60))
    return ob


@guarded
def q11s(ctx, n, exclude=(), realisable=False):
    """Q11s: Grapheme::escape_non_ascii_chars on a unit of n code points == concatenation of the per-code-point escapes"""
    ob = Obligation('Q11s[n=%d]' % n, q11s.__doc__)
    ob.domain = 'string of %d code points, every scalar value each; use_surrogate_pairs: bool' % n
    ob.bound = 'strings of exactly %d code points' % n
    cs = [z3.BitVec('c%d' % i, 32) for i in range(n)]
    surr = z3.Bool('surr')
    ex = ctx.new_exec()
    fn = ctx.mir.one_fn(r'^grapheme::<impl at [^>]*>::escape_non_ascii_chars$')
    assume = [valid_char(c) for c in cs]
    # per-code-point counterexamples are reported by Q11; here only NEW (compositional) failures count
    for m in exclude:
        for c in cs:
            assume.append(z3.Not(z3.And(c == BV(m['c'], 32), surr == z3.BoolVal(m['surr']))))
    if exclude:
        ob.domain += '; minus the %d per-code-point counterexample(s) already reported by Q11' % len(exclude)
    if realisable and n > 1:
        assume += realisable_unit(ctx, cs)
        ob.domain += REALISABLE_NOTE
        ob.qid += '[realisable]'
    st = State(pc=list(assume))
    g = st.ref(grapheme_value(ctx, st, [cs]))
    t0 = time.time()
    outs = ex.run_fn(st, fn, [g, surr])
    ctx.finish(ob, ex, t0)
    ob.paths = len(outs)
    refs = [escape_reference(c, surr) for c in cs]
    bads = []
    for o in outs:
        if o.panic:
            bads.append(z3.And(*o.st.pc))
            continue
        chars = o.st.load(g).get('chars')
        if not isinstance(chars, ListV) or len(chars.items) != 1:
            raise Inconclusive('chars after escape_non_ascii_chars: %r' % (chars,))
        items = list(as_str(o.st, chars.items[0]).items)

        def splits(pos, i):
            if i == n:
                return z3.BoolVal(pos == len(items))
            ds = []
            for g_, ref in refs[i]:
                L = len(ref)
                if pos + L <= len(items):
                    ds.append(z3.And(g_, *[a == b for a, b in zip(items[pos:pos + L], ref)], splits(pos + L, i + 1)))
            return z3.Or(*ds) if ds else z3.BoolVal(False)
        bads.append(z3.And(*o.st.pc, z3.Not(splits(0, 0))))
        k = 'len%d' % len(items)
        ob.classes_seen[k] = ob.classes_seen.get(k, 0) + 1
    ob.verdict = decide(ob.qid, assume + ob.defs, z3.Or(*bads), cs + [surr], all_sat=True, max_models=ctx.cap('Q11s'),
                        second=ctx.second, workdir=ctx.workdir, second_timeout_s=getattr(ctx, 'second_timeout', 60), block_vars=cs)
    return ob


# =========================================================================== Q09  is_digit / is_word / is_space
PRED = {'d': 'is_digit', 'w': 'is_word', 's': 'is_space'}


def run_predicate(ctx, ex, name, c, st):
    fname = ctx.mir.one_fn(r'^%s$' % name)
    outs = ex.run_pure(st, lambda s: ex.run_fn(s, fname, [c]))
    if len(outs) != 1 or outs[0].panic or not z3.is_bool(outs[0].val):
        raise Inconclusive('%s did not reduce to one Boolean term (%d paths)' % (name, len(outs)))
    return outs[0].val


@guarded
def q09(ctx, which):
    """Q09: is_digit / is_word / is_space (through the lazy_static initialiser) == regex-syntax class, all c"""
    name = PRED[which]
    ob = Obligation('Q09' + which, 'Q09%s: %s(c) == (c in regex-syntax \\%s) for every scalar value' % (which, name, which))
    ob.domain = 'c: every Unicode scalar value'
    ob.bound = 'none (table lengths are the real ones: the promoted constant is executed)'
    ob.classes_expected = ['table_term']
    c = z3.BitVec('c', 32)
    ex = ctx.new_exec()
    st = State(pc=[valid_char(c)])
    t0 = time.time()
    f = run_predicate(ctx, ex, name, c, st)
    ctx.finish(ob, ex, t0)
    ob.paths = 1
    n_ranges = ex.stats['inlined_fns'].get(ctx.mir.one_fn(r'^convert_chars_to_range::\{closure#0\}$'), 0)
    ob.extra['table_ranges_executed'] = n_ranges
    ob.classes_seen['table_term'] = 1 if n_ranges > 0 else 0
    ctx.check_classes(ob)
    oracle = in_ranges(c, ctx.oracle[which])
    ob.verdict = decide(ob.qid, [valid_char(c)] + ob.defs, f != oracle, [c], all_sat=True, max_models=ctx.cap(ob.qid),
                        second=ctx.second, workdir=ctx.workdir, second_timeout_s=getattr(ctx, 'second_timeout', 60))
    return ob


# =========================================================================== Q03  class ladder
FLAG_NAMES = ['is_digit_converted', 'is_word_converted', 'is_space_converted', 'is_non_digit_converted',
              'is_non_word_converted', 'is_non_space_converted']


def ladder_reference(ctx, c, f):
    """documented precedence over the regex crate's classes: [(guard, token code points)]"""
    D, W, S = (in_ranges(c, ctx.oracle[k]) for k in 'dws')
    rungs = [(z3.And(f[0], D), '\\d'), (z3.And(f[1], W), '\\w'), (z3.And(f[2], S), '\\s'),
             (z3.And(f[3], z3.Not(D)), '\\D'), (z3.And(f[4], z3.Not(W)), '\\W'), (z3.And(f[5], z3.Not(S)), '\\S')]
    alts, none_before = [], []
    for g, tok in rungs:
        alts.append((z3.And(g, *[z3.Not(x) for x in none_before]), list(lit(tok).items)))
        none_before.append(g)
    alts.append((z3.And(*[z3.Not(x) for x in none_before]), [c]))
    return alts


def closure_env_from_debug(body, st, values_by_name):
    """closure environment tuple in capture order, read from MIR `debug name => (*((*_1).K: &T))` lines"""
    order = {}
    for nm, pl in body.debug.items():
        m = re.match(r'\(\*\(\(\*_1\)\.(\d+): &[\w:]+\)\)$', pl)
        if m:
            order[int(m.group(1))] = nm
    if sorted(order) != list(range(len(order))) or set(order.values()) != set(values_by_name):
        raise Inconclusive('closure captures %s do not match the expected flags' % sorted(order.values()))
    return TupV([st.ref(values_by_name[order[i]]) for i in range(len(order))], [order[i] for i in range(len(order))])


def token_class(items):
    cs = cps(items)
    if len(cs) == 2 and cs[0] == 92 and cs[1] is not None:
        return '\\' + chr(cs[1])
    return 'literal'


def config_value(ctx, overrides=None, prefix='cfg_'):
    """a RegExpConfig value: symbolic fields, except those given in overrides (name -> term)"""
    fields = ctx.mir.structs.get('RegExpConfig')
    if not fields:
        raise Inconclusive('RegExpConfig field list not found in source')
    vals = []
    for f in fields:
        if overrides and f in overrides:
            vals.append(overrides[f])
        else:
            vals.append(z3.BitVec(prefix + f, 32) if f.startswith('minimum_') else z3.Bool(prefix + f))
    return TupV(vals, fields, 'RegExpConfig')


def cluster_value(ctx, st, graphemes, cfg_ref):
    fields = ctx.mir.structs.get('GraphemeCluster')
    if fields != ['graphemes', 'config']:
        raise Inconclusive('GraphemeCluster layout changed: %s' % (fields,))
    return TupV([ListV(graphemes), cfg_ref], fields, 'GraphemeCluster')


def exec_ladder(ctx, cs, flags, per_char=False, assume=None):
    """GraphemeCluster::convert_to_char_classes on a cluster of ONE grapheme holding ONE unit with the code points cs;
    -> (exec, [(outcome, flattened code points of the unit(s) afterwards)])"""
    ex = ctx.new_exec()
    st = State(pc=list(assume) if assume is not None else [valid_char(c) for c in cs])
    cfg = st.ref(config_value(ctx, dict(zip(FLAG_NAMES, flags))))
    cl = st.ref(cluster_value(ctx, st, [grapheme_value(ctx, st, [cs])], cfg))
    fn = ctx.mir.one_fn(r'^cluster::<impl at [^>]*>::convert_to_char_classes$')
    res = []
    for o in ex.run_fn(st, fn, [cl]):
        if o.panic:
            res.append((o, None))
            continue
        gs = o.st.load(cl).get('graphemes')
        items = []
        for g in gs.items:
            for unit in deref(o.st, g).get('chars').items:
                items += list(as_str(o.st, unit).items)
        res.append((o, items))
    return ex, res


@guarded
def q03a(ctx, n=1, exclude=(), realisable=False):
    """Q03a/c: convert_to_char_classes: per-code-point class substitution == documented precedence over the regex crate's classes"""
    qid = 'Q03a' if n == 1 else 'Q03c[n=%d]' % n
    ob = Obligation(qid, q03a.__doc__ + (' (string of %d code points through the enclosing closure)' % n if n > 1 else ''))
    ob.domain = '%d code point(s): every scalar value each; all 2^6 subsets of the six conversion flags' % n
    ob.bound = 'none' if n == 1 else 'strings of exactly %d code points' % n
    ob.classes_expected = ['\\d', '\\w', '\\s', '\\D', '\\W', '\\S', 'literal'] if n == 1 else []
    cs = [z3.BitVec('c%d' % i, 32) for i in range(n)]
    flags = [z3.Bool(nm) for nm in FLAG_NAMES]
    assume = [valid_char(c) for c in cs]
    for m in exclude:
        for c in cs:
            assume.append(z3.Not(z3.And(c == BV(m['c0'], 32), *[f == z3.BoolVal(m[nm]) for f, nm in zip(flags, FLAG_NAMES)])))
    if exclude:
        ob.domain += '; minus the %d per-code-point counterexample(s) already reported by Q03a' % len(exclude)
    if realisable and n > 1:
        assume += realisable_unit(ctx, cs)
        ob.domain += REALISABLE_NOTE
        ob.qid += '[realisable]'
    t0 = time.time()
    ex, outs = exec_ladder(ctx, cs, flags, assume=assume)
    ctx.finish(ob, ex, t0)
    ob.paths = len(outs)
    refs = [ladder_reference(ctx, c, flags) for c in cs]
    bads = []
    for o, items in outs:
        if o.panic:
            bads.append(z3.And(*o.st.pc))
            continue
        if n == 1:
            k = token_class(items)
            ob.classes_seen[k] = ob.classes_seen.get(k, 0) + 1
            bads.append(z3.And(*o.st.pc, z3.Not(eq_alts(items, refs[0]))))
        else:
            # the output must be a concatenation t0 t1 .. of per-code-point tokens
            def splits(pos, i):
                if i == n:
                    return z3.BoolVal(pos == len(items))
                ds = []
                for g, ref in refs[i]:
                    L = len(ref)
                    if pos + L <= len(items):
                        ds.append(z3.And(g, *[a == b for a, b in zip(items[pos:pos + L], ref)], splits(pos + L, i + 1)))
                return z3.Or(*ds) if ds else z3.BoolVal(False)
            bads.append(z3.And(*o.st.pc, z3.Not(splits(0, 0))))
    ctx.check_classes(ob)
    ob.verdict = decide(ob.qid, assume + ob.defs, z3.Or(*bads), cs + flags, all_sat=True, max_models=ctx.cap('Q03a' if n == 1 else 'Q03c'),
                        second=ctx.second, workdir=ctx.workdir, second_timeout_s=getattr(ctx, 'second_timeout', 60), block_vars=cs)
    return ob


@guarded
def q03b(ctx):
    """Q03b: RegExpConfig::is_char_class_feature_enabled is true whenever a conversion flag is set"""
    ob = Obligation('Q03b', q03b.__doc__)
    fields = ctx.mir.structs.get('RegExpConfig')
    if not fields:
        raise Inconclusive('RegExpConfig field list not found in source')
    ob.domain = 'every RegExpConfig value: %d Boolean fields, two u32 thresholds' % (len(fields) - 2)
    ob.bound = 'none'
    vals, vars_ = [], []
    for f in fields:
        v = z3.BitVec(f, 32) if f.startswith('minimum_') else z3.Bool(f)
        vals.append(v)
        vars_.append(v)
    ex = ctx.new_exec()
    st = State()
    t0 = time.time()
    fn = ctx.mir.one_fn(r'^config::<impl at [^>]*>::is_char_class_feature_enabled$')
    outs = ex.run_fn(st, fn, [st.ref(TupV(vals, fields, 'RegExpConfig'))])
    ctx.finish(ob, ex, t0)
    ob.paths = len(outs)
    byname = dict(zip(fields, vals))
    any_flag = z3.Or(*[byname[n] for n in FLAG_NAMES])
    bads = []
    for o in outs:
        r = o.val
        k = 'true' if z3.is_true(z3.simplify(r)) else ('false' if z3.is_false(z3.simplify(r)) else 'term')
        ob.classes_seen[k] = ob.classes_seen.get(k, 0) + 1
        bads.append(z3.And(*o.st.pc, any_flag, z3.Not(r)))
    ob.verdict = decide('Q03b', ob.defs, z3.Or(*bads), vars_, second=ctx.second, workdir=ctx.workdir, second_timeout_s=getattr(ctx, 'second_timeout', 60))
    return ob


# =========================================================================== Q04  lower-casing for (?i)
def make_to_lowercase_model(ctx, multi=False):
    L = []
    for k, v in ctx.oracle['lower1']:
        L.append((k, list(v)))
    by_len = {}
    for k, v in L:
        by_len.setdefault(len(v), []).append(k)

    def m_to_lowercase(ex, st, fr, callee, a, depth):
        """table stub: std's str::to_lowercase on a ONE-code-point string (dumped from the build toolchain)"""
        s = as_str(st, a[0])
        if len(s.items) != 1:
            if not multi:
                raise Inconclusive('to_lowercase model covers one-code-point strings only')
            # longer strings: per-code-point mapping, valid when no code point is U+03A3 (final-sigma rule); the
            # caller assumes that and the path condition must imply it
            cur = [(st, [])]
            for x in s.items:
                if not ex.must(st, x != BV(0x3A3, 32)):
                    raise Inconclusive('to_lowercase on a longer string that may contain U+03A3')
                nxt = []
                for s1, acc in cur:
                    r = m_to_lowercase(ex, s1, fr, callee, [s1.ref(SymStr([x]))], depth)
                    for s2, low in r:
                        nxt.append((s2, acc + list(low.items)))
                cur = nxt
            return [(s2, SymStr(acc)) for s2, acc in cur]
        x = s.items[0]
        cases = []
        maxlen = max(by_len) if by_len else 1
        for n in range(1, maxlen + 1):
            keys = by_len.get(n, [])
            if n == 1:
                other = [k for m_, ks in by_len.items() if m_ != 1 for k in ks]
                cond = z3.Not(in_ranges(x, _to_ranges(other))) if other else z3.BoolVal(True)
                cpsn = [table_tree(x, [(k, BV(v[0], 32)) for k, v in L if len(v) == 1], x)]
            else:
                if not keys:
                    continue
                cond = in_ranges(x, _to_ranges(keys))
                cpsn = [table_tree(x, [(k, BV(v[i], 32)) for k, v in L if len(v) == n], BV(0, 32)) for i in range(n)]
            cases.append((cond, SymStr(cpsn)))
        return fork_cases(ex, st, cases)
    return m_to_lowercase


ORB = z3.Function('fold_orbit', z3.BitVecSort(32), z3.BitVecSort(32))       # simple-case-folding orbit representative (regex-syntax)
LOW = z3.Function('low1', z3.BitVecSort(32), z3.BitVecSort(32))          # lower-case mapping when it is one code point
KEEPS = z3.Function('low_is_one_cp', z3.BitVecSort(32), z3.BoolSort())   # does c.to_lowercase() have exactly one code point
LOW_IS2 = z3.Function('low_is_two_cp', z3.BitVecSort(32), z3.BoolSort())
LOWX = [z3.Function('lowx%d' % i, z3.BitVecSort(32), z3.BitVecSort(32)) for i in range(3)]


def lowercase_lemmas(x):
    """facts about std's one-code-point lower-casing that QLEM decides on the real dump for EVERY x; used as axioms
    (instantiated at the input code points) by the obligations that treat the mapping as an uninterpreted function"""
    y = LOW(x)
    return [z3.Implies(KEEPS(x), z3.And(valid_char(y), y != BV(0x3A3, 32), z3.Or(z3.Not(KEEPS(y)), LOW(y) == y))),
            # ASCII: lower-casing keeps one code point and stays in the regex crate's folding orbit (grex skips the engine round-trip there)
            z3.Implies(z3.ULT(x, BV(0x80, 32)), z3.And(KEEPS(x), z3.ULT(y, BV(0x80, 32)), ORB(y) == ORB(x)))] + \
           [z3.And(valid_char(f(x)), f(x) != BV(0x3A3, 32)) for f in LOWX]


def concretize_lowercase(ctx, term):
    """replace the uninterpreted lower-casing functions by the real tables (std's one-code-point dump)"""
    L = [(k, list(v)) for k, v in ctx.oracle['lower1']]
    v0 = z3.Var(0, z3.BitVecSort(32))
    not1 = [k for k, v in L if len(v) != 1]
    two = [k for k, v in L if len(v) == 2]
    subs = [(LOW, table_tree(v0, [(k, BV(v[0], 32)) for k, v in L if len(v) == 1], v0)),
            (KEEPS, z3.Not(in_ranges(v0, _to_ranges(not1))) if not1 else z3.BoolVal(True)),
            (LOW_IS2, in_ranges(v0, _to_ranges(two)) if two else z3.BoolVal(False))]
    for i in range(3):
        subs.append((LOWX[i], table_tree(v0, [(k, BV(v[i], 32)) for k, v in L if len(v) > i and len(v) != 1], BV(0x61, 32))))
    U = [(k, list(v)) for k, v in ctx.oracle.get('upper1', [])]
    unot1 = [k for k, v in U if len(v) != 1]
    utwo = [k for k, v in U if len(v) == 2]
    subs += [(UP, table_tree(v0, [(k, BV(v[0], 32)) for k, v in U if len(v) == 1], v0)),
             (UPK, z3.Not(in_ranges(v0, _to_ranges(unot1))) if unot1 else z3.BoolVal(True)),
             (UP_IS2, in_ranges(v0, _to_ranges(utwo)) if utwo else z3.BoolVal(False))]
    for i in range(3):
        subs.append((UPX[i], table_tree(v0, [(k, BV(v[i], 32)) for k, v in U if len(v) > i and len(v) != 1], BV(0x41, 32))))
    return z3.substitute_funs(term, *subs)


UPK = z3.Function('up_is_one_cp', z3.BitVecSort(32), z3.BoolSort())
UP_IS2 = z3.Function('up_is_two_cp', z3.BitVecSort(32), z3.BoolSort())
UP = z3.Function('up1', z3.BitVecSort(32), z3.BitVecSort(32))
UPX = [z3.Function('upx%d' % i, z3.BitVecSort(32), z3.BitVecSort(32)) for i in range(3)]


def m_to_uppercase_abstract(ex, st, fr, callee, a, depth):
    """abstraction: str::to_uppercase = per-code-point uninterpreted mapping (1, 2 or 3 code points; no context rules exist for upper-casing)"""
    ex.uses_uf = True
    s = as_str(st, a[0])
    cur = [(st, [])]
    for x in s.items:
        nxt = []
        for s1, acc in cur:
            for s2, one in ex.branch(s1, UPK(x)):
                if one:
                    nxt.append((s2, acc + [UP(x)]))
                else:
                    for s3, two in ex.branch(s2, UP_IS2(x)):
                        nxt.append((s3, acc + [f(x) for f in (UPX[:2] if two else UPX)]))
        cur = nxt
    return [(s2, SymStr(acc)) for s2, acc in cur]


def m_to_lowercase_abstract(ex, st, fr, callee, a, depth):
    """abstraction: str::to_lowercase = per-code-point uninterpreted mapping (1, 2 or 3 code points); sound for properties
    that depend only on the lemmas in lowercase_lemmas (no U+03A3 in the input)"""
    ex.uses_uf = True
    s = as_str(st, a[0])
    cur = [(st, [])]
    for x in s.items:
        nxt = []
        for s1, acc in cur:
            for s2, one in ex.branch(s1, KEEPS(x)):
                if one:
                    nxt.append((s2, acc + [LOW(x)]))
                else:
                    for s3, two in ex.branch(s2, LOW_IS2(x)):
                        nxt.append((s3, acc + [f(x) for f in (LOWX[:2] if two else LOWX)]))
        cur = nxt
    return [(s2, SymStr(acc)) for s2, acc in cur]


def _to_ranges(keys):
    rs = []
    for k in sorted(keys):
        if rs and rs[-1][1] + 1 == k:
            rs[-1][1] = k
        else:
            rs.append([k, k])
    return rs


def orbit_rep(ctx, x):
    return table_tree(x, [(k, BV(rep, 32)) for k, rep in ctx.oracle['orbit']], x)


REGEX_META = [ord(ch) for ch in '\\.+*?()|[]{}^$#&-~']


def make_regex_models(ctx, orb):
    """the regex crate as far as grex's case-variant test needs it: regex::escape, Regex::new, Regex::is_match for a pattern of
    the shape (?i)^<escaped literal>$ -- a literal matches case-insensitively iff the code points agree position by position up
    to SIMPLE case folding (orb = orbit representative: the real regex-syntax table or its uninterpreted stand-in)"""
    def m_regex_escape(ex, st, fr, callee, a, depth):
        s_ = as_str(st, a[0])
        cur = [(st, [])]
        for x in s_.items:
            nxt = []
            for s1, acc in cur:
                for s2, t in ex.branch(s1, z3.Or(*[x == BV(mc, 32) for mc in REGEX_META])):
                    nxt.append((s2, acc + ([BV(92, 32), x] if t else [x])))
            cur = nxt
        return [(s1, SymStr(acc)) for s1, acc in cur]

    def m_regex_new(ex, st, fr, callee, a, depth):
        return EnumV('Result', 'Ok', 0, (Opaque('regex', tuple(as_str(st, a[0]).items)),))

    def m_regex_is_match(ex, st, fr, callee, a, depth):
        re_ = deref(st, a[0])
        text = list(as_str(st, a[1]).items)
        if not (isinstance(re_, Opaque) and re_.tag == 'regex'):
            raise Inconclusive('is_match on %r' % (re_,))
        pat = list(re_.p[0])
        head = [ord(ch) for ch in '(?i)^']
        if cps(pat[:len(head)]) != head or not pat or concrete(pat[-1]) != ord('$'):
            raise Inconclusive('regex model covers only patterns of the shape (?i)^literal$')
        body, lit_, i = pat[len(head):-1], [], 0
        while i < len(body):
            if concrete(body[i]) == 92 and i + 1 < len(body):
                lit_.append(body[i + 1])
                i += 2
            else:
                lit_.append(body[i])
                i += 1
        if len(lit_) != len(text):
            return z3.BoolVal(False)
        return z3.And(*[orb(p_) == orb(t_) for p_, t_ in zip(lit_, text)]) if lit_ else z3.BoolVal(True)

    def m_result_map_or(ex, st, fr, callee, a, depth):
        r = a[0]
        if not (isinstance(r, EnumV) and r.enum in ('Result', 'Option')):
            raise Inconclusive('map_or on %r' % (r,))
        if r.variant in ('Err', 'None'):
            return a[1]
        return ex.call_value(st, a[2], [r.fields[0]], depth)

    def m_str_is_ascii(ex, st, fr, callee, a, depth):
        s_ = as_str(st, a[0])
        return z3.And(*[z3.ULT(x, BV(0x80, 32)) for x in s_.items]) if s_.items else z3.BoolVal(True)
    return [(P(r'^(regex::)?escape$'), m_regex_escape), (P(r'^Regex::new$|^regex::Regex::new$'), m_regex_new),
            (P(r'^Regex::is_match$|^regex::Regex::is_match$'), m_regex_is_match),
            (P(r'^Result::<.*>::map_or::<|^Option::<.*>::map_or::<'), m_result_map_or),
            (P(r'^core::str::<impl str>::is_ascii$'), m_str_is_ascii)]


def exec_lower(ctx, cs, st=None, ex=None):
    """RegExp::convert_for_case_insensitive_matching(&mut vec![<one test case with code points cs>]);
    -> (exec, [(outcome, code points of the test case afterwards)])"""
    ex = ex or ctx.new_exec([(P(r'impl str>::to_lowercase$'), make_to_lowercase_model(ctx))] +
                            make_regex_models(ctx, lambda x: orbit_rep(ctx, x)))
    fn = ctx.mir.one_fn(r'^regexp::<impl at [^>]*>::convert_for_case_insensitive_matching$')
    st = st or State(pc=[valid_char(c) for c in cs])
    v = st.ref(ListV([SymStr(cs)]))
    res = []
    for o in ex.run_fn(st, fn, [v]):
        if o.panic:
            res.append((o, None))
            continue
        lst = o.st.load(v)
        if not isinstance(lst, ListV) or len(lst.items) != 1:
            raise Inconclusive('test case list after lower-casing: %r' % (lst,))
        res.append((o, list(as_str(o.st, lst.items[0]).items)))
    return ex, res


@guarded
def q04(ctx, idempotence=False):
    """Q04: lower-casing closure on a one-code-point test case stays in the regex crate's simple-folding orbit"""
    ob = Obligation('Q04b' if idempotence else 'Q04', q04.__doc__ if not idempotence else
                    'Q04b: the lower-casing step is idempotent on one-code-point test cases')
    ob.domain = 'test case = one code point c, every scalar value'
    ob.bound = 'test cases of exactly one code point (str::to_lowercase is a table stub for that length)'
    ob.classes_expected = ['lowered', 'kept']
    c = z3.BitVec('c', 32)
    t0 = time.time()
    ex, outs = exec_lower(ctx, [c])
    bads = []
    paths = len(outs)
    for o, r in outs:
        if o.panic:
            bads.append(z3.And(*o.st.pc))
            continue
        kept = len(r) == 1 and r[0].eq(c)
        k = 'kept' if kept else 'lowered'
        ob.classes_seen[k] = ob.classes_seen.get(k, 0) + 1
        if not idempotence:
            if len(r) != 1:
                bads.append(z3.And(*o.st.pc))
            else:
                bads.append(z3.And(*o.st.pc, orbit_rep(ctx, r[0]) != orbit_rep(ctx, c)))
        else:
            if len(r) != 1:
                continue   # reported by Q04
            _ex, outs2 = exec_lower(ctx, [r[0]], st=o.st, ex=ex)
            paths += len(outs2)
            for o2, r2 in outs2:
                if o2.panic or len(r2) != 1:
                    bads.append(z3.And(*o2.st.pc))
                else:
                    bads.append(z3.And(*o2.st.pc, r2[0] != r[0]))
    ctx.finish(ob, ex, t0)
    ob.paths = paths
    ctx.check_classes(ob)
    ob.verdict = decide(ob.qid, [valid_char(c)] + ob.defs, z3.Or(*bads), [c], all_sat=True, max_models=ctx.cap(ob.qid),
                        second=ctx.second if ctx.tier == 'thorough' else (), workdir=ctx.workdir,
                        second_timeout_s=getattr(ctx, 'second_timeout', 60), timeout_s=300)
    if ctx.tier != 'thorough':
        ob.verdict.second = {'skipped': 'the 1.5k / 2.9k-entry table queries exceed the quick-tier cap of the second solvers; re-decided in the thorough tier'}
    return ob


# =========================================================================== Q07g  grapheme splitter keep/split
def make_gc_models(ctx):
    def m_gc_of(ex, st, fr, callee, a, depth):
        return Opaque('gc', deref(st, a[0]))

    def m_is_mark(ex, st, fr, callee, a, depth):
        """table stub: unic-ucd-category GeneralCategory::of(c).is_mark() dumped by running the crate"""
        return ex.in_table(st, deref(st, a[0]).p[0], ctx.oracle['gc_mark'])

    def m_is_other(ex, st, fr, callee, a, depth):
        return ex.in_table(st, deref(st, a[0]).p[0], ctx.oracle['gc_other'])
    return [(P(r'^GeneralCategory::of$'), m_gc_of), (P(r'^GeneralCategory::is_mark$'), m_is_mark),
            (P(r'^GeneralCategory::is_other$'), m_is_other)]


def m_graphemes_default(ex, st, fr, callee, a, depth):
    """lowest-priority model of UnicodeSegmentation::graphemes: a string of at most one code point is (at most) one cluster; longer strings
    need an obligation-specific stub, because where cluster boundaries fall between ARBITRARY code points is not modelled"""
    s_ = as_str(st, a[0])
    if len(s_.items) <= 1:
        return IterV('list', items=(a[0],) if s_.items else ())
    raise Inconclusive('grapheme clusters of arbitrary code points (UnicodeSegmentation::graphemes on a string of %d code points)' % len(s_.items))


def m_graphemes_one_cluster(ex, st, fr, callee, a, depth):
    """stub: UnicodeSegmentation::graphemes(s, true) yields s itself -- the input is ASSUMED to be one extended grapheme cluster"""
    return IterV('list', items=(a[0],))


def exec_split(ctx, cs, assume):
    ex = ctx.new_exec(make_gc_models(ctx) + [(P(r'^<str as UnicodeSegmentation>::graphemes$'), m_graphemes_one_cluster)])
    fn = ctx.mir.one_fn(r'^cluster::<impl at [^>]*>::from$')
    st = State(pc=list(assume))
    cfg = st.ref(config_value(ctx))
    outs = ex.run_fn(st, fn, [st.ref(SymStr(cs)), cfg])
    res = []
    for o in outs:
        if o.panic:
            res.append(o)
            continue
        res.append(Outcome(o.st, o.val.get('graphemes')))
    return ex, res


def split_units(st, val):
    """the splitter's result as a list of units (each a tuple of code point terms)"""
    v = deref(st, val)
    if not isinstance(v, ListV):
        raise Inconclusive('splitter returned %r' % (v,))
    units = []
    for g in v.items:
        g = deref(st, g)
        chars = deref(st, g.get('chars') if g.names else g.fields[0])
        if not isinstance(chars, ListV):
            raise Inconclusive('Grapheme.chars is %r' % (chars,))
        for unit in chars.items:
            units.append(tuple(as_str(st, unit).items))
    return units


@guarded
def q07g(ctx, n, realisable):
    """Q07g: the grapheme splitter never keeps a multi-code-point unit that contains a backslash"""
    ob = Obligation('Q07g[n=%d,%s]' % (n, 'realisable' if realisable else 'any'), q07g.__doc__)
    ob.domain = 'unit of %d code points, every scalar value each' % n + \
        ('; code points 2..n restricted to grapheme extenders that are not marks (so that the unit is one extended grapheme cluster)' if realisable else '')
    ob.bound = 'units of exactly %d code points' % n
    cs = [z3.BitVec('u%d' % i, 32) for i in range(n)]
    assume = [valid_char(x) for x in cs]
    if realisable:
        assume += [in_ranges(x, ctx.oracle['ext_nonmark']) for x in cs[1:]]
    t0 = time.time()
    ex, outs = exec_split(ctx, cs, assume)
    ctx.finish(ob, ex, t0)
    ob.paths = len(outs)
    bads = []
    for o in outs:
        if o.panic:
            bads.append(z3.And(*o.st.pc))
            continue
        v = deref(o.st, o.val)
        if not isinstance(v, ListV):
            raise Inconclusive('splitter returned %r' % (v,))
        k = 'split' if len(v.items) == n and n > 1 else ('whole' if len(v.items) == 1 else 'other')
        if n == 1:
            k = 'whole'
        ob.classes_seen[k] = ob.classes_seen.get(k, 0) + 1
        total = []
        for g in v.items:
            g = deref(o.st, g)
            chars = deref(o.st, g.get('chars') if g.names else g.fields[0])
            if not isinstance(chars, ListV):
                raise Inconclusive('Grapheme.chars is %r' % (chars,))
            for unit in chars.items:
                u = as_str(o.st, unit).items
                total += list(u)
                if len(u) > 1:
                    bads.append(z3.And(*o.st.pc, z3.Or(*[x == BV(92, 32) for x in u])))
        # the units must also be a partition of the input, in order
        if len(total) != n:
            bads.append(z3.And(*o.st.pc))
        else:
            bads.append(z3.And(*o.st.pc, z3.Not(z3.And(*[a == b for a, b in zip(total, cs)]))))
    ob.classes_expected = ['whole'] if n == 1 else ['whole', 'split']
    ctx.check_classes(ob)
    ob.verdict = decide(ob.qid, assume + ob.defs, z3.Or(*bads), cs, all_sat=realisable, max_models=ctx.cap('Q07g'),
                        second=ctx.second, workdir=ctx.workdir, second_timeout_s=getattr(ctx, 'second_timeout', 60))
    return ob


# =========================================================================== Q07t  threshold setters
def symbolic_builder(ctx, st, prefix=''):
    fields = ctx.mir.structs.get('RegExpConfig')
    bfields = ctx.mir.structs.get('RegExpBuilder')
    if not fields or bfields != ['test_cases', 'config']:
        raise Inconclusive('RegExpBuilder / RegExpConfig layout not as expected: %s' % (bfields,))
    vals = [z3.BitVec(prefix + f, 32) if f.startswith('minimum_') else z3.Bool(prefix + f) for f in fields]
    cases = ListV([SymStr([z3.BitVec(prefix + 'tc0', 32)])])
    b = TupV([cases, TupV(vals, fields, 'RegExpConfig')], bfields, 'RegExpBuilder')
    return st.ref(b), vals, fields


def config_of(st, bref):
    b = st.load(bref)
    return b.get('config'), b.get('test_cases')


@guarded
def q07t(ctx, which):
    """Q07t: with_minimum_repetitions / with_minimum_substring_length panic with the documented message iff the argument is 0"""
    meth, field, msg = {
        'repetitions': ('with_minimum_repetitions', 'minimum_repetitions',
                        'Quantity of minimum repetitions must be greater than zero'),
        'substring': ('with_minimum_substring_length', 'minimum_substring_length',
                      'Minimum substring length must be greater than zero')}[which]
    ob = Obligation('Q07t[%s]' % which, '%s(q): panics with the documented message iff q == 0, else stores q and nothing else' % meth)
    ob.domain = 'q: every u32; builder: arbitrary settings'
    ob.bound = 'none'
    ob.classes_expected = ['panic', 'return']
    q = z3.BitVec('q', 32)
    ex = ctx.new_exec()
    st = State()
    bref, vals, fields = symbolic_builder(ctx, st)
    fn = ctx.mir.one_fn(r'^builder::<impl at [^>]*>::%s$' % meth)
    t0 = time.time()
    outs = ex.run_fn(st, fn, [bref, q])
    ctx.finish(ob, ex, t0)
    ob.paths = len(outs)
    bads = []
    for o in outs:
        if o.panic:
            ob.classes_seen['panic'] = ob.classes_seen.get('panic', 0) + 1
            ob.extra.setdefault('panic_messages', []).append(o.panic)
            bads.append(z3.And(*o.st.pc, q != 0))
            if o.panic != msg:
                bads.append(z3.And(*o.st.pc))
            continue
        ob.classes_seen['return'] = ob.classes_seen.get('return', 0) + 1
        cfg, _tc = config_of(o.st, bref)
        conds = [q != 0]
        for f, v0 in zip(fields, vals):
            v1 = cfg.get(f)
            conds.append(v1 == q if f == field else v1 == v0)
        bads.append(z3.And(*o.st.pc, z3.Not(z3.And(*conds))))
    ctx.check_classes(ob)
    ob.verdict = decide(ob.qid, ob.defs, z3.Or(*bads), [q] + vals, second=ctx.second, workdir=ctx.workdir, second_timeout_s=getattr(ctx, 'second_timeout', 60))
    return ob


# =========================================================================== Q10  setters
def setter_list(ctx):
    """(method name, MIR body, n extra args) for every `pub fn with*/without*(&mut self, ..) -> &mut Self`"""
    res = []
    for n, b in ctx.mir.fns.items():
        m = re.match(r'^builder::<impl at [^>]*>::(with\w*)$', n)
        if m and b.ret.strip() == '&mut RegExpBuilder' and b.params and b.params[0][1].strip() == '&mut RegExpBuilder':
            res.append((m.group(1), n, [t for _p, t in b.params[1:]]))
    return sorted(res)


def run_setter(ctx, ex, st, bref, setter, tag):
    name, fn, argtys = setter
    args = []
    for i, t in enumerate(argtys):
        t = t.strip()
        if t == 'bool':
            args.append(z3.Bool('%s_%s_a%d' % (tag, name, i)))
        elif t == 'u32':
            a = z3.BitVec('%s_%s_a%d' % (tag, name, i), 32)
            st.pc.append(a != 0)     # zero is the documented panic, decided by Q07t
            args.append(a)
        else:
            raise Inconclusive('setter %s has an argument of type %s' % (name, t))
    outs = ex.run_fn(st, fn, [bref] + args)
    good = [o for o in outs if not o.panic]
    if len(good) != 1 or len(outs) != 1:
        raise Inconclusive('setter %s: %d paths' % (name, len(outs)))
    return good[0].st, args


@guarded
def q10(ctx):
    """Q10: builder setters commute, are idempotent, touch only the config, and clone() preserves everything"""
    ob = Obligation('Q10', q10.__doc__)
    setters = setter_list(ctx)
    ob.extra['setters'] = [s[0] for s in setters]
    ob.domain = 'arbitrary initial settings; every ordered pair of the %d setters with arbitrary (non-zero) arguments' % len(setters)
    ob.bound = 'setter histories of length 2 from an arbitrary state (an inductive step: covers histories of any length)'
    if len(setters) < 10:
        raise Inconclusive('only %d setters found' % len(setters))
    ex = ctx.new_exec()
    t0 = time.time()
    bads, vars_ = [], []
    npaths = 0
    base = State()
    bref0, vals, fields = symbolic_builder(ctx, base)
    vars_ += vals
    for i, a in enumerate(setters):
        for j, b in enumerate(setters):
            if j < i:
                continue
            # order a;b versus b;a with the same arguments
            s1 = base.fork()
            s1, args_a = run_setter(ctx, ex, s1, bref0, a, 'x')
            s1, args_b = run_setter(ctx, ex, s1, bref0, b, 'y')
            s2 = base.fork()
            s2, _ = run_setter_with(ctx, ex, s2, bref0, b, args_b)
            s2, _ = run_setter_with(ctx, ex, s2, bref0, a, args_a)
            npaths += 2
            c1, t1 = config_of(s1, bref0)
            c2, t2 = config_of(s2, bref0)
            if i == j:
                # same setter twice with the same argument: idempotent
                s3 = base.fork()
                s3, _ = run_setter_with(ctx, ex, s3, bref0, a, args_a)
                c3, t3 = config_of(s3, bref0)
                s4, _ = run_setter_with(ctx, ex, s3.fork(), bref0, a, args_a)
                c4, t4 = config_of(s4, bref0)
                bads.append(z3.And(*s4.pc, z3.Not(z3.And(*[c3.get(f) == c4.get(f) for f in fields]))))
                if not same_cases(t3, t4) or not same_cases(t3, base.load(bref0).get('test_cases')):
                    bads.append(z3.And(*s4.pc))
                continue
            pc = list(s1.pc) + [c for c in s2.pc if not any(c.eq(d) for d in s1.pc)]
            bads.append(z3.And(*pc, z3.Not(z3.And(*[c1.get(f) == c2.get(f) for f in fields]))))
            if not same_cases(t1, t2):
                bads.append(z3.And(*pc))
            for x in args_a + args_b:
                if not any(x.eq(v) for v in vars_):
                    vars_.append(x)
    # clone
    cl = ctx.mir.one_fn(r'^builder::<impl at [^>]*>::clone$')
    s5 = base.fork()
    ex2 = ctx.new_exec([(P(r'^<Vec<String> as Clone>::clone$'), lambda ex, st, fr, callee, a, depth: deref(st, a[0])),
                        (P(r'^<RegExpConfig as Clone>::clone$'), NotImplementedModel)])
    outs = ex2.run_fn(s5, cl, [bref0])
    npaths += len(outs)
    for o in outs:
        if o.panic:
            bads.append(z3.And(*o.st.pc))
            continue
        nb = o.val
        c0, t0_ = config_of(o.st, bref0)
        bads.append(z3.And(*o.st.pc, z3.Not(z3.And(*[c0.get(f) == nb.get('config').get(f) for f in fields]))))
        if not same_cases(t0_, nb.get('test_cases')):
            bads.append(z3.And(*o.st.pc))
    ctx.finish(ob, ex, t0)
    ob.functions = sorted(set(ob.functions) | set(ex2.stats['inlined_fns']))
    ob.paths = npaths
    ob.classes_seen['pairs'] = len(setters) * (len(setters) + 1) // 2
    ob.verdict = decide('Q10', ob.defs, z3.Or(*bads), vars_, logic='QF_BV', second=ctx.second, workdir=ctx.workdir, second_timeout_s=getattr(ctx, 'second_timeout', 60))
    return ob


def NotImplementedModel(ex, st, fr, callee, a, depth):
    return NotImplemented


def run_setter_with(ctx, ex, st, bref, setter, args):
    name, fn, _t = setter
    outs = ex.run_fn(st, fn, [bref] + list(args))
    good = [o for o in outs if not o.panic]
    if len(good) != 1:
        raise Inconclusive('setter %s: %d non-panicking paths' % (name, len(good)))
    return good[0].st, args


def same_cases(a, b):
    if not (isinstance(a, ListV) and isinstance(b, ListV)) or len(a.items) != len(b.items):
        return False
    for x, y in zip(a.items, b.items):
        if len(x.items) != len(y.items) or not all(p.eq(q) for p, q in zip(x.items, y.items)):
            return False
    return True


# =========================================================================== translator validation
def concrete_eval(ctx, kind, inp):
    """run the encoding of one function on CONCRETE inputs; -> python value comparable with the native result"""
    def one(outs):
        good = list(outs)
        if len(good) != 1:
            raise Inconclusive('%d paths on concrete input' % len(good))
        return good[0]
    if kind == 'escape_char':
        ex, outs = exec_escape(ctx, BV(inp['c'], 32), z3.BoolVal(inp['surrogates']))
        o = one(outs)
        return cps(as_str(o.st, o.val).items)
    if kind in ('is_digit', 'is_word', 'is_space'):
        ex = ctx.new_exec()
        st = State()
        v = concrete(ex.expand(run_predicate(ctx, ex, kind, BV(inp['c'], 32), st)))
        if v is None:
            raise Inconclusive('predicate did not evaluate on a concrete input')
        return bool(v)
    if kind == 'class_tokens':
        s = inp['s']
        ex, outs = exec_ladder(ctx, [BV(x, 32) for x in s], [z3.BoolVal(b) for b in inp['flags']])
        o, items = one(outs)
        return cps(items)
    if kind == 'lower':
        ex, outs = exec_lower(ctx, [BV(inp['c'], 32)])
        o, r = one(outs)
        return cps(r)
    if kind == 'split':
        ex, outs = exec_split(ctx, [BV(x, 32) for x in inp['s']], [])
        o = one(outs)
        return [cps(u) for u in split_units(o.st, o.val)]
    if kind == 'escape_symbols':
        ex, g, outs = exec_escape_symbols(ctx, [[BV(x, 32) for x in inp['s']]], z3.BoolVal(inp['escape']), z3.BoolVal(inp['surrogates']), [])
        o = one(outs)
        return cps(as_str(o.st, o.st.load(g).get('chars').items[0]).items)
    if kind == 'component':
        variants = ctx.mir.enums.get('Component')
        k = inp['kind']
        name = variants[k]
        text = SymStr([BV(x, 32) for x in inp['text']])
        f1, f2 = z3.BoolVal(inp['flag1']), z3.BoolVal(inp['flag2'])
        a, b = BV(inp['a'], 32), BV(inp['b'], 32)
        if name in ('CapturedParenthesizedExpression', 'UncapturedParenthesizedExpression'):
            fields = (text, f1, f2)
        elif name == 'CharClass':
            fields = (text,)
        elif name in ('Caret', 'DollarSign'):
            fields = (f1,)
        elif name == 'Quantifier':
            qs = ctx.mir.enums.get('Quantifier')
            qn = 'KleeneStar' if inp['flag2'] else 'QuestionMark'
            fields = (EnumV('Quantifier', qn, qs.index(qn), ()), f1)
        elif name == 'Repetition':
            fields = (a, f1)
        elif name == 'RepetitionRange':
            fields = (a, b, f1)
        else:
            fields = ()
        ex = ctx.new_exec()
        st = State()
        fn = ctx.mir.one_fn(r'^component::<impl at [^>]*>::to_repr$')
        o = one(ex.run_fn(st, fn, [st.ref(EnumV('Component', name, k, fields)), z3.BoolVal(inp['colored'])]))
        return cps(as_str(o.st, o.val).items)
    if kind == 'grapheme_display':
        ex = ctx.new_exec()
        st = State()
        g = grapheme_value(ctx, st, [[BV(x, 32) for x in u_] for u_ in inp['chars']], inp['min'], inp['max'],
                           (inp['capture'], inp['colored'], inp['verbose']))
        buf = st.ref(SymStr(()))
        o = one(ex.run_fn(st, display_fmt_name(ctx, 'Grapheme'), [st.ref(g), buf]))
        return cps(o.st.load(buf).items)
    if kind == 'cluster_repetitions':
        ex = ctx.new_exec()
        st = State()
        over = {'minimum_repetitions': BV(inp['min_repetitions'], 32), 'minimum_substring_length': BV(inp['min_substring_length'], 32),
                'is_capturing_group_enabled': z3.BoolVal(False), 'is_output_colorized': z3.BoolVal(False), 'is_verbose_mode_enabled': z3.BoolVal(False)}
        cfg = st.ref(config_value(ctx, over))
        gs = [grapheme_value(ctx, st, [[BV(c, 32)]], 1, 1, (False, False, False)) for c in inp['s']]
        cl = st.ref(cluster_value(ctx, st, gs, cfg))
        o = one(ex.run_fn(st, ctx.mir.one_fn(r'^cluster::<impl at [^>]*>::convert_repetitions$'), [cl]))
        rows = []

        def walk(g, depth):
            chars, reps, mn, mx = grapheme_fields(o.st, g)
            rows.append([depth, [cps(as_str(o.st, x).items) for x in chars.items], concrete(mn), concrete(mx)])
            for r in reps.items:
                walk(r, depth + 1)
        for g in o.st.load(cl).get('graphemes').items:
            walk(g, 0)
        return rows
    raise Inconclusive('no concrete evaluator for ' + kind)


# =========================================================================== Q07e  escape_regexp_symbols
def grapheme_value(ctx, st, units, minv=1, maxv=1, flags=(False, False, False), repetitions=()):
    fields = ctx.mir.structs.get('Grapheme')
    if fields != ['chars', 'repetitions', 'min', 'max', 'is_capturing_group_enabled', 'is_output_colorized', 'is_verbose_mode_enabled']:
        raise Inconclusive('Grapheme layout changed: %s' % (fields,))
    def b(x):
        return x if not isinstance(x, bool) else z3.BoolVal(x)
    def n(x):
        return x if not isinstance(x, int) else BV(x, 32)
    return TupV([ListV([SymStr(u) for u in units]), ListV(list(repetitions)), n(minv), n(maxv), b(flags[0]), b(flags[1]), b(flags[2])],
                fields, 'Grapheme')


def exec_escape_symbols(ctx, units, esc, surr, assume):
    ex = ctx.new_exec()
    fn = ctx.mir.one_fn(r'^grapheme::<impl at [^>]*>::escape_regexp_symbols$')
    st = State(pc=list(assume))
    g = st.ref(grapheme_value(ctx, st, units))
    outs = ex.run_fn(st, fn, [g, esc, surr])
    return ex, g, outs


def literal_text_alternatives(ctx, c, esc, surr):
    """texts that denote exactly the literal c for the regex crate (non-verbose), as [(guard, code points)];
    with escaping of non-ASCII requested, non-ASCII c must take the C11 reference form"""
    O = ctx.oracle
    ascii_or_plain = z3.Or(z3.Not(esc), z3.ULT(c, BV(0x80, 32)))
    alts = [(z3.And(ascii_or_plain, in_ranges(c, O['lit_bare_ok'])), [c]),
            (z3.And(ascii_or_plain, in_ranges(c, O['lit_backslash_ok'])), [BV(92, 32), c])]
    for text, cp, ok_plain, _ok_verbose in O['named_escapes']:
        if ok_plain:
            alts.append((z3.And(ascii_or_plain, c == BV(cp, 32)), list(lit(text).items)))
    for g, ref in escape_reference(c, surr):
        alts.append((z3.And(esc, z3.UGE(c, BV(0x80, 32)), g), ref))
    return alts


CLASS_LETTERS = [ord(x) for x in 'dDsSwW']


@guarded
def q07e(ctx, shape='c', exclude=(), realisable=False):
    """Q07e: Grapheme::escape_regexp_symbols turns every unit into text that denotes exactly those literals for the regex crate"""
    n = len(shape)
    ob = Obligation('Q07e[%s]' % shape, q07e.__doc__)
    ob.domain = ('one unit made of %d item(s) "%s": c = any scalar value%s, t = a shorthand-class token \\d \\D \\s \\S \\w \\W (kept verbatim); '
                 'escape-non-ASCII and surrogate flags symbolic' % (n, shape, '' if n == 1 else ' except the backslash (multi-code-point units never contain a literal one: Q07g)'))
    ob.bound = 'units of exactly this shape; one unit per grapheme'
    vars_, cs, unit, assume = [], [], [], []
    for i, k in enumerate(shape):
        v = z3.BitVec(('c%d' if k == 'c' else 't%d') % i, 32)
        vars_.append(v)
        if k == 'c':
            cs.append(v)
            unit.append(v)
            assume.append(valid_char(v))
            if n > 1:
                assume.append(v != BV(92, 32))
            for m in exclude:
                assume.append(v != BV(m['c0'], 32))
        else:
            unit += [BV(92, 32), v]
            assume.append(z3.Or(*[v == BV(x, 32) for x in CLASS_LETTERS]))
    if exclude:
        ob.domain += '; minus the %d code point(s) already reported for the shape "c"' % len(exclude)
    if realisable and shape.count('c') > 1 and 't' not in shape:
        assume += realisable_unit(ctx, cs)
        ob.domain += REALISABLE_NOTE
        ob.qid += '[realisable]'
    esc, surr = z3.Bool('esc'), z3.Bool('surr')
    t0 = time.time()
    ex, g, outs = exec_escape_symbols(ctx, [unit], esc, surr, assume)
    ctx.finish(ob, ex, t0)
    ob.paths = len(outs)
    alts = []
    for i, k in enumerate(shape):
        if k == 'c':
            alts.append(literal_text_alternatives(ctx, vars_[i], esc, surr))
        else:
            alts.append([(z3.BoolVal(True), [BV(92, 32), vars_[i]])])
    bads = []
    for o in outs:
        if o.panic:
            bads.append(z3.And(*o.st.pc))
            ob.classes_seen['panic'] = ob.classes_seen.get('panic', 0) + 1
            continue
        gv = o.st.load(g)
        chars = gv.get('chars')
        if not isinstance(chars, ListV) or len(chars.items) != 1:
            raise Inconclusive('chars after escaping: %r' % (chars,))
        items = list(as_str(o.st, chars.items[0]).items)
        k = 'len%d' % len(items)
        ob.classes_seen[k] = ob.classes_seen.get(k, 0) + 1

        def splits(pos, i):
            if i == n:
                return z3.BoolVal(pos == len(items))
            ds = []
            for gd, ref in alts[i]:
                L = len(ref)
                if pos + L <= len(items):
                    ds.append(z3.And(gd, *[a == b for a, b in zip(items[pos:pos + L], ref)], splits(pos + L, i + 1)))
            return z3.Or(*ds) if ds else z3.BoolVal(False)
        bads.append(z3.And(*o.st.pc, z3.Not(splits(0, 0))))
    ob.classes_expected = ['len1', 'len2'] if shape == 'c' else []
    ctx.check_classes(ob)
    ob.verdict = decide(ob.qid, assume + ob.defs, z3.Or(*bads), vars_ + [esc, surr], all_sat=True, max_models=ctx.cap('Q07e'),
                        second=ctx.second, workdir=ctx.workdir, second_timeout_s=getattr(ctx, 'second_timeout', 60), block_vars=vars_)
    return ob


# =========================================================================== Q11k  char_count contract
@guarded
def q11k(ctx, n=1, realisable=False):
    """Q11k: Grapheme::char_count(escaped) == number of characters of the unit's (escaped) text"""
    ob = Obligation('Q11k[n=%d]' % n, q11k.__doc__)
    ob.domain = 'one unit of %d code point(s), every scalar value each; is_non_ascii_char_escaped: bool' % n
    ob.bound = 'units of exactly %d code point(s)' % n
    cs = [z3.BitVec('c%d' % i, 32) for i in range(n)]
    esc = z3.Bool('esc')
    ex = ctx.new_exec([(P(r'^<str as UnicodeSegmentation>::graphemes$'), m_graphemes_one_cluster)] if (realisable and n > 1) else [])
    fn = ctx.mir.one_fn(r'^grapheme::<impl at [^>]*>::char_count$')
    assume = [valid_char(c) for c in cs]
    if realisable and n > 1:
        assume += realisable_unit(ctx, cs)
        ob.domain += REALISABLE_NOTE
        ob.qid += '[realisable]'
    st = State(pc=list(assume))
    g = st.ref(grapheme_value(ctx, st, [cs]))
    t0 = time.time()
    outs = ex.run_fn(st, fn, [g, esc])
    ctx.finish(ob, ex, t0)
    ob.paths = len(outs)

    def esc_len(c):
        return z3.If(z3.ULT(c, BV(0x80, 32)), BV(1, 64), z3.If(z3.ULT(c, BV(0x100, 32)), BV(6, 64),
                     z3.If(z3.ULT(c, BV(0x1000, 32)), BV(7, 64), z3.If(z3.ULT(c, BV(0x10000, 32)), BV(8, 64),
                           z3.If(z3.ULT(c, BV(0x100000, 32)), BV(9, 64), BV(10, 64))))))
    want_esc = BV(0, 64)
    for c in cs:
        want_esc = want_esc + esc_len(c)
    want = z3.If(esc, want_esc, BV(n, 64))
    bads = []
    for o in outs:
        if o.panic or not is_bv(o.val):
            bads.append(z3.And(*o.st.pc))
            continue
        k = 'count'
        ob.classes_seen[k] = ob.classes_seen.get(k, 0) + 1
        bads.append(z3.And(*o.st.pc, o.val != want))
    ob.verdict = decide(ob.qid, assume + ob.defs, z3.Or(*bads), cs + [esc], all_sat=True, max_models=ctx.cap('Q11k'),
                        second=ctx.second, workdir=ctx.workdir, second_timeout_s=getattr(ctx, 'second_timeout', 60), block_vars=cs)
    return ob


def is_bv(v):
    return isinstance(v, z3.BitVecRef)


# =========================================================================== Q15  Component rendering: colour only adds SGR codes
def strip_sgr(items):
    """remove ESC [ <digits and ;> m sequences whose characters are all concrete; -> (stripped items, n removed)
    symbolic items are payload (assumed to contain no ESC) and are kept"""
    out, i, removed = [], 0, 0
    cs = [concrete(x) for x in items]
    while i < len(items):
        if cs[i] == 0x1b and i + 1 < len(items) and cs[i + 1] == ord('['):
            j = i + 2
            while j < len(items) and cs[j] is not None and (chr(cs[j]).isdigit() or cs[j] == ord(';')):
                j += 1
            if j < len(items) and cs[j] == ord('m') and j > i + 2:
                i = j + 1
                removed += 1
                continue
        out.append(items[i])
        i += 1
    return out, removed


def component_values(ctx, k):
    """symbolic instances of Component variant number k: [(description, EnumV, vars, assumptions)]"""
    variants = ctx.mir.enums.get('Component')
    if not variants or len(variants) < 10:
        raise Inconclusive('Component variants not found')
    name = variants[k]
    res = []

    def payload(n, tag):
        vs = [z3.BitVec('%s%d' % (tag, i), 32) for i in range(n)]
        return SymStr(vs), vs, [z3.And(valid_char(v), v != BV(0x1b, 32)) for v in vs]
    b1, b2 = z3.Bool('flag1'), z3.Bool('flag2')
    a, b = z3.BitVec('a', 32), z3.BitVec('b', 32)
    if name in ('CapturedParenthesizedExpression', 'UncapturedParenthesizedExpression'):
        for n in (0, 2):
            s, vs, asm = payload(n, 'p')
            res.append(('%s(payload of %d code points, bool, bool)' % (name, n), EnumV('Component', name, k, (s, b1, b2)), vs + [b1, b2], asm))
    elif name == 'CharClass':
        for n in (0, 1, 3):
            s, vs, asm = payload(n, 'p')
            res.append(('%s(payload of %d code points)' % (name, n), EnumV('Component', name, k, (s,)), vs, asm))
    elif name in ('Caret', 'DollarSign'):
        res.append(('%s(bool)' % name, EnumV('Component', name, k, (b1,)), [b1], []))
    elif name == 'Quantifier':
        qs = ctx.mir.enums.get('Quantifier')
        for qi, qn in enumerate(qs):
            res.append(('Quantifier(%s, bool)' % qn, EnumV('Component', name, k, (EnumV('Quantifier', qn, qi, ()), b1)), [b1], []))
    elif name == 'Repetition':
        res.append(('Repetition(u32, bool)', EnumV('Component', name, k, (a, b1)), [a, b1], []))
    elif name == 'RepetitionRange':
        res.append(('RepetitionRange(u32, u32, bool)', EnumV('Component', name, k, (a, b, b1)), [a, b, b1], []))
    else:
        res.append((name, EnumV('Component', name, k, ()), [], []))
    return res


@guarded
def q15(ctx, k):
    """Q15: for one Component variant, removing the SGR sequences from the coloured rendering gives the plain rendering"""
    variants = ctx.mir.enums.get('Component') or []
    ob = Obligation('Q15[%s]' % (variants[k] if k < len(variants) else k), q15.__doc__)
    ob.domain = 'all field values of the variant: Booleans, every u32, payload strings of 0..3 arbitrary code points without ESC'
    ob.bound = 'payload strings of at most 3 code points (they are copied through unchanged)'
    fn = ctx.mir.one_fn(r'^component::<impl at [^>]*>::to_repr$')
    bads, vars_all, assume_all = [], [], []
    npaths = 0
    ex = ctx.new_exec()
    t0 = time.time()
    for desc, comp, vars_, asm in component_values(ctx, k):
        st = State(pc=list(asm))
        cref = st.ref(comp)
        outs = ex.run_fn(st, fn, [cref, z3.BoolVal(True)])
        for o in outs:
            if o.panic:
                bads.append(z3.And(*o.st.pc))
                continue
            col = list(as_str(o.st, o.val).items)
            stripped, removed = strip_sgr(col)
            if any(concrete(x) == 0x1b for x in stripped):
                raise Inconclusive('coloured rendering of %s contains an ESC that is not part of a recognised SGR sequence' % desc)
            outs2 = ex.run_fn(o.st, fn, [cref, z3.BoolVal(False)])
            for o2 in outs2:
                npaths += 1
                if o2.panic:
                    bads.append(z3.And(*o2.st.pc))
                    continue
                plain = list(as_str(o2.st, o2.val).items)
                cls = 'coloured(%d SGR)' % removed
                ob.classes_seen[cls] = ob.classes_seen.get(cls, 0) + 1
                if len(plain) != len(stripped):
                    bads.append(z3.And(*o2.st.pc))
                else:
                    bads.append(z3.And(*o2.st.pc, z3.Not(z3.And(*[x == y for x, y in zip(stripped, plain)]))))
                if removed == 0 or removed % 2:
                    bads.append(z3.And(*o2.st.pc))      # highlighting must add balanced start/reset codes
        for v in vars_:
            if not any(v.eq(w) for w in vars_all):
                vars_all.append(v)
    ctx.finish(ob, ex, t0)
    ob.paths = npaths
    ob.verdict = decide(ob.qid, ob.defs, z3.Or(*bads) if bads else z3.BoolVal(False), vars_all,
                        second=ctx.second, workdir=ctx.workdir, second_timeout_s=getattr(ctx, 'second_timeout', 60))
    return ob


# =========================================================================== Q15g  Display for Grapheme: colour only adds SGR codes
def exec_grapheme_display(ctx, ex, st, units, minv, maxv, capture, colored, verbose, nested=None):
    fn = ctx.mir.one_fn(r'^grapheme::<impl at [^>]*>::fmt$')   # Display (the derive(Debug) fmt has a distinct header)
    reps = []
    if nested is not None:
        reps = [grapheme_value(ctx, st, nested[0], nested[1], nested[2], (capture, colored, verbose))]
    g = grapheme_value(ctx, st, units, minv, maxv, (capture, colored, verbose), reps)
    buf = st.ref(SymStr(()))
    outs = ex.run_fn(st, fn, [st.ref(g), buf])
    return buf, outs


def display_fmt_name(ctx, ty):
    c = [n for n in ctx.mir.fns if n.endswith('>::fmt') and re.search(r'impl(<[^>]*>)? Display for %s\b' % ty, ctx.mir.impl_headers.get(n, ''))]
    if len(c) != 1:
        raise Inconclusive('Display impl of %s: %s' % (ty, c))
    return c[0]


@guarded
def q15g(ctx, shape):
    """Q15g: Display for Grapheme -- removing the SGR sequences from the highlighted rendering gives the plain rendering"""
    ob = Obligation('Q15g[%s]' % shape, q15g.__doc__)
    nested = None
    if shape == 'class-token':
        cls = z3.BitVec('cls', 32)
        units = [[BV(92, 32), cls]]
        pvars = [cls]
        asm = [valid_char(cls), cls != BV(0x1b, 32)]
        ob.domain = 'one unit "\\\\x" (x any code point: covers the six class tokens and everything else), min/max any u32, capture/verbose flags'
    elif shape.startswith('unit'):
        n = int(shape[4:])
        pvars = [z3.BitVec('p%d' % i, 32) for i in range(n)]
        units = [pvars]
        asm = [z3.And(valid_char(v), v != BV(0x1b, 32)) for v in pvars]
        ob.domain = 'one unit of %d arbitrary code points (no ESC), min/max any u32, capture/verbose flags' % n
    elif shape == 'nested':
        pvars = [z3.BitVec('p0', 32), z3.BitVec('q0', 32)]
        units = [[pvars[0]], [pvars[0]]]
        nested = ([[pvars[1]]], z3.BitVec('imin', 32), z3.BitVec('imax', 32))
        asm = [z3.And(valid_char(v), v != BV(0x1b, 32)) for v in pvars]
        pvars += [nested[1], nested[2]]
        asm += [z3.ULT(nested[1], BV(100, 32)), z3.ULT(nested[2], BV(100, 32)), z3.ULT(z3.BitVec('min', 32), BV(100, 32)),
                z3.ULT(z3.BitVec('max', 32), BV(100, 32))]
        ob.domain = 'two units plus one nested repetition (one unit), all four counts < 100 (two decimal digits), flags'
    else:
        raise Inconclusive('shape ' + shape)
    ob.bound = 'concrete shape "%s"; code points, counts and flags symbolic' % shape
    minv, maxv = z3.BitVec('min', 32), z3.BitVec('max', 32)
    capture, verbose = z3.Bool('capture'), z3.Bool('verbose')
    fn = display_fmt_name(ctx, 'Grapheme')
    ex = ctx.new_exec()
    ex_fn = fn
    t0 = time.time()
    st = State(pc=list(asm))

    def run(st, colored):
        reps = []
        if nested is not None:
            reps = [grapheme_value(ctx, st, nested[0], nested[1], nested[2], (capture, z3.BoolVal(colored), verbose))]
        g = grapheme_value(ctx, st, units, minv, maxv, (capture, z3.BoolVal(colored), verbose), reps)
        buf = st.ref(SymStr(()))
        return buf, ex.run_fn(st, ex_fn, [st.ref(g), buf])
    bads = []
    npaths = 0
    buf1, outs = run(st, True)
    for o in outs:
        if o.panic:
            bads.append(z3.And(*o.st.pc))
            continue
        col = list(o.st.load(buf1).items)
        stripped, removed = strip_sgr(col)
        if any(concrete(x) == 0x1b for x in stripped):
            raise Inconclusive('highlighted rendering contains an ESC outside a recognised SGR sequence')
        buf2, outs2 = run(o.st, False)
        for o2 in outs2:
            npaths += 1
            if o2.panic:
                bads.append(z3.And(*o2.st.pc))
                continue
            plain = list(o2.st.load(buf2).items)
            cls_ = 'sgr_pairs=%d' % (removed // 2)
            ob.classes_seen[cls_] = ob.classes_seen.get(cls_, 0) + 1
            if len(plain) != len(stripped):
                bads.append(z3.And(*o2.st.pc))
            else:
                bads.append(z3.And(*o2.st.pc, z3.Not(z3.And(*[x == y for x, y in zip(stripped, plain)]))))
            if removed % 2:
                bads.append(z3.And(*o2.st.pc))
    ctx.finish(ob, ex, t0)
    ob.paths = npaths
    ob.verdict = decide(ob.qid, asm + ob.defs, z3.Or(*bads) if bads else z3.BoolVal(False), pvars + [minv, maxv, capture, verbose],
                        second=ctx.second, workdir=ctx.workdir, second_timeout_s=getattr(ctx, 'second_timeout', 60))
    return ob


# =========================================================================== Q10p  test-case preprocessing of RegExp::from
STOP = '@stop-after-preprocessing'


def m_stop(ex, st, fr, callee, a, depth):
    """cut: RegExp::grapheme_clusters is where preprocessing of the test cases ends; the path stops here"""
    return Outcome(st, None, panic=STOP)


def exec_preprocess(ctx, ex, st, cases, cfg_ref):
    """run RegExp::from(&mut cases, &config) up to the call of grapheme_clusters; -> [(state, resulting list of code-point lists)]"""
    fn = ctx.mir.one_fn(r'^regexp::<impl at [^>]*>::from$')
    v = st.ref(ListV([SymStr(c) for c in cases]))
    res = []
    for o in ex.run_fn(st, fn, [v, cfg_ref]):
        if o.panic != STOP:
            raise Inconclusive('RegExp::from ended before grapheme_clusters: %r' % (o.panic,))
        lst = o.st.load(v)
        res.append((o.st, [list(as_str(o.st, x).items) for x in lst.items]))
    return res


def same_lists(a, b):
    if len(a) != len(b) or any(len(x) != len(y) for x, y in zip(a, b)):
        return z3.BoolVal(False)
    eqs = [p == q for x, y in zip(a, b) for p, q in zip(x, y)]
    return z3.And(*eqs) if eqs else z3.BoolVal(True)


@guarded
def q10p(ctx, lens=(1, 1)):
    """Q10p: the test-case preprocessing at the head of RegExp::from is idempotent, order-independent and duplicate-insensitive"""
    ob = Obligation('Q10p[%s]' % ','.join(map(str, lens)), q10p.__doc__)
    ob.domain = ('%d test cases of %s code point(s), every scalar value each except U+03A3 (final-sigma context is not modelled); '
                 'case-insensitive flag symbolic, other settings arbitrary' % (len(lens), '/'.join(map(str, lens))))
    ob.bound = 'lists of %d test cases with exactly these lengths (+ one duplicate for the duplicate clause)' % len(lens)
    cases = [[z3.BitVec('s%d_%d' % (i, j), 32) for j in range(n)] for i, n in enumerate(lens)]
    allv = [v for c in cases for v in c]
    assume = [z3.And(valid_char(v), v != BV(0x3A3, 32)) for v in allv]
    ex = ctx.new_exec([(P(r'impl str>::to_lowercase$'), m_to_lowercase_abstract),
                       (P(r"^RegExp::<'_>::grapheme_clusters$"), m_stop)] + make_regex_models(ctx, ORB))
    for v in allv:
        assume += lowercase_lemmas(v)
    ob.extra['lemmas_used'] = ('one-code-point lower-casing is idempotent where it keeps one code point (Q04b, decided on the real table); '
                               'lower-casing never produces U+03A3; to_lowercase of a string without U+03A3 is the per-code-point mapping')
    ci = z3.Bool('cfg_is_case_insensitive_matching')
    st0 = State(pc=list(assume))
    cfg = st0.ref(config_value(ctx))
    t0 = time.time()
    bads = []
    npaths = 0
    for s1, L1 in exec_preprocess(ctx, ex, st0, cases, cfg):
        npaths += 1
        k = 'len%d' % len(L1)
        ob.classes_seen[k] = ob.classes_seen.get(k, 0) + 1
        # (i) a second build() on the same builder sees the preprocessed list: it must be a fixpoint
        for s2, L2 in exec_preprocess(ctx, ex, s1.fork(), L1, cfg):
            npaths += 1
            bads.append(z3.And(*s2.pc, z3.Not(same_lists(L1, L2))))
        # (ii) any other order of the input list gives the same list
        if len(cases) > 1:
            for s2, L2 in exec_preprocess(ctx, ex, s1.fork(), cases[::-1], cfg):
                npaths += 1
                bads.append(z3.And(*s2.pc, z3.Not(same_lists(L1, L2))))
        # (iii) a duplicated test case changes nothing
        for s2, L2 in exec_preprocess(ctx, ex, s1.fork(), cases + [cases[0]], cfg):
            npaths += 1
            bads.append(z3.And(*s2.pc, z3.Not(same_lists(L1, L2))))
    ctx.finish(ob, ex, t0)
    ob.paths = npaths
    bad = z3.Or(*bads)
    ob.verdict = decide(ob.qid, assume + ob.defs, bad, allv + [ci], logic='QF_UFBV',
                        second=ctx.second, workdir=ctx.workdir, second_timeout_s=getattr(ctx, 'second_timeout', 60))
    if ob.verdict.result == 'sat':
        # the abstraction admits a counterexample: decide the same formula with the REAL lower-casing table
        ob.extra['abstract_counterexample'] = ob.verdict.models[:1]
        real = [concretize_lowercase(ctx, t) for t in ([valid_char(v) for v in allv] + [v != BV(0x3A3, 32) for v in allv] + ob.defs + [bad])]
        ob.verdict = decide(ob.qid, real[:-1], real[-1], allv + [ci], all_sat=True, max_models=ctx.cap('Q10p'), logic='QF_BV',
                            timeout_s=600, block_vars=allv)
        ob.extra['refined_with_real_table'] = True
    return ob


# =========================================================================== Q07i  indent_regexp: total and content-preserving
@guarded
def q07i(ctx, k=2, m=2):
    """Q07i: indent_regexp (verbose-mode indentation) never panics and only prepends two-space indents to the non-empty lines"""
    ob = Obligation('Q07i[lines=%d,len=%d]' % (k, m), q07i.__doc__)
    ob.domain = ('%d lines of %d arbitrary code points each (no line breaks inside a line; every code point may also make the line '
                 'shorter by being absent: lengths 0..%d); is_start_anchor_disabled symbolic, other settings arbitrary' % (k, m, m))
    ob.bound = 'at most %d lines of at most %d code points' % (k, m)
    ex = ctx.new_exec()
    fn = ctx.mir.one_fn(r'^indent_regexp$')
    bads, allv = [], []
    npaths = 0
    t0 = time.time()
    import itertools
    sel = z3.BitVec('shape', 32)      # which combination of line lengths the counterexample uses
    combos = []
    for lens in itertools.product(range(0, m + 1), repeat=k):
        if all(n == 0 for n in lens) and k > 1:
            continue
        combos.append(lens)
        here = sel == BV(len(combos) - 1, 32)
        mark = len(bads)
        lines = [[z3.BitVec('l%d_%d' % (i, j), 32) for j in range(n)] for i, n in enumerate(lens)]
        vs = [v for l in lines for v in l]
        for v in vs:
            if not any(v.eq(w) for w in allv):
                allv.append(v)
        assume = [z3.And(valid_char(v), v != BV(10, 32), v != BV(13, 32)) for v in vs]
        text = []
        for i, l in enumerate(lines):
            if i:
                text.append(BV(10, 32))
            text += l
        st = State(pc=list(assume))
        cfg = st.ref(config_value(ctx))
        n_cut = len(ex.cut_panics)
        outs = ex.run_fn(st, fn, [SymStr(text), cfg])
        for pc, where, msg in ex.cut_panics[n_cut:]:
            bads.append(z3.And(*pc))
            ob.classes_seen['arithmetic-panic-edge'] = ob.classes_seen.get('arithmetic-panic-edge', 0) + 1
        want_lines = [l for l in lines if l]
        for o in outs:
            npaths += 1
            if o.panic:
                bads.append(z3.And(*o.st.pc))
                ob.classes_seen['panic'] = ob.classes_seen.get('panic', 0) + 1
                continue
            out = list(as_str(o.st, o.val).items)
            # parse: for each expected line, 2j spaces then the line, separated by \n
            pos, okc = 0, []
            shape_ok = True
            for i, l in enumerate(want_lines):
                if i:
                    if pos >= len(out) or concrete(out[pos]) != 10:
                        shape_ok = False
                        break
                    pos += 1
                # indentation: concrete spaces produced by "  ".repeat(n); the line itself follows
                rest_needed = sum(len(x) for x in want_lines[i:]) + (len(want_lines) - i - 1)
                while len(out) - pos > rest_needed and concrete(out[pos]) == 32 and not (l and out[pos].eq(l[0])):
                    pos += 1
                if pos + len(l) > len(out):
                    shape_ok = False
                    break
                okc += [a == b for a, b in zip(out[pos:pos + len(l)], l)]
                pos += len(l)
            if shape_ok and pos != len(out):
                shape_ok = False
            ob.classes_seen['returned'] = ob.classes_seen.get('returned', 0) + 1
            if not shape_ok:
                bads.append(z3.And(*o.st.pc))
            elif okc:
                bads.append(z3.And(*o.st.pc, z3.Not(z3.And(*okc))))
        bads[mark:] = [z3.And(here, b) for b in bads[mark:]]
    ob.extra['line_length_combinations'] = [list(c) for c in combos]
    ctx.finish(ob, ex, t0)
    ob.paths = npaths
    ob.classes_expected = ['returned']
    ctx.check_classes(ob)
    cfgvars = [z3.Bool('cfg_is_start_anchor_disabled')]
    ob.verdict = decide(ob.qid, ob.defs + [z3.ULT(sel, BV(len(combos), 32))], z3.Or(*bads) if bads else z3.BoolVal(False),
                        allv + cfgvars + [sel], all_sat=True, max_models=ctx.cap('Q07i'), second=ctx.second, workdir=ctx.workdir,
                        second_timeout_s=getattr(ctx, 'second_timeout', 60), block_vars=[sel])
    return ob


# =========================================================================== Q04n  lower-casing of longer test cases
def concretize_all(ctx, term):
    t = concretize_lowercase(ctx, term)
    v0 = z3.Var(0, z3.BitVecSort(32))
    return z3.substitute_funs(t, (ORB, table_tree(v0, [(k, BV(rep, 32)) for k, rep in ctx.oracle['orbit']], v0)))


@guarded
def q04n(ctx, n=2, exclude=()):
    """Q04n: lower-casing keeps a test case of n code points inside the regex crate's folding orbit, position by position"""
    ob = Obligation('Q04n[n=%d]' % n, q04n.__doc__)
    ob.domain = ('one test case of %d code points, every scalar value each except U+03A3 (final-sigma context is not modelled) and '
                 'the %d code point(s) already reported by Q04' % (n, len(exclude)))
    ob.bound = 'test cases of exactly %d code points' % n
    cs = [z3.BitVec('c%d' % i, 32) for i in range(n)]
    assume = [z3.And(valid_char(c), c != BV(0x3A3, 32)) for c in cs]
    for m in exclude:
        assume += [c != BV(m['c'], 32) for c in cs]
    # lemma decided by Q04 on the real tables: outside the reported code points, a kept-length lower-casing stays in the orbit
    for c in cs:
        assume += lowercase_lemmas(c)
    ex = ctx.new_exec([(P(r'impl str>::to_lowercase$'), m_to_lowercase_abstract)] + make_regex_models(ctx, ORB))
    ex.uses_uf = True
    st = State(pc=list(assume))
    t0 = time.time()
    ex, outs = exec_lower(ctx, cs, st=st, ex=ex)
    ctx.finish(ob, ex, t0)
    ob.paths = len(outs)
    bads = []
    for o, r in outs:
        if o.panic:
            bads.append(z3.And(*o.st.pc))
            continue
        k = 'kept' if len(r) == n and all(a.eq(b) for a, b in zip(r, cs)) else 'lowered'
        ob.classes_seen[k] = ob.classes_seen.get(k, 0) + 1
        if len(r) != n:
            bads.append(z3.And(*o.st.pc))
        else:
            bads.append(z3.And(*o.st.pc, z3.Not(z3.And(*[ORB(a) == ORB(b) for a, b in zip(r, cs)]))))
    ob.classes_expected = ['kept', 'lowered']
    ctx.check_classes(ob)
    ob.extra['lemmas_used'] = 'QLEM (table facts decided on the real dump in this run); to_lowercase of a string without U+03A3 is the per-code-point mapping'
    bad = z3.Or(*bads)
    ob.verdict = decide(ob.qid, assume + ob.defs, bad, cs, logic='QF_UFBV', second=ctx.second, workdir=ctx.workdir,
                        second_timeout_s=getattr(ctx, 'second_timeout', 60))
    if ob.verdict.result == 'sat':
        ob.extra['abstract_counterexample'] = ob.verdict.models[:1]
        base = [z3.And(valid_char(c), c != BV(0x3A3, 32)) for c in cs]
        for m in exclude:
            base += [c != BV(m['c'], 32) for c in cs]
        real = [concretize_all(ctx, t) for t in (base + ob.defs + [bad])]
        ob.verdict = decide(ob.qid, real[:-1], real[-1], cs, all_sat=True, max_models=ctx.cap('Q04n'), logic='QF_BV', timeout_s=900,
                            block_vars=cs)
        ob.extra['refined_with_real_table'] = True
    return ob


@guarded
def q04p(ctx, lens=(1, 1), exclude=()):
    """Q04p: the preprocessing of RegExp::from neither loses nor invents a test case: every input has a case variant (regex simple folding) in the list that reaches the automaton, and vice versa"""
    ob = Obligation('Q04p[%s]' % ','.join(map(str, lens)), q04p.__doc__)
    ob.domain = ('%d test cases of %s code point(s), every scalar value each except U+03A3 and the %d code point(s) reported by Q04; '
                 'case-insensitive matching ON and OFF (symbolic), other settings arbitrary' % (len(lens), '/'.join(map(str, lens)), len(exclude)))
    ob.bound = 'lists of %d test cases with exactly these lengths' % len(lens)
    cases = [[z3.BitVec('s%d_%d' % (i, j), 32) for j in range(n)] for i, n in enumerate(lens)]
    allv = [v for c in cases for v in c]
    base = [z3.And(valid_char(v), v != BV(0x3A3, 32)) for v in allv]
    for m in exclude:
        base += [v != BV(m['c'], 32) for v in allv]
    assume = list(base)
    for v in allv:
        assume += lowercase_lemmas(v)
    ex = ctx.new_exec([(P(r'impl str>::to_lowercase$'), m_to_lowercase_abstract), (P(r'impl str>::to_uppercase$'), m_to_uppercase_abstract),
                       (P(r"^RegExp::<'_>::grapheme_clusters$"), m_stop)] + make_regex_models(ctx, ORB))
    ex.uses_uf = True
    ci = z3.Bool('cfg_is_case_insensitive_matching')
    st0 = State(pc=list(assume))
    cfg = st0.ref(config_value(ctx))
    t0 = time.time()
    bads = []
    npaths = 0

    def variant(a, b, folded):
        if len(a) != len(b):
            return z3.BoolVal(False)
        if not a:
            return z3.BoolVal(True)
        return z3.And(*[z3.If(folded, ORB(x) == ORB(y), x == y) for x, y in zip(a, b)])
    for s1, L1 in exec_preprocess(ctx, ex, st0, cases, cfg):
        npaths += 1
        k = 'len%d' % len(L1)
        ob.classes_seen[k] = ob.classes_seen.get(k, 0) + 1
        every_in = z3.And(*[z3.Or(*[variant(c, t, ci) for t in L1]) if L1 else z3.BoolVal(False) for c in cases])
        every_out = z3.And(*[z3.Or(*[variant(c, t, ci) for c in cases]) for t in L1]) if L1 else z3.BoolVal(True)
        bads.append(z3.And(*s1.pc, z3.Not(z3.And(every_in, every_out))))
    ctx.finish(ob, ex, t0)
    ob.paths = npaths
    ob.extra['lemmas_used'] = 'QLEM (table facts decided on the real dump in this run); per-code-point case mapping for strings without U+03A3'
    bad = z3.Or(*bads)
    ob.verdict = decide(ob.qid, assume + ob.defs, bad, allv + [ci], logic='QF_UFBV', second=ctx.second, workdir=ctx.workdir,
                        second_timeout_s=getattr(ctx, 'second_timeout', 60))
    if ob.verdict.result == 'sat':
        ob.extra['abstract_counterexample'] = ob.verdict.models[:1]
        real = [concretize_all(ctx, t) for t in (base + ob.defs + [bad])]
        ob.verdict = decide(ob.qid, real[:-1], real[-1], allv + [ci], all_sat=True, max_models=ctx.cap('Q04p'), logic='QF_BV',
                            timeout_s=900, block_vars=allv)
        ob.extra['refined_with_real_table'] = True
    return ob


# =========================================================================== Q05r / Q13r  repetition conversion of one cluster
def grapheme_fields(st, g):
    g = deref(st, g)
    return (g.get('chars'), g.get('repetitions'), g.get('min'), g.get('max'))


def expand_grapheme(st, g, checks, minrep, minlen, depth=0):
    """-> (units of ONE repetition as denoted by chars, units denoted by the nested repetitions or None, count);
    appends the threshold conditions of every quantified (sub-)unit to `checks`"""
    chars, reps, mn, mx = grapheme_fields(st, g)
    own = [tuple(as_str(st, x).items) for x in chars.items]
    k = concrete(mn)
    if k is None or concrete(mx) != k or k < 1:
        raise Inconclusive('the cluster converter produced a symbolic or ranged count')
    if k > 1:
        # C13: count strictly greater than minimum_repetitions, unit at least minimum_substring_length graphemes long
        checks.append(z3.UGT(BV(k, 32), minrep))
        checks.append(z3.UGE(BV(len(own), 32), minlen))
    nested = None
    if reps.items:
        nested = []
        for r in reps.items:
            o, n_, rk = expand_grapheme(st, r, checks, minrep, minlen, depth + 1)
            nested += (n_ if n_ is not None else o) * rk
    return own, nested, k


@guarded
def q05r(ctx, n=4, clause='notation', letters=False, tokens=False, template=None):
    """Q05r/Q13r: GraphemeCluster::convert_repetitions is a notation change (Q05r) that honours both thresholds (Q13r)"""
    name = {'notation': 'Q05r', 'thresholds': 'Q13r'}[clause]
    if template:
        n = len(template)
    ob = Obligation('%s[n=%d]%s%s%s' % (name, n, '[tokens]' if tokens else '', '[letters]' if letters else '', '[template=%s]' % template if template else ''),
                    {'notation': 'Q05r: expanding every {k} unit of the converted cluster (and its nested rendering) gives back the original grapheme sequence',
                     'thresholds': 'Q13r: every quantified unit of the converted cluster, at any nesting depth, has a count > minimum_repetitions and spans >= minimum_substring_length graphemes'}[clause])
    ob.domain = ('a cluster of %d graphemes, each %s (all equality patterns); minimum_repetitions and '
                 'minimum_substring_length: every u32 >= 1; other settings arbitrary' % (
                     n, 'a shorthand-class token \\d \\D \\s \\S \\w \\W (one original character, two code points in the unit)' if tokens
                     else ('one letter a..z' if letters else 'one code point, every scalar value')))
    ob.bound = 'clusters of exactly %d graphemes, one code point each' % n
    cs = [z3.BitVec('g%d' % i, 32) for i in range(n)]
    assume = [valid_char(c) for c in cs]
    if template:
        # a longer cluster with a fixed equality pattern: equal letters of the template are the same (symbolic) letter, different letters differ
        first = {}
        for i_, ch in enumerate(template):
            if ch in first:
                assume.append(cs[i_] == cs[first[ch]])
            else:
                assume += [cs[i_] != cs[j_] for j_ in first.values()]
                first[ch] = i_
        assume += [z3.And(z3.UGE(c, BV(0x61, 32)), z3.ULE(c, BV(0x7A, 32))) for c in cs]
    if letters:
        assume += [z3.And(z3.UGE(c, BV(0x61, 32)), z3.ULE(c, BV(0x7A, 32))) for c in cs]
    if tokens:
        assume += [z3.Or(*[c == BV(x, 32) for x in CLASS_LETTERS]) for c in cs]
    ex = ctx.new_exec()
    st = State(pc=list(assume))
    cfgv = config_value(ctx)
    minrep, minlen = cfgv.get('minimum_repetitions'), cfgv.get('minimum_substring_length')
    st.pc += [minrep != 0, minlen != 0]
    assume += [minrep != 0, minlen != 0]
    cfg = st.ref(cfgv)
    flags = (cfgv.get('is_capturing_group_enabled'), cfgv.get('is_output_colorized'), cfgv.get('is_verbose_mode_enabled'))
    gs = [grapheme_value(ctx, st, [[BV(92, 32), c] if tokens else [c]], 1, 1, flags) for c in cs]
    cl = st.ref(cluster_value(ctx, st, gs, cfg))
    fn = ctx.mir.one_fn(r'^cluster::<impl at [^>]*>::convert_repetitions$')
    t0 = time.time()
    outs = ex.run_fn(st, fn, [cl])
    ctx.finish(ob, ex, t0)
    ob.paths = len(outs)
    orig = [((BV(92, 32), c) if tokens else (c,)) for c in cs]
    bads = []
    # a feasible failing edge of a checked-arithmetic assert = a panic in a debug build and silent wrap-around in a release build
    for pc, where, msg in ex.cut_panics:
        ob.classes_seen['arithmetic-panic-edge'] = ob.classes_seen.get('arithmetic-panic-edge', 0) + 1
        if clause == 'thresholds':      # wrap-around of threshold arithmetic is a threshold matter (C13), not a notation one
            bads.append(z3.And(*pc))
    for o in outs:
        if o.panic:
            bads.append(z3.And(*o.st.pc))
            ob.classes_seen['panic'] = ob.classes_seen.get('panic', 0) + 1
            continue
        res = o.st.load(cl).get('graphemes')
        flat, ok_terms, quantified = [], [], 0
        thr_terms = []
        shape_bad = False
        for g in res.items:
            own, nested, k = expand_grapheme(o.st, g, thr_terms, minrep, minlen)
            if nested is not None:
                # the nested rendering must denote the same units as chars
                if len(nested) != len(own) or any(len(a) != len(b) for a, b in zip(nested, own)):
                    shape_bad = True
                    break
                ok_terms += [x == y for a, b in zip(nested, own) for x, y in zip(a, b)]
            flat += own * k
            if k > 1:
                quantified += 1
        cls = 'quantified=%d' % quantified
        ob.classes_seen[cls] = ob.classes_seen.get(cls, 0) + 1
        if shape_bad or len(flat) != len(orig) or any(len(a) != len(b) for a, b in zip(flat, orig)):
            bads.append(z3.And(*o.st.pc))
            continue
        ok_terms += [x == y for a, b in zip(flat, orig) for x, y in zip(a, b)]
        goal = ok_terms if clause == 'notation' else thr_terms
        bads.append(z3.And(*o.st.pc, z3.Not(z3.And(*goal))) if goal else z3.BoolVal(False))
    ob.classes_expected = ['quantified=0', 'quantified=1']
    ctx.check_classes(ob)
    ob.verdict = decide(ob.qid, assume + ob.defs, z3.Or(*bads), cs + [minrep, minlen], all_sat=True, max_models=ctx.cap(name),
                        second=ctx.second, workdir=ctx.workdir, second_timeout_s=getattr(ctx, 'second_timeout', 60), block_vars=cs)
    return ob


# =========================================================================== Q16t  trie construction (Dfa::from without minimisation)
def trie_language(st, dfa, max_words=4000):
    """all words of the trie as lists of code-point terms: every path from the initial state to a final state, every edge
    (value, min, max) contributing value^k for each k in min..=max (edge counts are concrete after insertion)"""
    graph = dfa.get('graph')
    finals = set(concrete(x) for x in dfa.get('final_state_indices').get('items').items)
    init = dfa.get('initial_state').p[0]
    edges = {}
    for e in graph.get('edges').items:
        s_, t_, w = concrete(e.fields[0]), concrete(e.fields[1]), e.fields[2]
        chars, _reps, mn, mx = grapheme_fields(st, w)
        unit = [x for u_ in chars.items for x in as_str(st, u_).items]
        lo, hi = concrete(mn), concrete(mx)
        if lo is None or hi is None:
            raise Inconclusive('edge with a symbolic repeat count')
        edges.setdefault(s_, []).append((t_, unit, lo, hi))
    words = []

    def walk(node, prefix, seen):
        if node in finals:
            words.append(prefix)
            if len(words) > max_words:
                raise Inconclusive('trie language larger than %d words' % max_words)
        for t_, unit, lo, hi in edges.get(node, []):
            if t_ in seen:
                raise Inconclusive('cycle in the trie')
            for k in range(lo, hi + 1):
                walk(t_, prefix + unit * k, seen | {t_})
    walk(init, [], {init})
    return words, len(graph.get('nodes').items), sum(len(v) for v in edges.values())


def words_eq(a, b):
    if len(a) != len(b):
        return z3.BoolVal(False)
    return z3.And(*[x == y for x, y in zip(a, b)]) if a else z3.BoolVal(True)


def first_widening(clusters, with_position=False):
    """label of a trie counterexample: the first edge-widening event of Dfa::find_next_state when the clusters are inserted
    in order (a Python mirror of the insertion used ONLY to name the finding, not to decide anything).
    -> e.g. '^a{2}+a{3}' (edge a{2} directly under the root widened by a{3}), '^a.b{1}+b{2}' ... or None"""
    trie = {'edges': []}        # edges: [value, min, max, child] newest first on lookup
    for ci, cl in enumerate(clusters):
        node, path = trie, []
        for c, k in cl:
            nxt = None
            for e in reversed(node['edges']):
                if e[0] != c:
                    continue
                if e[2] == k - 1:
                    names = {}
                    def nm(x):
                        if x not in names:
                            names[x] = chr(ord('a') + len(names))
                        return names[x]
                    pre = '.'.join('%s{%d}' % (nm(pc), pk) if pk > 1 else nm(pc) for pc, pk in path)
                    lab = 'a{%s}+a{%d}@depth%d' % (e[1] if e[1] == e[2] else '%d,%d' % (e[1], e[2]), k, len(path))
                    if with_position:
                        return lab, (ci, len(path))
                    return lab
                if e[2] == k:
                    nxt = e[3]
                    break
            if nxt is None:
                nxt = {'edges': []}
                node['edges'].append([c, k, k, nxt])
            path.append((c, k))
            node = nxt
    return (None, None) if with_position else None



def sorted_before(a, b):
    """a strictly before b in (length, lexicographic) order -- distinct test cases as RegExp::sort leaves them"""
    if len(a) != len(b):
        return z3.BoolVal(len(a) < len(b))
    res = z3.BoolVal(False)
    for x, y in reversed(list(zip(a, b))):
        res = z3.Or(z3.ULT(x, y), z3.And(x == y, res))
    return res


@guarded
def q16t(ctx, shape=(2, 2), max_count=3, letters=False, clause='language'):
    """Q16t: the trie built by Dfa::from (no minimisation) accepts exactly the union of the inserted clusters"""
    ob = Obligation('%s[%s]%s' % ('Q16t' if clause == 'language' else 'Q16f', ','.join(map(str, shape)), '[letters]' if letters else ''),
                    q16t.__doc__ if clause == 'language' else 'Q16f: every edge label of the trie carries the presentation flags of the configuration (capturing groups, highlighting, verbose mode), also after two repeat counts were merged into a range')
    ob.domain = ('%d clusters of %s graphemes (one code point each, %s; neighbouring graphemes of a cluster differ), each with an exact '
                 'repeat count in 1..=%d (the form convert_repetitions produces: Q05r)' % (len(shape), '/'.join(map(str, shape)),
                                                                                         'a..z, clusters in the order RegExp::sort establishes' if letters else 'every scalar value, any insertion order', max_count))
    ob.bound = 'exactly this shape; counts <= %d' % max_count
    fields = ctx.mir.structs.get('Dfa')
    if fields != ['alphabet', 'graph', 'initial_state', 'final_state_indices', 'config']:
        raise Inconclusive('Dfa layout changed: %s' % (fields,))
    import itertools
    ex = ctx.new_exec()
    cvars = [[z3.BitVec('v%d_%d' % (i, j), 32) for j in range(n)] for i, n in enumerate(shape)]
    kvars = [[z3.BitVec('k%d_%d' % (i, j), 32) for j in range(n)] for i, n in enumerate(shape)]
    assume = []
    for i, n in enumerate(shape):
        for j in range(n):
            c = cvars[i][j]
            assume.append(valid_char(c))
            if letters:
                assume += [z3.UGE(c, BV(0x61, 32)), z3.ULE(c, BV(0x7A, 32))]
            if j:
                assume.append(c != cvars[i][j - 1])
    flatk = [k for ks in kvars for k in ks]
    assume += [z3.And(z3.UGE(k, BV(1, 32)), z3.ULE(k, BV(max_count, 32))) for k in flatk]
    fn = ctx.mir.one_fn(r'^dfa::<impl at [^>]*>::from$')
    t0 = time.time()
    bads = []
    npaths = 0
    # repeat counts steer the control flow of find_next_state: one symbolic run per concrete assignment of the counts
    for counts in itertools.product(range(1, max_count + 1), repeat=len(flatk)):
        here = z3.And(*[k == BV(v, 32) for k, v in zip(flatk, counts)])
        st = State(pc=[a for a in assume if not any(k.eq(x) for k in flatk for x in [a])])
        cfgv = config_value(ctx)
        cfg = st.ref(cfgv)
        flags = (cfgv.get('is_capturing_group_enabled'), cfgv.get('is_output_colorized'), cfgv.get('is_verbose_mode_enabled'))
        clusters, expected = [], []
        it = iter(counts)
        for i, n in enumerate(shape):
            gs, word = [], []
            for j in range(n):
                kk = next(it)
                gs.append(grapheme_value(ctx, st, [[cvars[i][j]]], kk, kk, flags))
                word += [cvars[i][j]] * kk
            clusters.append(cluster_value(ctx, st, gs, cfg))
            expected.append(word)
        outs = ex.run_fn(st, fn, [st.ref(ListV(clusters)), z3.BoolVal(False), cfg])
        for o in outs:
            npaths += 1
            if o.panic:
                bads.append(z3.And(here, *o.st.pc))
                ob.classes_seen['panic'] = ob.classes_seen.get('panic', 0) + 1
                continue
            if clause == 'flags':
                diffs = []
                for e_ in o.val.get('graph').get('edges').items:
                    g_ = deref(o.st, e_.fields[2])
                    for nm_, want in zip(('is_capturing_group_enabled', 'is_output_colorized', 'is_verbose_mode_enabled'), flags):
                        diffs.append(g_.get(nm_) != want)
                    ob.classes_seen['edge' if concrete(g_.get('min')) == concrete(g_.get('max')) else 'range-edge'] = 1
                bads.append(z3.And(here, *o.st.pc, z3.Or(*diffs) if diffs else z3.BoolVal(False)))
                continue
            words, n_nodes, n_edges = trie_language(o.st, o.val)
            cls = 'nodes=%d' % n_nodes
            ob.classes_seen[cls] = ob.classes_seen.get(cls, 0) + 1
            # every inserted word is in the trie, and every trie word is one of the inserted words
            inc = [z3.Or(*[words_eq(w, t) for t in words]) if words else z3.BoolVal(False) for w in expected]
            exc = [z3.Or(*[words_eq(w, t) for w in expected]) for t in words]
            pre = []
            if letters:
                # the pipeline inserts the test cases in the order RegExp::sort establishes (length, then lexicographic; Q10p)
                for a_, b_ in zip(expected, expected[1:]):
                    pre.append(sorted_before(a_, b_))
            bads.append(z3.And(here, *o.st.pc, *pre, z3.Not(z3.And(*(inc + exc)))))
    ctx.finish(ob, ex, t0)
    ob.paths = npaths
    cvars = [c for cs_ in cvars for c in cs_]
    kvars = flatk
    ob.classes_expected = []
    allv = cvars + kvars

    def blocker(m):
        """block every input that shares the graphemes involved in this model's first edge-widening event (all clusters up to
        and including the widening one, cut at the widened position) -- one model per kind of event; without an event,
        block the whole equality pattern + counts"""
        vals = [m.eval(c, model_completion=True).as_long() for c in cvars]
        kv = [m.eval(k, model_completion=True).as_long() for k in kvars]
        idx, clusters_, pos = 0, [], []
        for n_ in shape:
            clusters_.append([(vals[idx + j], kv[idx + j]) for j in range(n_)])
            pos.append([idx + j for j in range(n_)])
            idx += n_
        lab, where = first_widening(clusters_, with_position=True)
        if lab is None:
            involved = list(range(len(cvars)))
        else:
            ci_, depth_ = where
            involved = [p_ for c_i in range(ci_ + 1) for p_ in pos[c_i][:depth_ + 1]]
        parts = [kvars[i] == BV(kv[i], 32) for i in involved]
        for a_ in range(len(involved)):
            for b_ in range(a_ + 1, len(involved)):
                i, j = involved[a_], involved[b_]
                parts.append((cvars[i] == cvars[j]) if vals[i] == vals[j] else (cvars[i] != cvars[j]))
        return z3.Not(z3.And(*parts))
    if clause == 'flags':
        fl = [z3.Bool('cfg_is_capturing_group_enabled'), z3.Bool('cfg_is_output_colorized'), z3.Bool('cfg_is_verbose_mode_enabled')]
        ob.verdict = decide(ob.qid, assume + ob.defs, z3.Or(*bads), allv + fl, all_sat=True, max_models=ctx.cap('Q16f'),
                            second=ctx.second, workdir=ctx.workdir, second_timeout_s=getattr(ctx, 'second_timeout', 60), block_vars=fl + kvars)
        return ob
    ob.verdict = decide(ob.qid, assume + ob.defs, z3.Or(*bads), allv, all_sat=True, max_models=ctx.cap('Q16t'),
                        second=ctx.second, workdir=ctx.workdir, second_timeout_s=getattr(ctx, 'second_timeout', 60), blocker=blocker)
    return ob


# =========================================================================== Q06d  Display for RegExp on a literal AST
def verbose_literal_alternatives(ctx, c, esc, surr):
    """texts that denote exactly the literal c under the (?x) flag"""
    O = ctx.oracle
    ascii_or_plain = z3.Or(z3.Not(esc), z3.ULT(c, BV(0x80, 32)))
    alts = [(z3.And(ascii_or_plain, in_ranges(c, O['lit_bare_ok_verbose'])), [c]),
            (z3.And(ascii_or_plain, in_ranges(c, O['lit_backslash_ok_verbose'])), [BV(92, 32), c])]
    for text, cp, _ok_plain, ok_verbose in O['named_escapes']:
        if ok_verbose:
            alts.append((z3.And(ascii_or_plain, c == BV(cp, 32)), list(lit(text).items)))
    for g, ref in escape_reference(c, surr):
        alts.append((z3.And(esc, z3.UGE(c, BV(0x80, 32)), g), ref))
    # \u{hex} is a valid way to write c whether or not escaping of non-ASCII characters was requested
    for g, ref in escape_reference(c, z3.BoolVal(False)):
        if len(ref) > 1:
            alts.append((z3.And(g, in_ranges(c, O['lit_uescape_ok_verbose'])), ref))
    return alts


def plain_literal_alternatives(ctx, c, esc, surr):
    alts = literal_text_alternatives(ctx, c, esc, surr)
    O = ctx.oracle
    for text, cp, ok_plain, _v in O['named_escapes']:
        if ok_plain and text in ('\\v', '\\f'):
            pass    # already included by literal_text_alternatives through named_escapes
    return alts


def strip_verbose_whitespace(items):
    """what the regex parser ignores under (?x): unescaped concrete spaces and line breaks (symbolic items are kept: whether a
    symbolic code point may stand bare is exactly what the obligation decides)"""
    out, i = [], 0
    while i < len(items):
        v = concrete(items[i])
        if v == 92 and i + 1 < len(items):
            out += [items[i], items[i + 1]]
            i += 2
            continue
        if v in (32, 10):
            i += 1
            continue
        out.append(items[i])
        i += 1
    return out


@guarded
def q06d(ctx, n=1, alnum=False):
    """Q06d: Display for RegExp with a literal AST: flags prefix, anchors exactly as requested, and every code point written so that the regex crate reads that literal -- also under (?x)"""
    ob = Obligation('Q06d[n=%d]%s' % (n, '[alnum]' if alnum else ''), q06d.__doc__)
    ob.domain = ('AST = Expression::Literal of %d one-code-point grapheme(s), %s each; all settings symbolic except syntax '
                 'highlighting (off: C15) -- case-insensitive, verbose, both anchors, escaping, surrogates, capturing' % (
                     n, 'a..z / 0..9' if alnum else 'every scalar value'))
    ob.bound = 'literal ASTs of exactly %d graphemes (a single test case without repetition)' % n
    if ctx.mir.structs.get('RegExp') != ['ast', 'config']:
        raise Inconclusive('RegExp layout changed: %s' % (ctx.mir.structs.get('RegExp'),))
    cs = [z3.BitVec('c%d' % i, 32) for i in range(n)]
    assume = [valid_char(c) for c in cs]
    if alnum:
        # anchors / flags clause on its own: code points that need no escaping in any mode
        assume += [z3.Or(z3.And(z3.UGE(c, BV(0x61, 32)), z3.ULE(c, BV(0x7A, 32))), z3.And(z3.UGE(c, BV(0x30, 32)), z3.ULE(c, BV(0x39, 32)))) for c in cs]
        ob.domain = ob.domain if ob.domain else ''
    ex = ctx.new_exec()
    st = State(pc=list(assume))
    cfgv = config_value(ctx, {'is_output_colorized': z3.BoolVal(False)})
    cfg = st.ref(cfgv)
    g = cfgv.get
    esc, surr = g('is_non_ascii_char_escaped'), g('is_astral_code_point_converted_to_surrogate')
    ci, vb = g('is_case_insensitive_matching'), g('is_verbose_mode_enabled')
    nsa, nea = g('is_start_anchor_disabled'), g('is_end_anchor_disabled')
    flags = (g('is_capturing_group_enabled'), z3.BoolVal(False), vb)
    gs = [grapheme_value(ctx, st, [[c]], 1, 1, flags) for c in cs]
    cluster = cluster_value(ctx, st, gs, cfg)
    variants = ctx.mir.enums.get('Expression')
    ast = EnumV('Expression', 'Literal', variants.index('Literal'), (cluster, esc, surr))
    regexp = TupV((ast, cfg), ('ast', 'config'), 'RegExp')
    fn = display_fmt_name(ctx, 'RegExp')
    buf = st.ref(SymStr(()))
    t0 = time.time()
    outs = ex.run_fn(st, fn, [st.ref(regexp), buf])
    ctx.finish(ob, ex, t0)
    ob.paths = len(outs)
    bads = []
    for o in outs:
        if o.panic:
            bads.append(z3.And(*o.st.pc))
            ob.classes_seen['panic'] = ob.classes_seen.get('panic', 0) + 1
            continue
        items = list(o.st.load(buf).items)
        # the setting flags are decided on each path (the printer branches on them); read them off the path condition
        def decided(b):
            if ex.must(o.st, b):
                return True
            if ex.must(o.st, z3.Not(b)):
                return False
            return None
        v_, ci_, nsa_, nea_ = decided(vb), decided(ci), decided(nsa), decided(nea)
        if None in (v_, ci_, nsa_, nea_):
            raise Inconclusive('a presentation flag is undecided on a path of Display for RegExp')
        cls = '%s%s%s%s' % ('x' if v_ else '-', 'i' if ci_ else '-', '-' if nsa_ else '^', '-' if nea_ else '$')
        ob.classes_seen[cls] = ob.classes_seen.get(cls, 0) + 1
        if v_:
            # under (?x) unescaped spaces / line breaks are insignificant: the flag must come first, then compare modulo them
            head = '(?ix)' if ci_ else '(?x)'
            if cps(items[:len(head)]) != [ord(ch) for ch in head]:
                bads.append(z3.And(*o.st.pc))
                continue
            rest = strip_verbose_whitespace(items[len(head):])
            alts_fn = verbose_literal_alternatives
        else:
            head = '(?i)' if ci_ else ''
            if cps(items[:len(head)]) != [ord(ch) for ch in head]:
                bads.append(z3.And(*o.st.pc))
                continue
            rest = items[len(head):]
            alts_fn = plain_literal_alternatives
        slots = []
        if not nsa_:
            slots.append([(z3.BoolVal(True), [BV(ord('^'), 32)])])
        for c in cs:
            slots.append(alts_fn(ctx, c, esc, surr))
        if not nea_:
            slots.append([(z3.BoolVal(True), [BV(ord('$'), 32)])])

        def splits(pos, i):
            if i == len(slots):
                return z3.BoolVal(pos == len(rest))
            ds = []
            for gd, ref in slots[i]:
                L = len(ref)
                if pos + L <= len(rest):
                    ds.append(z3.And(gd, *[a == b for a, b in zip(rest[pos:pos + L], ref)], splits(pos + L, i + 1)))
            return z3.Or(*ds) if ds else z3.BoolVal(False)
        bads.append(z3.And(*o.st.pc, z3.Not(splits(0, 0))))
    ob.classes_expected = ['--^$', 'x-^$', '-i^$', '----']
    ctx.check_classes(ob)
    vars_ = cs + [esc, surr, ci, vb, nsa, nea]
    ob.verdict = decide(ob.qid, assume + ob.defs, z3.Or(*bads), vars_, all_sat=True, max_models=ctx.cap('Q06d'),
                        second=ctx.second, workdir=ctx.workdir, second_timeout_s=getattr(ctx, 'second_timeout', 60), block_vars=cs + [vb])
    return ob


@guarded
def qlem(ctx):
    """QLEM: the facts about std's one-code-point case mapping that the abstracted obligations assume, decided on the real dump"""
    ob = Obligation('QLEM', qlem.__doc__)
    ob.domain = 'every scalar value (tables only: std to_lowercase / to_uppercase dump of the build toolchain; no grex code)'
    ob.bound = 'none'
    x = z3.BitVec('x', 32)
    lem = z3.And(*lowercase_lemmas(x))
    real = concretize_all(ctx, z3.And(valid_char(x), z3.Not(lem)))
    ob.paths = 1
    ob.classes_seen['table-lemma'] = 1
    ob.functions = ['(oracle tables only)']
    ob.verdict = decide('QLEM', [], real, [x], logic='QF_BV', timeout_s=300, second=ctx.second if ctx.tier == 'thorough' else (),
                        workdir=ctx.workdir, second_timeout_s=getattr(ctx, 'second_timeout', 60))
    return ob


# =========================================================================== Q16m  minimisation preserves the language
def right_languages(st, dfa):
    """state -> list of words (right language), for acyclic automata"""
    graph = dfa.get('graph')
    finals = set(concrete(x) for x in dfa.get('final_state_indices').get('items').items)
    edges = {}
    for e in graph.get('edges').items:
        s_, t_, w = concrete(e.fields[0]), concrete(e.fields[1]), e.fields[2]
        chars, _reps, mn, mx = grapheme_fields(st, w)
        unit = [x for u_ in chars.items for x in as_str(st, u_).items]
        edges.setdefault(s_, []).append((t_, unit, concrete(mn), concrete(mx)))
    memo = {}

    def rl(node, stack):
        if node in memo:
            return memo[node]
        if node in stack:
            raise Inconclusive('cycle in the automaton')
        out = [[]] if node in finals else []
        for t_, unit, lo, hi in edges.get(node, []):
            for k in range(lo, hi + 1):
                for w in rl(t_, stack | {node}):
                    out.append(unit * k + w)
        if len(out) > 3000:
            raise Inconclusive('right language too large')
        memo[node] = out
        return out
    n = len(graph.get('nodes').items)
    return {i: rl(i, frozenset()) for i in range(n)}, edges


def set_eq(A, B):
    inc = [z3.Or(*[words_eq(w, t) for t in B]) if B else z3.BoolVal(False) for w in A]
    exc = [z3.Or(*[words_eq(w, t) for w in A]) if A else z3.BoolVal(False) for t in B]
    return z3.And(*(inc + exc)) if (inc or exc) else z3.BoolVal(True)


@guarded
def q16m(ctx, shape=(2, 2), max_count=1, letters=False, with_empty=False):
    """Q16m: Dfa::minimize + recreate_graph preserve the language of the trie; with single-symbol edges the result is deterministic and no two states share a right language"""
    ob = Obligation('Q16m[%s%s]%s%s' % (','.join(map(str, shape)), '+empty' if with_empty else '', '' if max_count == 1 else '[counts<=%d]' % max_count,
                                        '[letters]' if letters else ''), q16m.__doc__)
    ob.domain = ('%d clusters of %s graphemes%s (one code point each, %s, neighbouring graphemes differ), repeat counts %s; the trie of '
                 'Dfa::from(.., false) is the reference' % (len(shape), '/'.join(map(str, shape)), ' plus the empty test case' if with_empty else '',
                                                           'a..z' if letters else 'every scalar value', '1' if max_count == 1 else '1..=%d' % max_count))
    ob.bound = 'exactly this shape'
    import itertools
    ex = ctx.new_exec()
    cvars = [[z3.BitVec('v%d_%d' % (i, j), 32) for j in range(n)] for i, n in enumerate(shape)]
    flatc = [c for cs_ in cvars for c in cs_]
    kvars = [[z3.BitVec('k%d_%d' % (i, j), 32) for j in range(n)] for i, n in enumerate(shape)]
    flatk = [k for ks in kvars for k in ks]
    assume = []
    for i, n in enumerate(shape):
        for j in range(n):
            c = cvars[i][j]
            assume.append(valid_char(c))
            if letters:
                assume += [z3.UGE(c, BV(0x61, 32)), z3.ULE(c, BV(0x7A, 32))]
            if j:
                assume.append(c != cvars[i][j - 1])
    kassume = [z3.And(z3.UGE(k, BV(1, 32)), z3.ULE(k, BV(max_count, 32))) for k in flatk]
    fn = ctx.mir.one_fn(r'^dfa::<impl at [^>]*>::from$')
    t0 = time.time()
    bads = []
    npaths = 0
    for counts in itertools.product(range(1, max_count + 1), repeat=len(flatk)):
        here = z3.And(*[k == BV(v, 32) for k, v in zip(flatk, counts)])
        st = State(pc=list(assume))
        cfgv = config_value(ctx)
        cfg = st.ref(cfgv)
        flags = (cfgv.get('is_capturing_group_enabled'), cfgv.get('is_output_colorized'), cfgv.get('is_verbose_mode_enabled'))
        clusters, expected = [], []
        it = iter(counts)
        if with_empty:
            clusters.append(cluster_value(ctx, st, [], cfg))
            expected.append([])
        for i, n in enumerate(shape):
            gs, word = [], []
            for j in range(n):
                kk = next(it)
                gs.append(grapheme_value(ctx, st, [[cvars[i][j]]], kk, kk, flags))
                word += [cvars[i][j]] * kk
            clusters.append(cluster_value(ctx, st, gs, cfg))
            expected.append(word)
        lst = st.ref(ListV(clusters))
        for o in ex.run_fn(st, fn, [lst, z3.BoolVal(False), cfg]):
            if o.panic:
                bads.append(z3.And(here, *o.st.pc))
                continue
            trie_words, _n, _e = trie_language(o.st, o.val)
            for o2 in ex.run_fn(o.st, fn, [lst, z3.BoolVal(True), cfg]):
                npaths += 1
                if o2.panic:
                    bads.append(z3.And(here, *o2.st.pc))
                    ob.classes_seen['panic'] = ob.classes_seen.get('panic', 0) + 1
                    continue
                min_words, n_nodes, n_edges = trie_language(o2.st, o2.val)
                cls = 'states=%d' % n_nodes
                ob.classes_seen[cls] = ob.classes_seen.get(cls, 0) + 1
                conds = [set_eq(trie_words, min_words)]
                if max_count == 1:
                    rls, edges = right_languages(o2.st, o2.val)
                    # deterministic: no state has two outgoing edges with the same label
                    for s_, outs_ in edges.items():
                        for a_ in range(len(outs_)):
                            for b_ in range(a_ + 1, len(outs_)):
                                conds.append(z3.Not(words_eq(outs_[a_][1], outs_[b_][1])))
                    # minimal: reachable states have pairwise different right languages
                    init = o2.val.get('initial_state').p[0]
                    reach, todo = {init}, [init]
                    while todo:
                        x = todo.pop()
                        for t_, _u, _lo, _hi in edges.get(x, []):
                            if t_ not in reach:
                                reach.add(t_)
                                todo.append(t_)
                    rs = sorted(reach)
                    for a_ in range(len(rs)):
                        for b_ in range(a_ + 1, len(rs)):
                            conds.append(z3.Not(set_eq(rls[rs[a_]], rls[rs[b_]])))
                bads.append(z3.And(here, *o2.st.pc, z3.Not(z3.And(*conds))))
    ctx.finish(ob, ex, t0)
    ob.paths = npaths
    allv = flatc + flatk

    def blocker(m):
        vals = [m.eval(c, model_completion=True).as_long() for c in flatc]
        parts = [k == m.eval(k, model_completion=True) for k in flatk]
        for i in range(len(flatc)):
            for j in range(i + 1, len(flatc)):
                parts.append((flatc[i] == flatc[j]) if vals[i] == vals[j] else (flatc[i] != flatc[j]))
        return z3.Not(z3.And(*parts))
    ob.verdict = decide(ob.qid, assume + kassume + ob.defs, z3.Or(*bads) if bads else z3.BoolVal(False), allv, all_sat=True,
                        max_models=ctx.cap('Q16m'), second=ctx.second, workdir=ctx.workdir,
                        second_timeout_s=getattr(ctx, 'second_timeout', 60), blocker=blocker)
    return ob


# =========================================================================== Q16e  state elimination (Expression::from)
def cluster_words(st, cl):
    """words denoted by a GraphemeCluster inside a Literal: every grapheme contributes value^k for k in min..=max"""
    cl = deref(st, cl)
    words = [[]]
    for g in cl.get('graphemes').items:
        chars, reps, mn, mx = grapheme_fields(st, g)
        unit = [x for u_ in chars.items for x in as_str(st, u_).items]
        lo, hi = concrete(mn), concrete(mx)
        if lo is None or hi is None:
            raise Inconclusive('grapheme with a symbolic count inside an expression')
        words = [w + unit * k for w in words for k in range(lo, hi + 1)]
    return words


def expression_language(st, e, limit=3000):
    """the (finite) language of an Expression value as lists of code-point terms"""
    e = deref(st, e)
    if not isinstance(e, EnumV) or e.enum != 'Expression':
        raise Inconclusive('not an Expression: %r' % (e,))
    v = e.variant
    if v == 'Literal':
        return cluster_words(st, e.fields[0])
    if v == 'CharacterClass':
        return [[x] for x in deref(st, e.fields[0]).get('items').items]
    if v == 'Alternation':
        out = []
        for o in deref(st, e.fields[0]).items:
            out += expression_language(st, o, limit)
        if len(out) > limit:
            raise Inconclusive('expression language too large')
        return out
    if v == 'Concatenation':
        a = expression_language(st, e.fields[0], limit)
        b = expression_language(st, e.fields[1], limit)
        if len(a) * len(b) > limit:
            raise Inconclusive('expression language too large')
        return [x + y for x in a for y in b]
    if v == 'Repetition':
        q = deref(st, e.fields[1])
        if q.variant != 'QuestionMark':
            raise InfiniteLanguage('Kleene star in the expression of an acyclic automaton')
        return expression_language(st, e.fields[0], limit) + [[]]
    raise Inconclusive('expression variant ' + v)


def expr_shape(st, e):
    e = deref(st, e)
    v = e.variant
    if v == 'Literal':
        return 'L%d' % len(deref(st, e.fields[0]).get('graphemes').items)
    if v == 'CharacterClass':
        return 'C%d' % len(deref(st, e.fields[0]).get('items').items)
    if v == 'Alternation':
        return 'A(%s)' % '|'.join(expr_shape(st, o) for o in deref(st, e.fields[0]).items)
    if v == 'Concatenation':
        return '(%s.%s)' % (expr_shape(st, e.fields[0]), expr_shape(st, e.fields[1]))
    if v == 'Repetition':
        return '%s?' % expr_shape(st, e.fields[0])
    return v


@guarded
def q16e(ctx, shape=(2, 2), letters=False, minimized=True):
    """Q16e: the expression obtained by state elimination (Expression::from) denotes the language of the automaton it is given"""
    ob = Obligation('Q16e[%s]%s%s' % (','.join(map(str, shape)), '' if minimized else '[trie]', '[letters]' if letters else ''), q16e.__doc__)
    ob.domain = ('%d clusters of %s one-code-point graphemes (%s, neighbouring graphemes differ, counts 1): Dfa::from(.., %s) then '
                 'Expression::from; all settings symbolic' % (len(shape), '/'.join(map(str, shape)), 'a..z' if letters else 'every scalar value',
                                                              'true' if minimized else 'false'))
    ob.bound = 'exactly this shape'
    ex = ctx.new_exec()
    cvars = [[z3.BitVec('v%d_%d' % (i, j), 32) for j in range(n)] for i, n in enumerate(shape)]
    flatc = [c for cs_ in cvars for c in cs_]
    assume = []
    for i, n in enumerate(shape):
        for j in range(n):
            c = cvars[i][j]
            assume.append(valid_char(c))
            if letters:
                assume += [z3.UGE(c, BV(0x61, 32)), z3.ULE(c, BV(0x7A, 32))]
            if j:
                assume.append(c != cvars[i][j - 1])
    st = State(pc=list(assume))
    cfgv = config_value(ctx)
    cfg = st.ref(cfgv)
    flags = (cfgv.get('is_capturing_group_enabled'), cfgv.get('is_output_colorized'), cfgv.get('is_verbose_mode_enabled'))
    clusters = []
    for i, n in enumerate(shape):
        clusters.append(cluster_value(ctx, st, [grapheme_value(ctx, st, [[cvars[i][j]]], 1, 1, flags) for j in range(n)], cfg))
    lst = st.ref(ListV(clusters))
    f_dfa = ctx.mir.one_fn(r'^dfa::<impl at [^>]*>::from$')
    f_expr = ctx.mir.one_fn(r'^expression::<impl at [^>]*>::from$')
    gc_models = [(P(r'^<str as UnicodeSegmentation>::graphemes$'), m_graphemes_one_cluster_or_empty)] + make_gc_models(ctx)
    ex = ctx.new_exec(gc_models)
    t0 = time.time()
    bads = []
    npaths = 0
    for o in ex.run_fn(st, f_dfa, [lst, z3.BoolVal(minimized), cfg]):
        if o.panic:
            bads.append(z3.And(*o.st.pc))
            continue
        dfa_words, n_nodes, _e = trie_language(o.st, o.val)
        for o2 in ex.run_fn(o.st, f_expr, [o.val, cfg]):
            npaths += 1
            if o2.panic:
                bads.append(z3.And(*o2.st.pc))
                ob.classes_seen['panic'] = ob.classes_seen.get('panic', 0) + 1
                continue
            try:
                words = expression_language(o2.st, o2.val)
            except InfiniteLanguage:
                ob.classes_seen['unbounded-quantifier'] = ob.classes_seen.get('unbounded-quantifier', 0) + 1
                bads.append(z3.And(*o2.st.pc))
                continue
            cls = expr_shape(o2.st, o2.val)
            ob.classes_seen[cls] = ob.classes_seen.get(cls, 0) + 1
            bads.append(z3.And(*o2.st.pc, z3.Not(set_eq(dfa_words, words))))
    ctx.finish(ob, ex, t0)
    ob.paths = npaths

    def blocker(m):
        vals = [m.eval(c, model_completion=True).as_long() for c in flatc]
        parts = []
        for i in range(len(flatc)):
            for j in range(i + 1, len(flatc)):
                parts.append((flatc[i] == flatc[j]) if vals[i] == vals[j] else (flatc[i] != flatc[j]))
        return z3.Not(z3.And(*parts)) if parts else z3.BoolVal(False)
    ob.verdict = decide(ob.qid, assume + ob.defs, z3.Or(*bads) if bads else z3.BoolVal(False), flatc, all_sat=True,
                        max_models=ctx.cap('Q16e'), second=ctx.second, workdir=ctx.workdir,
                        second_timeout_s=getattr(ctx, 'second_timeout', 60), blocker=blocker)
    return ob


def m_graphemes_one_cluster_or_empty(ex, st, fr, callee, a, depth):
    """stub: graphemes("") yields nothing; any other input is ASSUMED to be one extended grapheme cluster"""
    s_ = as_str(st, a[0])
    return IterV('list', items=()) if not s_.items else IterV('list', items=(a[0],))


# =========================================================================== Q02e  the whole pipeline up to the AST (RegExp::from)
def m_graphemes_per_letter(ex, st, fr, callee, a, depth):
    """stub: UnicodeSegmentation::graphemes on a string of ASCII LETTERS yields one cluster per letter (the obligation assumes a..z)"""
    s_ = as_str(st, a[0])
    return IterV('list', items=tuple(st.ref(SymStr([x])) for x in s_.items))


@guarded
def q02e(ctx, lens=(2, 2), with_empty=False, clause='exact', repetitions=False):
    """Q02e: RegExp::from (the whole pipeline up to the AST) builds an expression whose language is exactly the set of test cases"""
    name = {'exact': 'Q02e', 'sound': 'Q01e'}[clause]
    ob = Obligation('%s[%s%s]%s' % (name, ','.join(map(str, lens)), '+empty' if with_empty else '', '[repetitions]' if repetitions else ''),
                    q02e.__doc__ if clause == 'exact' else 'Q01e: RegExp::from builds an expression whose language contains every test case')
    ob.domain = ('%d test cases of %s letters a..z (every equality pattern)%s; default settings%s (anchors on, so the self-check branch that '
                 'compiles the candidate with the regex engine is not taken)'
                 % (len(lens), '/'.join(map(str, lens)), ' plus the empty test case' if with_empty else '',
                    ' + conversion of repetitions' if repetitions else ''))
    ob.bound = 'exactly these lengths'
    cases = [[z3.BitVec('s%d_%d' % (i, j), 32) for j in range(n)] for i, n in enumerate(lens)]
    allv = [v for c in cases for v in c]
    assume = [z3.And(z3.UGE(v, BV(0x61, 32)), z3.ULE(v, BV(0x7A, 32))) for v in allv]
    fields = ctx.mir.structs.get('RegExpConfig')
    off = {k: (BV(1, 32) if k.startswith('minimum_') else z3.BoolVal(False)) for k in fields}
    off['is_repetition_converted'] = z3.BoolVal(bool(repetitions))
    cfgv = config_value(ctx, off)
    ex = ctx.new_exec([(P(r'^<str as UnicodeSegmentation>::graphemes$'), m_graphemes_per_letter)] + make_gc_models(ctx))
    st = State(pc=list(assume))
    cfg = st.ref(cfgv)
    inputs = ([[]] if with_empty else []) + cases
    v = st.ref(ListV([SymStr(c) for c in inputs]))
    fn = ctx.mir.one_fn(r'^regexp::<impl at [^>]*>::from$')
    t0 = time.time()
    outs = ex.run_fn(st, fn, [v, cfg])
    ctx.finish(ob, ex, t0)
    ob.paths = len(outs)
    bads = []
    for o in outs:
        if o.panic:
            bads.append(z3.And(*o.st.pc))
            ob.classes_seen['panic'] = ob.classes_seen.get('panic', 0) + 1
            continue
        ast = deref(o.st, o.val).get('ast')
        try:
            words = expression_language(o.st, ast)
        except InfiniteLanguage:
            ob.classes_seen['unbounded-quantifier'] = ob.classes_seen.get('unbounded-quantifier', 0) + 1
            bads.append(z3.And(*o.st.pc))
            continue
        cls = expr_shape(o.st, ast)
        ob.classes_seen[cls] = ob.classes_seen.get(cls, 0) + 1
        if clause == 'exact':
            bads.append(z3.And(*o.st.pc, z3.Not(set_eq(inputs, words))))
        else:
            inc = [z3.Or(*[words_eq(w, t) for t in words]) if words else z3.BoolVal(False) for w in inputs]
            bads.append(z3.And(*o.st.pc, z3.Not(z3.And(*inc))))

    def blocker(m):
        vals = [m.eval(c, model_completion=True).as_long() for c in allv]
        parts = []
        for i in range(len(allv)):
            for j in range(i + 1, len(allv)):
                parts.append((allv[i] == allv[j]) if vals[i] == vals[j] else (allv[i] != allv[j]))
        return z3.Not(z3.And(*parts)) if parts else z3.BoolVal(False)
    ob.verdict = decide(ob.qid, assume + ob.defs, z3.Or(*bads) if bads else z3.BoolVal(False), allv, all_sat=True,
                        max_models=ctx.cap(name), second=ctx.second, workdir=ctx.workdir,
                        second_timeout_s=getattr(ctx, 'second_timeout', 60), blocker=blocker)
    return ob


# =========================================================================== Q05g  a quantifier applies to the whole unit
@guarded
def q05g(ctx, n=2, ranged=False, realisable=False, all_counts=False):
    """Q05g: Display for a literal holding ONE quantified grapheme: the {k} / {m,k} quantifier applies to the whole unit (multi-character units are grouped)"""
    ob = Obligation('Q05g[n=%d%s]%s' % (n, ',range' if ranged else '', '[realisable]' if realisable and n > 1 else ''), q05g.__doc__)
    ob.domain = ('Expression::Literal of one grapheme whose unit has %d code point(s), every scalar value each (no backslash in multi-code-point units: Q07g), '
                 'repeat count %s; escaping / surrogates / capturing symbolic, verbose and highlighting off' % (n, 'min < max, both 1..=3' if ranged else 'min = max in 2..=3'))
    ob.bound = 'units of exactly %d code points; counts <= 3' % n
    cs = [z3.BitVec('c%d' % i, 32) for i in range(n)]
    assume = [valid_char(c) for c in cs]
    if n > 1:
        assume += [c != BV(92, 32) for c in cs]
    if realisable and n > 1:
        assume += realisable_unit(ctx, cs)
        ob.domain += REALISABLE_NOTE
    variants = ctx.mir.enums.get('Expression')
    fn = display_fmt_name(ctx, 'Expression')
    ex = ctx.new_exec([(P(r'^<str as UnicodeSegmentation>::graphemes$'), m_graphemes_one_cluster)] if (realisable and n > 1) else [])
    t0 = time.time()
    bads = []
    npaths = 0
    counts = [(a, b) for a in (1, 2, 3) for b in (1, 2, 3) if (a < b if ranged else (a == b and a > 1))]
    if not all_counts:
        counts = counts[:1]
        ob.bound += '; this tier: counts %s only' % (counts[0],)
    esc0, surr0, cap0 = z3.Bool('cfg_is_non_ascii_char_escaped'), z3.Bool('cfg_is_astral_code_point_converted_to_surrogate'), z3.Bool('cfg_is_capturing_group_enabled')
    sel = z3.BitVec('count_case', 32)
    for ci_, (mn, mx) in enumerate(counts):
        st = State(pc=list(assume))
        fixed = {'is_output_colorized': z3.BoolVal(False), 'is_verbose_mode_enabled': z3.BoolVal(False)}
        if not all_counts:
            # quick tier: capturing groups and surrogate pairs off (both symbolic in the thorough tier)
            fixed.update({'is_capturing_group_enabled': z3.BoolVal(False), 'is_astral_code_point_converted_to_surrogate': z3.BoolVal(False)})
        cfgv = config_value(ctx, fixed)
        cfg = st.ref(cfgv)
        esc, surr, cap = cfgv.get('is_non_ascii_char_escaped'), cfgv.get('is_astral_code_point_converted_to_surrogate'), cfgv.get('is_capturing_group_enabled')
        g = grapheme_value(ctx, st, [cs], mn, mx, (cap, z3.BoolVal(False), z3.BoolVal(False)))
        ast = EnumV('Expression', 'Literal', variants.index('Literal'), (cluster_value(ctx, st, [g], cfg), esc, surr))
        buf = st.ref(SymStr(()))
        for o in ex.run_fn(st, fn, [st.ref(ast), buf]):
            npaths += 1
            if o.panic:
                bads.append(z3.And(sel == ci_, *o.st.pc))
                continue
            items = list(o.st.load(buf).items)
            qtxt = '{%d}' % mn if mn == mx else '{%d,%d}' % (mn, mx)
            q = [ord(ch) for ch in qtxt]
            if cps(items[-len(q):]) != q:
                bads.append(z3.And(sel == ci_, *o.st.pc))
                ob.classes_seen['no-quantifier'] = ob.classes_seen.get('no-quantifier', 0) + 1
                continue
            body = items[:-len(q)]
            grouped = None
            for opener in ('(?:', '('):
                op = [ord(ch) for ch in opener]
                if cps(body[:len(op)]) == op and body and concrete(body[-1]) == ord(')'):
                    grouped = body[len(op):-1]
                    break
            cls = 'grouped' if grouped is not None else 'bare'
            ob.classes_seen[cls] = ob.classes_seen.get(cls, 0) + 1
            inner = grouped if grouped is not None else body
            alts = [literal_text_alternatives(ctx, c, esc, surr) for c in cs]

            def splits(pos, i):
                if i == n:
                    return z3.BoolVal(pos == len(inner))
                ds = []
                for gd, ref in alts[i]:
                    L = len(ref)
                    if pos + L <= len(inner):
                        ds.append(z3.And(gd, *[a == b for a, b in zip(inner[pos:pos + L], ref)], splits(pos + L, i + 1)))
                return z3.Or(*ds) if ds else z3.BoolVal(False)
            okc = splits(0, 0)
            if grouped is None and n > 1:
                okc = z3.BoolVal(False)        # a bare multi-character unit: the quantifier binds to its last character only
            if grouped is None and n == 1:
                # a bare single character is fine unless its text is a surrogate PAIR (two escapes)
                okc = z3.And(okc, z3.Not(z3.And(esc, surr, z3.UGE(cs[0], BV(0x10000, 32)))))
            bads.append(z3.And(sel == ci_, *o.st.pc, z3.Not(okc)))
    ctx.finish(ob, ex, t0)
    ob.paths = npaths
    ob.classes_expected = ['grouped'] if n > 1 else ['bare']
    ctx.check_classes(ob)
    vars_ = cs + [esc0, surr0, cap0, sel]
    ob.extra['count_cases'] = counts
    ob.verdict = decide(ob.qid, assume + ob.defs + [z3.ULT(sel, BV(len(counts), 32))], z3.Or(*bads), vars_, all_sat=True,
                        max_models=ctx.cap('Q05g'), second=ctx.second, workdir=ctx.workdir,
                        second_timeout_s=getattr(ctx, 'second_timeout', 60), block_vars=cs)
    return ob


# =========================================================================== Q02t  the whole of build(): the language of the printed pattern
class PatternParser:
    """parses the pattern text grex prints -- a list of items, each a concrete code point or a symbolic one (a literal
    character of a test case) -- and returns its (finite) language as a list of words of code-point terms.
    Grammar: alternation of concatenations of atoms with ? {n} {m,n}; atoms: groups, character classes, escapes, literals."""

    def __init__(self, ex, st, items, oracle=None, surrogates=False):
        self.ex, self.st, self.items, self.i, self.oracle = ex, st, list(items), 0, oracle
        self.surrogates = surrogates      # re-pair \u{d8xx}\u{dcxx} escapes into one code point (output of the surrogate option)
        self.side = []                    # conditions under which the BARE symbolic characters met so far are literals for the regex crate
        self.lazy = False                 # a lazy quantifier was seen (irrelevant for the language, relevant for search order)

    def peek(self):
        return concrete(self.items[self.i]) if self.i < len(self.items) else None

    def at(self, text):
        cs = [ord(c) for c in text]
        return cps(self.items[self.i:self.i + len(cs)]) == cs

    def parse(self):
        start = end = False
        if self.at('^'):
            self.i += 1
            start = True
        words = self.alternation()
        if self.at('$') and self.i == len(self.items) - 1:
            self.i += 1
            end = True
        if self.i != len(self.items):
            raise Inconclusive('pattern text not fully parsed at position %d' % self.i)
        return words, start, end

    def alternation(self):
        out = self.concatenation()
        while self.at('|'):
            self.i += 1
            out = out + self.concatenation()
        return out

    def concatenation(self):
        words = [[]]
        while self.i < len(self.items):
            c = self.peek()
            if c in (ord('|'), ord(')')) or (c == ord('$') and self.i == len(self.items) - 1):
                break
            a = self.quantified()
            if len(words) * len(a) > 5000:
                raise Inconclusive('pattern language too large')
            words = [w + x for w in words for x in a]
        return words

    def lazy_mark(self):
        # a '?' directly after a quantifier makes it lazy: same language, other preference order
        if self.at('?'):
            self.i += 1
            self.lazy = True

    def quantified(self):
        a = self.atom()
        if self.at('?'):
            self.i += 1
            self.lazy_mark()
            return a + [[]]
        if self.at('*') or self.at('+'):
            raise InfiniteLanguage('unbounded quantifier in the printed pattern')
        if self.at('{'):
            j = self.i + 1
            txt = ''
            while j < len(self.items) and concrete(self.items[j]) is not None and chr(concrete(self.items[j])) in '0123456789,':
                txt += chr(concrete(self.items[j]))
                j += 1
            if j < len(self.items) and concrete(self.items[j]) == ord('}') and txt:
                self.i = j + 1
                self.lazy_mark()
                lo, hi = (int(txt), int(txt)) if ',' not in txt else tuple(int(x) for x in txt.split(','))
                out = []
                for k in range(lo, hi + 1):
                    ws = [[]]
                    for _ in range(k):
                        ws = [w + x for w in ws for x in a]
                    out += ws
                return out
        return a

    def atom(self):
        c = self.peek()
        if self.at('(?:'):
            self.i += 3
            w = self.alternation()
            if not self.at(')'):
                raise Inconclusive('unbalanced group in the printed pattern')
            self.i += 1
            return w
        if c == ord('('):
            self.i += 1
            w = self.alternation()
            if not self.at(')'):
                raise Inconclusive('unbalanced group in the printed pattern')
            self.i += 1
            return w
        if c == ord('['):
            self.i += 1
            members = []
            while not self.at(']'):
                if self.i >= len(self.items):
                    raise Inconclusive('unterminated character class')
                lo = self.class_char()
                if self.at('-') and not cps(self.items[self.i + 1:self.i + 2]) == [ord(']')]:
                    self.i += 1
                    hi = self.class_char()
                    k = None
                    for d in range(0, 64):
                        if self.ex.must(self.st, hi == lo + BV(d, 32)):
                            k = d
                            break
                    if k is None:
                        members.append(RS.Range(lo, hi))      # width not fixed by the path condition: kept as a range
                    else:
                        members += [z3.simplify(lo + BV(d, 32)) for d in range(k + 1)]
                else:
                    members.append(lo)
            self.i += 1
            return [[m] for m in members]
        if c == 92:
            return [[self.escape()]]
        if c is not None and chr(c) in '.+*?|)^$]{}':
            if chr(c) in ']}' :
                self.i += 1
                return [[BV(c, 32)]]
            raise Inconclusive('unexpected metacharacter %r in the printed pattern at %d' % (chr(c), self.i))
        x = self.items[self.i]
        self.i += 1
        if c is None and self.oracle is not None and 'lit_bare_ok' in self.oracle:
            # a bare symbolic character stands for itself only if the regex crate reads it as that literal (not a metacharacter)
            cond = in_ranges(x, self.oracle['lit_bare_ok'])
            if not self.ex.must(self.st, cond):
                self.side.append(cond)
        return [[x]]

    def hex_escape(self):
        """at 'u{': the value of the hexadecimal digits up to '}' -- digits may be symbolic terms (the formatted code point of a test-case character)"""
        j = self.i + 2
        val, n = BV(0, 32), 0
        while j < len(self.items) and concrete(self.items[j]) != ord('}'):
            d = self.items[j]
            c = concrete(d)
            if c is not None:
                if chr(c) not in '0123456789abcdefABCDEF':
                    raise Inconclusive('non-hexadecimal character in a \\u{..} escape')
                dv = BV(int(chr(c), 16), 32)
            else:
                if not self.ex.must(self.st, z3.Or(z3.And(z3.UGE(d, BV(0x30, 32)), z3.ULE(d, BV(0x39, 32))), z3.And(z3.UGE(d, BV(0x61, 32)), z3.ULE(d, BV(0x66, 32))))):
                    raise Inconclusive('symbolic character in a \\u{..} escape that is not confined to 0-9a-f')
                dv = z3.If(z3.ULE(d, BV(0x39, 32)), d - BV(0x30, 32), d - BV(0x57, 32))
            val = val * BV(16, 32) + dv
            n += 1
            j += 1
        if n == 0 or n > 6 or j >= len(self.items):
            raise Inconclusive('malformed \\u{..} escape')
        self.i = j + 1
        return z3.simplify(val)

    def class_char(self):
        if self.peek() == 92:
            return self.escape()
        x = self.items[self.i]
        self.i += 1
        return x

    def escape(self):
        self.i += 1
        c = self.peek()
        if c is None and self.i < len(self.items) and self.oracle is not None:
            # backslash + symbolic character: a literal iff the path condition confines it to characters for which the
            # regex crate reads "\\c" as the literal c (oracle table)
            x = self.items[self.i]
            if self.ex.must(self.st, in_ranges(x, self.oracle['lit_backslash_ok'])):
                self.i += 1
                return x
        if c is None:
            raise Inconclusive('backslash followed by a symbolic character in the printed pattern')
        ch = chr(c)
        if ch == 'u' and self.at('u{'):
            v1 = self.hex_escape()
            if self.surrogates and self.at('\\u{'):
                hi_ok = z3.And(z3.UGE(v1, BV(0xD800, 32)), z3.ULE(v1, BV(0xDBFF, 32)))
                if self.ex.must(self.st, hi_ok):
                    self.i += 1
                    v2 = self.hex_escape()
                    if not self.ex.must(self.st, z3.And(z3.UGE(v2, BV(0xDC00, 32)), z3.ULE(v2, BV(0xDFFF, 32)))):
                        raise Inconclusive('high surrogate escape not followed by a low surrogate escape')
                    return z3.simplify(BV(0x10000, 32) + ((v1 - BV(0xD800, 32)) << 10) + (v2 - BV(0xDC00, 32)))
                if self.ex.feasible(self.st.pc, hi_ok):
                    raise Inconclusive('escape that may or may not be a high surrogate')
            return v1
        self.i += 1
        if ch in 'dDsSwWbB':
            raise Inconclusive('shorthand class in the printed pattern')
        return BV({'n': 10, 'r': 13, 't': 9, 'v': 11, 'f': 12}.get(ch, c), 32)


@guarded
def q02t(ctx, lens=(2, 2), with_empty=False, domain='letters', settings=None):
    """Q02t: the whole of build(): the language of the PRINTED pattern is exactly the set of test cases (and flags, anchors, group kinds are as requested)"""
    settings = dict(settings or {})
    stag = ''.join('[%s]' % k for k in sorted(settings) if settings[k])
    ob = Obligation('Q02t[%s%s]%s%s' % (','.join(map(str, lens)), '+empty' if with_empty else '', '' if domain == 'letters' else '[%s]' % domain, stag), q02t.__doc__)
    dom_txt = {'letters': 'letters a..z', 'ascii': 'printable ASCII (U+0020..U+007E, so every regex metacharacter) plus \\\\n and \\\\t',
               'latin1': 'Latin-1 letters and signs U+00C0..U+00FF (each its own grapheme cluster, none a mark)',
               'emoticons': 'astral code points U+1F600..U+1F64F (each its own grapheme cluster)'}[domain]
    ob.domain = ('%d test cases of %s characters, each %s (every equality pattern)%s; settings: %s' % (
        len(lens), '/'.join(map(str, lens)), dom_txt, ' plus the empty test case' if with_empty else '',
        ', '.join(k for k in sorted(settings) if settings[k]) or 'default'))
    ob.bound = 'exactly these lengths'
    cases = [[z3.BitVec('s%d_%d' % (i, j), 32) for j in range(n)] for i, n in enumerate(lens)]
    allv = [v for c in cases for v in c]
    if domain == 'letters':
        assume = [z3.And(z3.UGE(v, BV(0x61, 32)), z3.ULE(v, BV(0x7A, 32))) for v in allv]
    elif domain == 'latin1':
        assume = [z3.And(z3.UGE(v, BV(0xC0, 32)), z3.ULE(v, BV(0xFF, 32))) for v in allv]
    elif domain == 'emoticons':
        assume = [z3.And(z3.UGE(v, BV(0x1F600, 32)), z3.ULE(v, BV(0x1F64F, 32))) for v in allv]
    else:
        assume = [z3.Or(z3.And(z3.UGE(v, BV(0x20, 32)), z3.ULE(v, BV(0x7E, 32))), v == BV(10, 32), v == BV(9, 32)) for v in allv]
        assume += [z3.And(z3.UGE(v, BV(9, 32)), z3.ULE(v, BV(0x7E, 32))) for v in allv]     # redundant; lets table look-ups be clipped to the interval
    fields = ctx.mir.structs.get('RegExpConfig')
    off = {k: (BV(1, 32) if k.startswith('minimum_') else z3.BoolVal(False)) for k in fields}
    names = {'repetitions': 'is_repetition_converted', 'verbose': 'is_verbose_mode_enabled', 'capture': 'is_capturing_group_enabled',
             'no_start_anchor': 'is_start_anchor_disabled', 'no_end_anchor': 'is_end_anchor_disabled', 'escape': 'is_non_ascii_char_escaped',
             'surrogates': 'is_astral_code_point_converted_to_surrogate'}
    for k, val in settings.items():
        if k not in names:
            raise Inconclusive('setting %s is not supported by Q02t' % k)
        off[names[k]] = z3.BoolVal(bool(val))
    if settings.get('no_end_anchor') and with_empty:
        raise Inconclusive('end anchor disabled with an empty test case: the self-check of RegExp::from then depends on the empty-match rules of find_iter (not modelled)')
    cfgv = config_value(ctx, off)
    ex = ctx.new_exec([(P(r'^<str as UnicodeSegmentation>::graphemes$'), m_graphemes_per_letter)] + make_regex_search_models(ctx) + make_gc_models(ctx) +
                      make_regex_models(ctx, lambda x: orbit_rep(ctx, x)))
    st = State(pc=list(assume))
    cfg = st.ref(cfgv)
    inputs = ([[]] if with_empty else []) + cases
    v = st.ref(ListV([SymStr(c) for c in inputs]))
    f_from = ctx.mir.one_fn(r'^regexp::<impl at [^>]*>::from$')
    f_fmt = display_fmt_name(ctx, 'RegExp')
    t0 = time.time()
    bads = []
    npaths = 0
    for o in ex.run_fn(st, f_from, [v, cfg]):
        if o.panic:
            bads.append(z3.And(*o.st.pc))
            continue
        buf = o.st.ref(SymStr(()))
        for o2 in ex.run_fn(o.st, f_fmt, [o.st.ref(o.val), buf]):
            npaths += 1
            if o2.panic:
                bads.append(z3.And(*o2.st.pc))
                ob.classes_seen['panic'] = ob.classes_seen.get('panic', 0) + 1
                continue
            items = list(o2.st.load(buf).items)
            cls = re.sub(r'<[^>]*>', 'x', ''.join(chr(concrete(x)) if concrete(x) is not None else 'x' for x in items)).replace('\n', '/')
            ob.classes_seen[cls] = ob.classes_seen.get(cls, 0) + 1
            if settings.get('escape'):
                # with escaping the output is pure ASCII: no printed item may be a code point above U+007F
                na = [x for x in items if (concrete(x) is not None and concrete(x) >= 0x80) or (concrete(x) is None and not ex.must(o2.st, z3.ULT(x, BV(0x80, 32))))]
                if na:
                    ob.classes_seen['non-ascii-output'] = ob.classes_seen.get('non-ascii-output', 0) + 1
                    bads.append(z3.And(*o2.st.pc))
                    continue
            if settings.get('verbose'):
                head = [ord(ch) for ch in '(?x)']
                if cps(items[:len(head)]) != head:
                    bads.append(z3.And(*o2.st.pc))
                    continue
                items = strip_verbose_whitespace(items[len(head):])
            txt = ''.join(chr(concrete(x)) if concrete(x) is not None else 'x' for x in items)
            # group kinds: with capturing groups every group is capturing, without it none is
            def unescaped(i):
                k = 0
                while i - 1 - k >= 0 and txt[i - 1 - k] == '\\':
                    k += 1
                return k % 2 == 0
            opens = [i for i in range(len(txt)) if txt[i] == '(' and unescaped(i)]
            noncap = [i for i in opens if txt[i:i + 3] == '(?:']
            if (settings.get('capture') and noncap) or (not settings.get('capture') and len(noncap) != len(opens)):
                bads.append(z3.And(*o2.st.pc))
                continue
            try:
                P_ = PatternParser(ex, o2.st, items, ctx.oracle, surrogates=bool(settings.get('surrogates')))
                words, start, end = P_.parse()
            except InfiniteLanguage:
                ob.classes_seen['unbounded-quantifier'] = ob.classes_seen.get('unbounded-quantifier', 0) + 1
                bads.append(z3.And(*o2.st.pc))
                continue
            if start != (not settings.get('no_start_anchor')) or end != (not settings.get('no_end_anchor')):
                bads.append(z3.And(*o2.st.pc))
                continue
            if P_.side:
                # a character printed bare must be one the regex crate reads as that literal (not a metacharacter)
                bads.append(z3.And(*o2.st.pc, z3.Not(z3.And(*P_.side))))
            if all(is_bv(e_) for w_ in words for e_ in w_):
                bads.append(z3.And(*o2.st.pc, z3.Not(set_eq(inputs, words))))
            else:
                # some position is a class range of undetermined width: compare the languages through a fresh candidate string
                diffs = []
                for L in sorted(set(len(w_) for w_ in words) | set(len(t_) for t_ in inputs)):
                    xq = [z3.BitVec('xq%d' % i, 32) for i in range(L)]
                    inP = [RS.word_match(w_, xq, 0, ctx.oracle) for w_ in words if len(w_) == L]
                    inS = [z3.And(*[a_ == b_ for a_, b_ in zip(t_, xq)]) if t_ else z3.BoolVal(True) for t_ in inputs if len(t_) == L]
                    diffs.append(z3.And(z3.BitVec('xqlen', 32) == BV(L, 32), *[valid_char(x_) for x_ in xq], z3.Xor(z3.Or(*inP) if inP else z3.BoolVal(False), z3.Or(*inS) if inS else z3.BoolVal(False))))
                bads.append(z3.And(*o2.st.pc, z3.Or(*diffs)))
            if getattr(ctx, 'debug_paths', None) is not None:
                ctx.debug_paths.append((list(o2.st.pc), items, words))
    ctx.finish(ob, ex, t0)
    ob.paths = npaths
    if len(ob.classes_seen) > 40:
        ob.classes_seen = dict(sorted(ob.classes_seen.items(), key=lambda kv: -kv[1])[:40])

    def blocker(m):
        vals = [m.eval(c, model_completion=True).as_long() for c in allv]
        if domain != 'letters':
            return z3.Or(*[c != BV(x, 32) for c, x in zip(allv, vals)])
        parts = []
        for i in range(len(allv)):
            for j in range(i + 1, len(allv)):
                parts.append((allv[i] == allv[j]) if vals[i] == vals[j] else (allv[i] != allv[j]))
        return z3.Not(z3.And(*parts)) if parts else z3.BoolVal(False)
    xq_all = [z3.BitVec('xq%d' % i, 32) for i in range(max(lens) + 2)] + [z3.BitVec('xqlen', 32)]
    ob.verdict = decide(ob.qid, assume + ob.defs, z3.Or(*bads) if bads else z3.BoolVal(False), allv + xq_all, all_sat=True,
                        max_models=ctx.cap('Q02t'), second=ctx.second, workdir=ctx.workdir,
                        second_timeout_s=getattr(ctx, 'second_timeout', 60), blocker=blocker)
    return ob


# =========================================================================== Q08s  search clause: leftmost-first search returns the whole test case
def regex_words(ex, st, re_, oracle):
    """the pattern text held by a Regex value -> (words in leftmost-first priority order, start anchored, end anchored)"""
    if not (isinstance(re_, Opaque) and re_.tag == 'regex'):
        raise Inconclusive('regex operation on %r' % (re_,))
    pat = list(re_.p[0])
    return pattern_words(ex, st, pat, oracle)


def pattern_ast(ex, st, pat, oracle):
    P_ = PatternParser(ex, st, pat, oracle)
    start = end = False
    if P_.at('^'):
        P_.i += 1
        start = True
    ast = RS.parse_ast(P_)
    if P_.at('$') and P_.i == len(pat) - 1:
        P_.i += 1
        end = True
    if P_.i != len(pat):
        raise Inconclusive('pattern text not fully parsed at position %d' % P_.i)
    return ast, start, end


def pattern_words(ex, st, pat, oracle):
    ast, start, end = pattern_ast(ex, st, pat, oracle)
    return RS.ordered_words(ast), start, end


def quantifiers(ast):
    """every {n} / {m,n} node of a pattern AST as (lo, hi, length of the shortest word of the quantified unit)"""
    out = []

    def go(n):
        k = n[0]
        if k in ('alt', 'cat'):
            for c in n[1]:
                go(c)
        elif k == 'opt':
            go(n[1])
        elif k == 'rep':
            out.append((n[2], n[3], min(len(w) for w in RS.ordered_words(n[1]))))
            go(n[1])
    go(ast)
    return out


def byte_offsets(text):
    off = [z3.BitVecVal(0, 64)]
    for x in text:
        off.append(z3.simplify(off[-1] + M.utf8_len(x)))
    return off


def make_regex_search_models(ctx):
    """Regex::find_iter(..).count(), Regex::find, Match::start/end and <[T]>::rotate_right for the self-check of RegExp::from:
    the pattern text is parsed (syntax subset grex emits) and searched with leftmost-first semantics (mirsym/regexsem.py)"""
    def m_find_iter(ex, st, fr, callee, a, depth):
        return Opaque('matches', deref(st, a[0]), tuple(as_str(st, a[1]).items))

    def m_matches_count(ex, st, fr, callee, a, depth):
        mt = a[0] if isinstance(a[0], Opaque) else deref(st, a[0])
        words, sa, ea = regex_words(ex, st, mt.p[0], ctx.oracle)
        if sa or ea:
            raise Inconclusive('find_iter on an anchored pattern')
        return RS.count_matches(words, list(mt.p[1]), ctx.oracle)

    def m_regex_find(ex, st, fr, callee, a, depth):
        text = list(as_str(st, a[1]).items)
        words, sa, ea = regex_words(ex, st, deref(st, a[0]), ctx.oracle)
        if sa or ea:
            raise Inconclusive('find on an anchored pattern')
        found, s_, e_ = RS.find_terms(words, text, ctx.oracle, byte_offsets(text))
        outs = []
        for s2, t in ex.branch(st, found):
            outs.append((s2, EnumV('Option', 'Some', 1, (TupV([s_, e_], ['start', 'end'], 'Match'),)) if t else EnumV('Option', 'None', 0, ())))
        return outs

    def m_match_start(ex, st, fr, callee, a, depth):
        return deref(st, a[0]).get(0)

    def m_match_end(ex, st, fr, callee, a, depth):
        return deref(st, a[0]).get(1)

    def m_regex_to_string(ex, st, fr, callee, a, depth):
        re_ = deref(st, a[0])
        if not (isinstance(re_, Opaque) and re_.tag == 'regex'):
            raise Inconclusive('to_string on %r' % (re_,))
        return SymStr(re_.p[0])

    COLOUR = [ord(ch) for ch in '\x1b\\[(?:\\d+;\\d+|0)m']

    def m_replace_all(ex, st, fr, callee, a, depth):
        """Regex::replace_all(text, "") for the one pattern grex uses it with, ESC\\[(?:\\d+;\\d+|0)m, on a text whose ESC, '[', digits, ';'
        and 'm' inside colour codes are concrete characters (symbolic characters are payload)"""
        re_ = deref(st, a[0])
        if not (isinstance(re_, Opaque) and re_.tag == 'regex') or cps(re_.p[0]) != COLOUR:
            raise Inconclusive('replace_all with a pattern other than the colour-code pattern: %r' % (re_,))
        if as_str(st, a[2]).items:
            raise Inconclusive('replace_all with a non-empty replacement')
        items = list(as_str(st, a[1]).items)
        cs_ = [concrete(x) for x in items]
        isd = lambda k: k < len(items) and cs_[k] is not None and 0x30 <= cs_[k] <= 0x39
        out, i = [], 0
        while i < len(items):
            if cs_[i] is None:
                if not ex.must(st, items[i] != BV(0x1b, 32)):
                    raise Inconclusive('a symbolic character of the text may be ESC')
            if cs_[i] == 0x1b and i + 1 < len(items) and cs_[i + 1] == ord('['):
                j = i + 2
                k = j
                while isd(k):
                    k += 1
                end = None
                sym_inside = k < len(items) and cs_[k] is None      # the scan stopped at a symbolic character
                if k > j and k < len(items) and cs_[k] == ord(';'):
                    k2 = k + 1
                    while isd(k2):
                        k2 += 1
                    sym_inside = k2 < len(items) and cs_[k2] is None
                    if k2 > k + 1 and k2 < len(items) and cs_[k2] == ord('m'):
                        end = k2 + 1
                if end is None and j + 1 < len(items) and cs_[j] == 0x30 and cs_[j + 1] == ord('m'):
                    end = j + 2
                if end is None and sym_inside:
                    raise Inconclusive('symbolic character inside a possible colour code')
                if end is not None:
                    i = end
                    continue
            out.append(items[i])
            i += 1
        return SymStr(out)

    def m_rotate_right(ex, st, fr, callee, a, depth):
        r = M._list_ref(st, a[0])
        items = list(st.load(r).items)
        k = concrete(a[1])
        if k is None:
            raise Inconclusive('rotate_right by a symbolic amount')
        if items:
            k %= len(items)
            st.store(r, ListV(items[len(items) - k:] + items[:len(items) - k]))
        return UNIT
    return [(P(r'^(regex::)?Regex::find_iter$'), m_find_iter), (P(r"^<(regex::)?Matches<'_, '_> as Iterator>::count$"), m_matches_count),
            (P(r'^(regex::)?Regex::find$'), m_regex_find), (P(r"^(regex::)?Match::<'_>::start$"), m_match_start),
            (P(r"^(regex::)?Match::<'_>::end$"), m_match_end), (P(r'^core::slice::<impl \[.*\]>::rotate_right$'), m_rotate_right),
            (P(r'^<(regex::)?Regex as ToString>::to_string$'), m_regex_to_string), (P(r'^(regex::)?Regex::replace_all::<&str>$'), m_replace_all),
            (P(r"^<Cow<'_, str> as Deref>::deref$"), M.m_string_deref)]


@guarded
def q08s(ctx, lens=(2, 1), settings=None, domain='letters', runs=None):
    """Q08s: with an anchor disabled, a leftmost-first search of every test case with the printed pattern returns the whole test case"""
    settings = dict(settings or {})
    stag = ''.join('[%s]' % k for k in sorted(settings) if settings[k])
    ob = Obligation('Q08s[%s]%s%s' % (','.join(map(str, lens)), stag, '[runs=%s]' % ','.join(map(str, runs)) if runs else ''), q08s.__doc__)
    ob.domain = ('%d test cases of %s letters a..z (every equality pattern); settings: %s; RegExp::from (with its self-check against the '
                 'regex engine, modelled by the leftmost-first matcher) and Display for RegExp from MIR' % (
                     len(lens), '/'.join(map(str, lens)), ', '.join(k for k in sorted(settings) if settings[k])))
    ob.bound = 'exactly these lengths'
    cases = [[z3.BitVec('s%d_%d' % (i, j), 32) for j in range(n)] for i, n in enumerate(lens)]
    allv = [v for c in cases for v in c]
    assume = [z3.And(z3.UGE(v, BV(0x61, 32)), z3.ULE(v, BV(0x7A, 32))) for v in allv]
    if runs:
        # template: the listed test cases consist of ONE repeated letter (what conversion of repetitions turns into x{n})
        for i_ in runs:
            assume += [cases[i_][j_] == cases[i_][0] for j_ in range(1, len(cases[i_]))]
        ob.domain += '; test case(s) %s consist of one repeated letter' % ', '.join(str(i_ + 1) for i_ in runs)
    fields = ctx.mir.structs.get('RegExpConfig')
    off = {k: (BV(1, 32) if k.startswith('minimum_') else z3.BoolVal(False)) for k in fields}
    names = {'repetitions': 'is_repetition_converted', 'capture': 'is_capturing_group_enabled', 'verbose': 'is_verbose_mode_enabled',
             'no_start_anchor': 'is_start_anchor_disabled', 'no_end_anchor': 'is_end_anchor_disabled'}
    for k, val in settings.items():
        if k not in names:
            raise Inconclusive('setting %s is not supported by Q08s' % k)
        off[names[k]] = z3.BoolVal(bool(val))
    if not (settings.get('no_start_anchor') or settings.get('no_end_anchor')):
        raise Inconclusive('Q08s is about disabled anchors')
    cfgv = config_value(ctx, off)
    ex = ctx.new_exec([(P(r'^<str as UnicodeSegmentation>::graphemes$'), m_graphemes_per_letter)] + make_regex_search_models(ctx) +
                      make_gc_models(ctx) + make_regex_models(ctx, lambda x: orbit_rep(ctx, x)))
    st = State(pc=list(assume))
    cfg = st.ref(cfgv)
    v = st.ref(ListV([SymStr(c) for c in cases]))
    f_from = ctx.mir.one_fn(r'^regexp::<impl at [^>]*>::from$')
    f_fmt = display_fmt_name(ctx, 'RegExp')
    t0 = time.time()
    bads = []
    npaths = 0
    for o in ex.run_fn(st, f_from, [v, cfg]):
        if o.panic:
            bads.append(z3.And(*o.st.pc))
            ob.classes_seen['panic'] = ob.classes_seen.get('panic', 0) + 1
            continue
        buf = o.st.ref(SymStr(()))
        for o2 in ex.run_fn(o.st, f_fmt, [o.st.ref(o.val), buf]):
            npaths += 1
            if o2.panic:
                bads.append(z3.And(*o2.st.pc))
                continue
            items = list(o2.st.load(buf).items)
            cls = re.sub(r'<[^>]*>', 'x', ''.join(chr(concrete(x)) if concrete(x) is not None else 'x' for x in items))
            ob.classes_seen[cls] = ob.classes_seen.get(cls, 0) + 1
            if settings.get('verbose'):
                head = [ord(ch) for ch in '(?x)']
                if cps(items[:len(head)]) != head:
                    bads.append(z3.And(*o2.st.pc))
                    continue
                items = strip_verbose_whitespace(items[len(head):])
            words, sa, ea = pattern_words(ex, o2.st, items, ctx.oracle)
            if sa != (not settings.get('no_start_anchor')) or ea != (not settings.get('no_end_anchor')):
                bads.append(z3.And(*o2.st.pc))
                continue
            full = [RS.search_is_full(words, c, ctx.oracle, sa, ea) for c in cases]
            bads.append(z3.And(*o2.st.pc, z3.Not(z3.And(*full))))
    ctx.finish(ob, ex, t0)
    ob.paths = npaths
    if len(ob.classes_seen) > 40:
        ob.classes_seen = dict(sorted(ob.classes_seen.items(), key=lambda kv: -kv[1])[:40])

    def blocker(m):
        vals = [m.eval(c, model_completion=True).as_long() for c in allv]
        parts = []
        for i in range(len(allv)):
            for j in range(i + 1, len(allv)):
                parts.append((allv[i] == allv[j]) if vals[i] == vals[j] else (allv[i] != allv[j]))
        return z3.Not(z3.And(*parts)) if parts else z3.BoolVal(False)
    ob.verdict = decide(ob.qid, assume + ob.defs, z3.Or(*bads) if bads else z3.BoolVal(False), allv, all_sat=True,
                        max_models=ctx.cap('Q08s'), second=ctx.second, workdir=ctx.workdir,
                        second_timeout_s=getattr(ctx, 'second_timeout', 60), blocker=blocker)
    return ob


# =========================================================================== Q08u  the self-check block of RegExp::from as a unit
def skel_words(sk):
    """number-of-letters words of a skeleton as lists of leaf indices; leaves are numbered left to right"""
    counter = [0]

    def go(n):
        k = n[0]
        if k == 'L':
            ids = list(range(counter[0], counter[0] + n[1]))
            counter[0] += n[1]
            return [ids]
        if k == 'C':
            a = go(n[1])
            b = go(n[2])
            return [x + y for x in a for y in b]
        if k == 'A':
            out = []
            for c in n[1]:
                out += go(c)
            return out
        if k == 'O':
            return go(n[1]) + [[]]
        raise ValueError(k)
    return go(sk), counter[0]


def skel_text(sk):
    k = sk[0]
    if k == 'L':
        return 'x' * sk[1]
    if k == 'C':
        return ''.join(('(%s)' % skel_text(c)) if c[0] == 'A' else skel_text(c) for c in sk[1:3])
    if k == 'A':
        return '|'.join(skel_text(c) for c in sk[1])
    return '(%s)?' % skel_text(sk[1])


def skeleton_family(max_letters, max_words=4, max_len=3):
    """every expression skeleton (literal runs, binary concatenation, flat alternation, optional) with at most max_letters letter
    leaves whose language has at most max_words words of at most max_len letters and no empty word"""
    memo = {}

    def gen(n, top):
        key = (n, top)
        if key in memo:
            return memo[key]
        out = []
        if n >= 1:
            out.append(('L', n))
        for i in range(1, n):
            for a in gen(i, False):
                for b in gen(n - i, False):
                    if a[0] == 'L' and b[0] == 'L':
                        continue          # adjacent literals are one literal
                    if a[0] == 'C':
                        continue          # concatenations are right-nested
                    out.append(('C', a, b))
        # alternations of 2..3 branches (flat, no nested alternation directly inside)
        def parts(n, k, lo):
            if k == 1:
                if n >= lo:
                    yield (n,)
                return
            for i in range(lo, n):
                for rest in parts(n - i, k - 1, 1):
                    yield (i,) + rest
        for k in (2, 3):
            for ps in parts(n, k, 1):
                choices = [[x for x in gen(p_, False) if x[0] != 'A'] for p_ in ps]
                def prod(i):
                    if i == len(choices):
                        yield []
                        return
                    for c in choices[i]:
                        for rest in prod(i + 1):
                            yield [c] + rest
                for combo in prod(0):
                    out.append(('A', combo))
        memo[key] = out
        return out

    # optional sub-expressions: wrap any proper sub-term (not the whole expression, which would admit the empty word)
    def opt_variants(sk, is_root):
        k = sk[0]
        vs = []
        if k == 'L':
            vs = [sk]
        elif k == 'C':
            vs = [('C', a, b) for a in opt_variants(sk[1], False) for b in opt_variants(sk[2], False)]
        elif k == 'A':
            combos = [[]]
            for c in sk[1]:
                combos = [x + [y] for x in combos for y in opt_variants(c, True)]     # an optional branch = an empty alternative: excluded
            vs = [('A', c) for c in combos]
        if not is_root:
            vs = vs + [('O', v) for v in vs]
        return vs
    fam, seen = [], set()
    for n in range(1, max_letters + 1):
        for sk in gen(n, True):
            for v in opt_variants(sk, True):
                ws, _ = skel_words(v)
                if len(ws) > max_words or any(len(w) == 0 or len(w) > max_len for w in ws):
                    continue
                t = repr(v)
                if t not in seen:
                    seen.add(t)
                    fam.append(v)
    return fam


@guarded
def q08u(ctx, skeleton, settings=None, second_ast='same', kinds=None, orders=False):
    """Q08u: the self-check block of RegExp::from as a unit: whatever expression the automaton stages hand over (any expression of the given shape whose language is the set of test cases), a leftmost-first search of every test case with the printed pattern returns the whole test case"""
    settings = dict(settings or {})
    stag = ''.join('[%s]' % k for k in sorted(settings) if settings[k])
    ob = Obligation('%s[%s]%s%s%s' % ('Q10u' if orders else 'Q08u', skel_text(skeleton), stag, '' if second_ast == 'same' else '[2nd=%s]' % second_ast,
                                      '[kinds=%s]' % kinds if kinds else ''), q08u.__doc__ if not orders else
                    'Q10u: the self-check block of RegExp::from as a unit, run under three hash-order policies: the printed text is the same')
    words_ix, nleaf = skel_words(skeleton)
    if kinds is not None and (len(kinds) != nleaf or not settings.get('digits')):
        raise Inconclusive('kinds needs one d/l per leaf and the digits conversion')
    ob.domain = ('Dfa::from / Expression::from are replaced by stubs that return an expression of shape %s over %d letters a..z (every equality '
                 'pattern; built with the real constructors new_literal / new_concatenation / new_alternation / new_repetition); the test cases '
                 'are its %d words; settings: %s. Executed from MIR: the rest of RegExp::from (sorting, clustering, convert_expr_to_regex, '
                 'regex_matches_all_test_cases, rotation, both fall-backs) and Display for RegExp' % (
                     skel_text(skeleton), nleaf, len(words_ix), ', '.join(k for k in sorted(settings) if settings[k])))
    ob.bound = 'this expression shape'
    letters = [z3.BitVec('x%d' % i, 32) for i in range(nleaf)]
    assume = [z3.And(z3.UGE(v, BV(0x30, 32)), z3.ULE(v, BV(0x39, 32))) if (kinds and kinds[i] == 'd') else
              z3.And(z3.UGE(v, BV(0x61, 32)), z3.ULE(v, BV(0x7A, 32))) for i, v in enumerate(letters)]
    if kinds:
        ob.domain += '; leaves marked d are ASCII digits 0..9 (converted to \\d by the real convert_to_char_classes), the others letters: ' + kinds
    cases = [[letters[i] for i in w] for w in words_ix]
    fresh = []
    if kinds:
        # a \\d leaf stands for ANY digit: every test case has its own digit at such a position
        cases = [[letters[i] if kinds[i] != 'd' else z3.BitVec('y%d_%d' % (wi, j), 32) for j, i in enumerate(w)] for wi, w in enumerate(words_ix)]
        fresh = [c for w, ix in zip(cases, words_ix) for c, i in zip(w, ix) if kinds[i] == 'd']
        assume += [z3.And(z3.UGE(v, BV(0x30, 32)), z3.ULE(v, BV(0x39, 32))) for v in fresh]
    fields = ctx.mir.structs.get('RegExpConfig')
    off = {k: (BV(1, 32) if k.startswith('minimum_') else z3.BoolVal(False)) for k in fields}
    names = {'capture': 'is_capturing_group_enabled', 'no_start_anchor': 'is_start_anchor_disabled', 'no_end_anchor': 'is_end_anchor_disabled',
             'digits': 'is_digit_converted', 'verbose': 'is_verbose_mode_enabled'}
    for k, val in settings.items():
        if k not in names:
            raise Inconclusive('setting %s is not supported by Q08u' % k)
        off[names[k]] = z3.BoolVal(bool(val))
    cfgv = config_value(ctx, off)
    f_lit = ctx.mir.one_fn(r'^expression::<impl at [^>]*>::new_literal$')
    f_cat = ctx.mir.one_fn(r'^expression::<impl at [^>]*>::new_concatenation$')
    f_alt = ctx.mir.one_fn(r'^expression::<impl at [^>]*>::new_alternation$')
    f_rep = ctx.mir.one_fn(r'^expression::<impl at [^>]*>::new_repetition$')
    f_clu = ctx.mir.one_fn(r'^cluster::<impl at [^>]*>::from$')
    f_conv = ctx.mir.one_fn(r'^cluster::<impl at [^>]*>::convert_to_char_classes$')
    qvars = ctx.mir.enums.get('Quantifier')
    if not qvars or 'QuestionMark' not in qvars:
        raise Inconclusive('Quantifier enum changed: %s' % (qvars,))
    calls = {'n': 0}
    asts = {}

    def m_dfa_from(ex, st, fr, callee, a, depth):
        return Opaque('dfa', concrete(a[1]))

    def m_expr_from(ex, st, fr, callee, a, depth):
        calls['n'] += 1
        d = a[0]
        if not isinstance(d, Opaque) or d.tag != 'dfa':
            raise Inconclusive('Expression::from on %r' % (d,))
        return asts['min'] if d.p[0] else asts['trie']
    ex = ctx.new_exec([(P(r'^<str as UnicodeSegmentation>::graphemes$'), m_graphemes_per_letter),
                       (P(r'^Dfa::<\'_>::from$|^dfa::<impl at [^>]*>::from$'), m_dfa_from),
                       (P(r'^Expression::<\'_>::from$|^expression::<impl at [^>]*>::from$'), m_expr_from)] + make_regex_search_models(ctx) +
                      make_gc_models(ctx) + make_regex_models(ctx, lambda x: orbit_rep(ctx, x)))
    st0 = State(pc=list(assume))
    cfg = st0.ref(cfgv)

    def one(outs, what):
        outs = [o for o in outs if not o.panic]
        if len(outs) != 1:
            raise Inconclusive('%s: %d outcomes while building the expression' % (what, len(outs)))
        return outs[0].st, outs[0].val

    def build(st, sk, pos):
        k = sk[0]
        if k == 'L':
            s_ = st.ref(SymStr(letters[pos[0]:pos[0] + sk[1]]))
            pos[0] += sk[1]
            st, cl = one(ex.run_fn(st, f_clu, [s_, cfg]), 'GraphemeCluster::from')
            if settings.get('digits'):
                r_ = st.ref(cl)
                st, _u = one(ex.run_fn(st, f_conv, [r_]), 'convert_to_char_classes')
                cl = st.load(r_)
            return one(ex.run_fn(st, f_lit, [cl, cfg]), 'new_literal')
        if k == 'C':
            st, a = build(st, sk[1], pos)
            st, b = build(st, sk[2], pos)
            return one(ex.run_fn(st, f_cat, [a, b, cfg]), 'new_concatenation')
        if k == 'A':
            vs = []
            for c in sk[1]:
                st, v_ = build(st, c, pos)
                vs.append(v_)
            return one(ex.run_fn(st, f_alt, [ListV(vs), cfg]), 'new_alternation')
        if k == 'O':
            st, a = build(st, sk[1], pos)
            return one(ex.run_fn(st, f_rep, [a, EnumV('Quantifier', 'QuestionMark', qvars.index('QuestionMark'), ()), cfg]), 'new_repetition')
        raise Inconclusive('skeleton node %r' % (k,))
    t0 = time.time()
    st, ast_min = build(st0, skeleton, [0])
    if second_ast == 'same':
        st, ast_trie = build(st, skeleton, [0])
    elif second_ast == 'literals':
        vs = []
        for w in cases:
            s_ = st.ref(SymStr(w))
            st, cl = one(ex.run_fn(st, f_clu, [s_, cfg]), 'GraphemeCluster::from')
            if settings.get('digits'):
                r_ = st.ref(cl)
                st, _u = one(ex.run_fn(st, f_conv, [r_]), 'convert_to_char_classes')
                cl = st.load(r_)
            st, l_ = one(ex.run_fn(st, f_lit, [cl, cfg]), 'new_literal')
            vs.append(l_)
        if len(vs) == 1:
            ast_trie = vs[0]
        else:
            st, ast_trie = one(ex.run_fn(st, f_alt, [ListV(vs), cfg]), 'new_alternation')
    else:
        raise Inconclusive('second_ast ' + second_ast)
    asts['min'], asts['trie'] = ast_min, ast_trie
    # the handed-over expression must denote the test cases (that is the contract of the automaton stages, C16)
    lang = expression_language(st, ast_min) if not settings.get('digits') else cases
    if not all(any(len(a_) == len(b_) and all(x.eq(y) for x, y in zip(a_, b_)) for b_ in cases) for a_ in lang) or len(lang) != len(cases):
        raise Inconclusive('the expression built for the skeleton does not denote its words')
    v = st.ref(ListV([SymStr(c) for c in cases]))
    f_from = ctx.mir.one_fn(r'^regexp::<impl at [^>]*>::from$')
    f_fmt = display_fmt_name(ctx, 'RegExp')
    bads = []
    npaths = 0
    printed = {}
    if orders:
        # the same block under the other hash-order policies (every HashSet / HashMap iteration reversed / rotated by one)
        for pol in ('reverse', 'rotate'):
            ex.hash_order = pol
            res = []
            for o in ex.run_fn(st.fork(), f_from, [v, cfg]):
                if o.panic:
                    res.append((o.st, None))
                    continue
                buf = o.st.ref(SymStr(()))
                for o2 in ex.run_fn(o.st, f_fmt, [o.st.ref(o.val), buf]):
                    res.append((o2.st, None if o2.panic else list(o2.st.load(buf).items)))
            printed[pol] = res
        ex.hash_order = 'insertion'
    base_paths = []
    for o in ex.run_fn(st, f_from, [v, cfg]):
        if o.panic:
            bads.append(z3.And(*o.st.pc))
            ob.classes_seen['panic'] = ob.classes_seen.get('panic', 0) + 1
            continue
        buf = o.st.ref(SymStr(()))
        for o2 in ex.run_fn(o.st, f_fmt, [o.st.ref(o.val), buf]):
            npaths += 1
            if o2.panic:
                bads.append(z3.And(*o2.st.pc))
                continue
            items = list(o2.st.load(buf).items)
            cls = re.sub(r'<[^>]*>', 'x', ''.join(chr(concrete(x)) if concrete(x) is not None else 'x' for x in items))
            ob.classes_seen[cls] = ob.classes_seen.get(cls, 0) + 1
            base_paths.append((o2.st, items))
            if orders:
                continue
            if settings.get('verbose'):
                head = [ord(ch) for ch in '(?x)']
                if cps(items[:len(head)]) != head:
                    bads.append(z3.And(*o2.st.pc))
                    continue
                items = strip_verbose_whitespace(items[len(head):])
            words, sa, ea = pattern_words(ex, o2.st, items, ctx.oracle)
            if sa != (not settings.get('no_start_anchor')) or ea != (not settings.get('no_end_anchor')):
                bads.append(z3.And(*o2.st.pc))
                continue
            full = [RS.search_is_full(words, c, ctx.oracle, sa, ea) for c in cases]
            bads.append(z3.And(*o2.st.pc, z3.Not(z3.And(*full))))
    for pol, res in printed.items():
        for sp, tp in base_paths:
            ids_p = {d.get_id() for d in sp.pc}
            neg_p = {z3.Not(d).get_id() for d in sp.pc} | {d.arg(0).get_id() for d in sp.pc if z3.is_not(d)}
            for sq, tq in res:
                extra = [c for c in sq.pc if c.get_id() not in ids_p]
                if any(c.get_id() in neg_p for c in extra):
                    continue
                if extra and not ex.feasible(sp.pc, z3.And(*extra)):
                    continue
                both = list(sp.pc) + extra
                if tq is None or len(tq) != len(tp):
                    bads.append(z3.And(*both))
                else:
                    diff = z3.simplify(z3.Not(z3.And(*[x == y for x, y in zip(tp, tq)])))
                    if not z3.is_false(diff):
                        bads.append(z3.And(*both, diff))
    ctx.finish(ob, ex, t0)
    ob.paths = npaths
    ob.extra['expression_from_calls'] = calls['n']
    ob.extra['test_case_lengths'] = [len(w) for w in cases]
    if len(ob.classes_seen) > 40:
        ob.classes_seen = dict(sorted(ob.classes_seen.items(), key=lambda kv: -kv[1])[:40])

    allv = letters + fresh

    def blocker(m):
        vals = [m.eval(c, model_completion=True).as_long() for c in allv]
        parts = []
        for i in range(len(allv)):
            for j in range(i + 1, len(allv)):
                parts.append((allv[i] == allv[j]) if vals[i] == vals[j] else (allv[i] != allv[j]))
        return z3.Not(z3.And(*parts)) if parts else z3.BoolVal(False)
    ob.extra['cases_vars'] = [[str(c) for c in w] for w in cases]
    ob.verdict = decide(ob.qid, assume + ob.defs, z3.Or(*bads) if bads else z3.BoolVal(False), allv, all_sat=True,
                        max_models=ctx.cap('Q10u' if orders else 'Q08u') + (0 if orders else 300), second=ctx.second, workdir=ctx.workdir,
                        second_timeout_s=getattr(ctx, 'second_timeout', 60), blocker=blocker)
    ob.extra['cases_ix'] = words_ix
    return ob


# =========================================================================== Q03t  end to end with shorthand-class conversion
def spec_position_match(ctx, c, x, flags):
    """does x stand where test-case character c stood, under the documented conversion precedence (flags: six concrete Booleans
    in the order digit, word, space, non-digit, non-word, non-space)"""
    D = lambda v: in_ranges(v, ctx.oracle['d'])
    W = lambda v: in_ranges(v, ctx.oracle['w'])
    S = lambda v: in_ranges(v, ctx.oracle['s'])
    t = x == c
    rungs = [(flags[5], lambda v: z3.Not(S(v))), (flags[4], lambda v: z3.Not(W(v))), (flags[3], lambda v: z3.Not(D(v))),
             (flags[2], S), (flags[1], W), (flags[0], D)]
    for on, cls in rungs:          # built inside out: the first applicable rung in documented order wins
        if on:
            t = z3.If(cls(c), cls(x), t)
    return t


@guarded
def q03t(ctx, lens=(2,), flagset=('digits',), domain='printable'):
    """Q03t: the whole of build() with shorthand-class conversion: the printed pattern accepts exactly the strings obtained from a test case by replacing each character with any member of the class it is documented to be converted to"""
    order = ['digits', 'words', 'spaces', 'non_digits', 'non_words', 'non_spaces']
    flags = [k in flagset for k in order]
    ob = Obligation('Q03t[%s][%s]%s' % (','.join(map(str, lens)), ','.join(k for k in order if k in flagset), '' if domain == 'printable' else '[%s]' % domain),
                    q03t.__doc__)
    dom_txt = {'printable': 'printable ASCII characters (U+0020..U+007E: digits, letters, blanks, punctuation, every regex metacharacter)',
               'alnum': 'characters from 0-9, a-z, the blank and the underscore',
               'alnum-bs': 'characters from 0-9, A-Z, a-z, underscore and the backslash (so that a test case can spell a class token such as \\\\d literally)'}[domain]
    ob.domain = ('%d test cases of %s %s, conversions: %s; the candidate string x ranges over ALL scalar values at every position' % (
        len(lens), '/'.join(map(str, lens)), dom_txt, ', '.join(k for k in order if k in flagset)))
    ob.bound = 'exactly these lengths'
    cases = [[z3.BitVec('s%d_%d' % (i, j), 32) for j in range(n)] for i, n in enumerate(lens)]
    allv = [v for c in cases for v in c]
    if domain == 'printable':
        assume = [z3.And(z3.UGE(v, BV(0x20, 32)), z3.ULE(v, BV(0x7E, 32))) for v in allv]
    elif domain == 'alnum-bs':
        assume = [z3.And(z3.UGE(v, BV(0x30, 32)), z3.ULE(v, BV(0x7A, 32))) for v in allv]
        assume += [z3.Or(v == BV(0x5C, 32), v == BV(0x5F, 32), z3.ULE(v, BV(0x39, 32)), z3.And(z3.UGE(v, BV(0x41, 32)), z3.ULE(v, BV(0x5A, 32))),
                         z3.UGE(v, BV(0x61, 32))) for v in allv]
    else:
        assume = [z3.And(z3.UGE(v, BV(0x20, 32)), z3.ULE(v, BV(0x7A, 32))) for v in allv]
        assume += [z3.Or(v == BV(0x20, 32), v == BV(0x5F, 32), z3.And(z3.UGE(v, BV(0x30, 32)), z3.ULE(v, BV(0x39, 32))),
                         z3.And(z3.UGE(v, BV(0x61, 32)), z3.ULE(v, BV(0x7A, 32)))) for v in allv]
    fields = ctx.mir.structs.get('RegExpConfig')
    off = {k: (BV(1, 32) if k.startswith('minimum_') else z3.BoolVal(False)) for k in fields}
    for nm, on in zip(FLAG_NAMES, flags):
        off[nm] = z3.BoolVal(on)
    cfgv = config_value(ctx, off)
    ex = ctx.new_exec([(P(r'^<str as UnicodeSegmentation>::graphemes$'), m_graphemes_per_letter)] + make_gc_models(ctx))
    st = State(pc=list(assume))
    cfg = st.ref(cfgv)
    v = st.ref(ListV([SymStr(c) for c in cases]))
    f_from = ctx.mir.one_fn(r'^regexp::<impl at [^>]*>::from$')
    f_fmt = display_fmt_name(ctx, 'RegExp')
    t0 = time.time()
    maxlen = max(lens)
    xs = [z3.BitVec('x%d' % i, 32) for i in range(maxlen + 2)]
    xlen = z3.BitVec('xlen', 32)
    bads = []
    npaths = 0
    for o in ex.run_fn(st, f_from, [v, cfg]):
        if o.panic:
            bads.append(z3.And(*o.st.pc))
            ob.classes_seen['panic'] = ob.classes_seen.get('panic', 0) + 1
            continue
        buf = o.st.ref(SymStr(()))
        for o2 in ex.run_fn(o.st, f_fmt, [o.st.ref(o.val), buf]):
            npaths += 1
            if o2.panic:
                bads.append(z3.And(*o2.st.pc))
                continue
            items = list(o2.st.load(buf).items)
            cls = re.sub(r'<[^>]*>', 'x', ''.join(chr(concrete(x)) if concrete(x) is not None else 'x' for x in items))
            ob.classes_seen[cls] = ob.classes_seen.get(cls, 0) + 1
            words, sa, ea = pattern_words(ex, o2.st, items, ctx.oracle)
            if not (sa and ea):
                bads.append(z3.And(*o2.st.pc))
                continue
            diffs = []
            for L in sorted(set(len(w) for w in words) | set(lens)):
                if L > len(xs):
                    raise Inconclusive('pattern word longer than the candidate string')
                x = xs[:L]
                inP = z3.Or(*[RS.word_match(w, x, 0, ctx.oracle) for w in words if len(w) == L]) if any(len(w) == L for w in words) else z3.BoolVal(False)
                inS = [z3.And(*[spec_position_match(ctx, c, xc, flags) for c, xc in zip(t_, x)]) for t_ in cases if len(t_) == L]
                inS = z3.Or(*inS) if inS else z3.BoolVal(False)
                diffs.append(z3.And(xlen == BV(L, 32), z3.Xor(inP, inS)))
            bads.append(z3.And(*o2.st.pc, z3.Or(*diffs)))
    ctx.finish(ob, ex, t0)
    ob.paths = npaths
    if len(ob.classes_seen) > 40:
        ob.classes_seen = dict(sorted(ob.classes_seen.items(), key=lambda kv: -kv[1])[:40])
    ob.verdict = decide(ob.qid, assume + [valid_char(x) for x in xs] + ob.defs, z3.Or(*bads) if bads else z3.BoolVal(False), allv + xs + [xlen],
                        all_sat=True, max_models=ctx.cap('Q03t'), workdir=ctx.workdir,
                        second=tuple(x for x in ctx.second if not (getattr(ctx, 'tier', 'quick') == 'quick' and x.startswith('cvc5'))),
                        second_timeout_s=getattr(ctx, 'second_timeout', 60), block_vars=allv)
    ob.extra['flags'] = flags
    return ob


# =========================================================================== Q10h  the output does not depend on hash iteration order
@guarded
def q10h(ctx, lens=(2, 1), settings=None, domain='letters', shared_prefix=False, fixed=None):
    """Q10h: build() prints the same text whatever order HashSet / HashMap iteration takes (per-process hash seeds)"""
    settings = dict(settings or {})
    stag = ''.join('[%s]' % k for k in sorted(settings) if settings[k])
    ob = Obligation('Q10h[%s]%s%s%s' % (','.join(map(str, lens)), stag, '' if domain == 'letters' else '[%s]' % domain, ('[paired-prefixes]' if shared_prefix else '') +
                    ('[fixed=%s]' % ','.join('%d.%d=%s' % (i_, j_, c_) for (i_, j_), c_ in sorted(fixed.items())) if fixed else '')), q10h.__doc__)
    policies = ['insertion', 'reverse', 'rotate']
    ob.domain = ('%d test cases of %s letters a..z (every equality pattern); settings: %s; RegExp::from and Display for RegExp are run once per '
                 'hash-order policy -- every HashSet / HashMap iteration (iter, into_iter, intersection, difference) yields its entries in '
                 'insertion order / reversed / rotated by one -- and the printed texts are compared pairwise' % (
                     len(lens), '/'.join(map(str, lens)), ', '.join(k for k in sorted(settings) if settings[k]) or 'default'))
    ob.bound = 'exactly these lengths; 3 of the n! iteration orders of every hash container'
    cases = [[z3.BitVec('s%d_%d' % (i, j), 32) for j in range(n)] for i, n in enumerate(lens)]
    allv = [v for c in cases for v in c]
    if domain == 'letters':
        assume = [z3.And(z3.UGE(v, BV(0x61, 32)), z3.ULE(v, BV(0x7A, 32))) for v in allv]
    elif domain == 'alnum-colon':
        # 0-9 : ; A-Z a-z : word characters on both sides of two non-word characters, none of them a regex metacharacter
        assume = [z3.And(z3.UGE(v, BV(0x30, 32)), z3.ULE(v, BV(0x7A, 32))) for v in allv]
        assume += [z3.Or(z3.ULE(v, BV(0x3B, 32)), z3.And(z3.UGE(v, BV(0x41, 32)), z3.ULE(v, BV(0x5A, 32))), z3.UGE(v, BV(0x61, 32))) for v in allv]
        ob.domain = ob.domain.replace('letters a..z', 'characters from 0-9 : ; A-Z a-z')
    else:
        raise Inconclusive('domain ' + domain)
    if fixed:
        # positions the mechanism does not depend on are concrete (stated in the obligation's name)
        for (i_, j_), c_ in fixed.items():
            assume.append(cases[i_][j_] == BV(ord(c_), 32))
        ob.domain += '; fixed characters: ' + ', '.join('test case %d position %d = %r' % (i_ + 1, j_ + 1, c_) for (i_, j_), c_ in sorted(fixed.items()))
    if shared_prefix:
        # test cases 2k and 2k+1 start with the same character: two states with two outgoing edges each
        for a_ in range(0, len(cases) - 1, 2):
            assume.append(cases[a_][0] == cases[a_ + 1][0])
        ob.domain += '; test cases 1+2, 3+4, ... share their first character'
    fields = ctx.mir.structs.get('RegExpConfig')
    names = {'repetitions': 'is_repetition_converted', 'words': 'is_word_converted', 'digits': 'is_digit_converted', 'verbose': 'is_verbose_mode_enabled', 'capture': 'is_capturing_group_enabled',
             'no_start_anchor': 'is_start_anchor_disabled', 'no_end_anchor': 'is_end_anchor_disabled'}
    ex = ctx.new_exec([(P(r'^<str as UnicodeSegmentation>::graphemes$'), m_graphemes_per_letter)] + make_regex_search_models(ctx) +
                      make_gc_models(ctx) + make_regex_models(ctx, lambda x: orbit_rep(ctx, x)))
    f_from = ctx.mir.one_fn(r'^regexp::<impl at [^>]*>::from$')
    f_fmt = display_fmt_name(ctx, 'RegExp')
    t0 = time.time()

    def run(policy):
        ex.hash_order = policy
        off = {k: (BV(1, 32) if k.startswith('minimum_') else z3.BoolVal(False)) for k in fields}
        for k, val in settings.items():
            if k not in names:
                raise Inconclusive('setting %s is not supported by Q10h' % k)
            off[names[k]] = z3.BoolVal(bool(val))
        st = State(pc=list(assume))
        cfg = st.ref(config_value(ctx, off))
        v = st.ref(ListV([SymStr(c) for c in cases]))
        res = []
        for o in ex.run_fn(st, f_from, [v, cfg]):
            if o.panic:
                res.append((o.st, None))
                continue
            buf = o.st.ref(SymStr(()))
            for o2 in ex.run_fn(o.st, f_fmt, [o.st.ref(o.val), buf]):
                res.append((o2.st, None if o2.panic else list(o2.st.load(buf).items)))
        return res
    runs = {p_: run(p_) for p_ in policies}
    ex.hash_order = 'insertion'
    bads = []
    npaths = 0
    base = runs['insertion']
    for other in policies[1:]:
        for sp, tp in base:
            ids_p = {d.get_id() for d in sp.pc}
            neg_p = {z3.Not(d).get_id() for d in sp.pc} | {d.arg(0).get_id() for d in sp.pc if z3.is_not(d)}
            for sq, tq in runs[other]:
                extra = [c for c in sq.pc if c.get_id() not in ids_p]
                if any(c.get_id() in neg_p for c in extra):
                    continue        # the two paths took opposite sides of the same branch
                if extra and not ex.feasible(sp.pc, z3.And(*extra)):
                    continue
                npaths += 1
                both = list(sp.pc) + extra
                if tp is None or tq is None:
                    if (tp is None) != (tq is None):
                        bads.append(z3.And(*both))
                    continue
                cls = 'same-shape' if len(tp) == len(tq) else 'different-length'
                ob.classes_seen[cls] = ob.classes_seen.get(cls, 0) + 1
                if len(tp) != len(tq):
                    bads.append(z3.And(*both))
                else:
                    diff = z3.simplify(z3.Not(z3.And(*[x == y for x, y in zip(tp, tq)])))
                    if not z3.is_false(diff):
                        bads.append(z3.And(*both, diff))
    ctx.finish(ob, ex, t0)
    ob.paths = npaths
    ob.extra['paths_per_policy'] = {p_: len(r) for p_, r in runs.items()}

    def blocker(m):
        vals = [m.eval(c, model_completion=True).as_long() for c in allv]
        parts = []
        for i in range(len(allv)):
            for j in range(i + 1, len(allv)):
                parts.append((allv[i] == allv[j]) if vals[i] == vals[j] else (allv[i] != allv[j]))
        return z3.Not(z3.And(*parts)) if parts else z3.BoolVal(False)
    ob.verdict = decide(ob.qid, assume + ob.defs, z3.Or(*bads) if bads else z3.BoolVal(False), allv, all_sat=True,
                        max_models=ctx.cap('Q10h'), second=ctx.second, workdir=ctx.workdir,
                        second_timeout_s=getattr(ctx, 'second_timeout', 60), blocker=blocker)
    return ob


# =========================================================================== Q04t  end to end, case-insensitive matching
def m_to_lowercase_ascii(ex, st, fr, callee, a, depth):
    """str::to_lowercase on a string the path condition confines to ASCII: A..Z -> a..z, everything else unchanged (std documents
    exactly this for ASCII; no final-sigma context, no expansion)"""
    s_ = as_str(st, a[0])
    out = []
    for x in s_.items:
        b = ex.bounds(st, x) if is_bv(x) else None
        if concrete(x) is None and (b is None or b[1] >= 0x80):
            if not ex.must(st, z3.ULT(x, BV(0x80, 32))):
                raise Inconclusive('to_lowercase (ASCII model) on a character that may be non-ASCII')
        out.append(z3.simplify(z3.If(z3.And(z3.UGE(x, BV(0x41, 32)), z3.ULE(x, BV(0x5A, 32))), x + BV(32, 32), x)))
    return SymStr(out)


@guarded
def q04t(ctx, lens=(2, 1), settings=None):
    """Q04t: the whole of build() with case-insensitive matching: the printed pattern carries (?i) and accepts exactly the strings equal to a test case up to the regex engine's simple case folding; test cases that differ only in case collapse"""
    settings = dict(settings or {})
    stag = ''.join('[%s]' % k for k in sorted(settings) if settings[k])
    ob = Obligation('Q04t[%s]%s' % (','.join(map(str, lens)), stag), q04t.__doc__)
    ob.domain = ('%d test cases of %s ASCII letters A..Z a..z (every casing and equality pattern); case-insensitive matching%s; the candidate '
                 'string x ranges over ALL scalar values at every position (so U+212A KELVIN, U+017F LONG S ... are candidates)' % (
                     len(lens), '/'.join(map(str, lens)), ''.join(', ' + k for k in sorted(settings) if settings[k])))
    ob.bound = 'exactly these lengths'
    cases = [[z3.BitVec('s%d_%d' % (i, j), 32) for j in range(n)] for i, n in enumerate(lens)]
    allv = [v for c in cases for v in c]
    assume = [z3.And(z3.UGE(v, BV(0x41, 32)), z3.ULE(v, BV(0x7A, 32))) for v in allv]
    assume += [z3.Or(z3.ULE(v, BV(0x5A, 32)), z3.UGE(v, BV(0x61, 32))) for v in allv]
    fields = ctx.mir.structs.get('RegExpConfig')
    off = {k: (BV(1, 32) if k.startswith('minimum_') else z3.BoolVal(False)) for k in fields}
    off['is_case_insensitive_matching'] = z3.BoolVal(True)
    names = {'verbose': 'is_verbose_mode_enabled', 'capture': 'is_capturing_group_enabled', 'repetitions': 'is_repetition_converted'}
    for k, val in settings.items():
        if k not in names:
            raise Inconclusive('setting %s is not supported by Q04t' % k)
        off[names[k]] = z3.BoolVal(bool(val))
    cfgv = config_value(ctx, off)
    orbit = dict(ctx.oracle['orbit'])
    fold_defs, fold_memo = [], {}

    def fold(t):
        """orbit representative of t under the regex crate's simple case folding, named once per term"""
        c_ = concrete(t)
        if c_ is not None:
            return BV(orbit.get(c_, c_), 32)
        k = t.get_id()
        if k in fold_memo:
            return fold_memo[k][0]
        f_ = z3.BitVec('fold!%d' % len(fold_memo), 32)
        if any(t.eq(v_) for v_ in allv):
            ents = [(a_, BV(r_, 32)) for a_, r_ in ctx.oracle['orbit'] if 0x41 <= a_ <= 0x7A]     # t is confined to A..z
        else:
            ents = [(a_, BV(r_, 32)) for a_, r_ in ctx.oracle['orbit']]
        fold_memo[k] = (f_, t)
        fold_defs.append(f_ == table_tree(t, ents, t))
        return f_
    ex = ctx.new_exec([(P(r'^<str as UnicodeSegmentation>::graphemes$'), m_graphemes_per_letter),
                       (P(r'impl str>::to_lowercase$'), m_to_lowercase_ascii)] + make_gc_models(ctx) + make_regex_models(ctx, lambda t: orbit_rep(ctx, t)))
    st = State(pc=list(assume))
    cfg = st.ref(cfgv)
    v = st.ref(ListV([SymStr(c) for c in cases]))
    f_from = ctx.mir.one_fn(r'^regexp::<impl at [^>]*>::from$')
    f_fmt = display_fmt_name(ctx, 'RegExp')
    t0 = time.time()
    maxlen = max(lens)
    xs = [z3.BitVec('x%d' % i, 32) for i in range(maxlen + 2)]
    xlen = z3.BitVec('xlen', 32)
    bads = []
    npaths = 0
    for o in ex.run_fn(st, f_from, [v, cfg]):
        if o.panic:
            bads.append(z3.And(*o.st.pc))
            continue
        buf = o.st.ref(SymStr(()))
        for o2 in ex.run_fn(o.st, f_fmt, [o.st.ref(o.val), buf]):
            npaths += 1
            if o2.panic:
                bads.append(z3.And(*o2.st.pc))
                continue
            items = list(o2.st.load(buf).items)
            cls = re.sub(r'<[^>]*>', 'x', ''.join(chr(concrete(x)) if concrete(x) is not None else 'x' for x in items)).replace('\n', '/')
            ob.classes_seen[cls] = ob.classes_seen.get(cls, 0) + 1
            head = [ord(ch) for ch in ('(?ix)' if settings.get('verbose') else '(?i)')]
            if cps(items[:len(head)]) != head:
                bads.append(z3.And(*o2.st.pc))      # the flag is missing
                continue
            body = items[len(head):]
            if settings.get('verbose'):
                body = strip_verbose_whitespace(body)
            words, sa, ea = pattern_words(ex, o2.st, body, ctx.oracle)
            if not (sa and ea):
                bads.append(z3.And(*o2.st.pc))
                continue
            diffs = []
            for L in sorted(set(len(w) for w in words) | set(lens)):
                if L > len(xs):
                    raise Inconclusive('pattern word longer than the candidate string')
                x = xs[:L]
                ws = [w for w in words if len(w) == L]
                inP = z3.Or(*[RS.word_match(w, x, 0, ctx.oracle, fold) for w in ws]) if ws else z3.BoolVal(False)
                inS = [z3.And(*[fold(c) == fold(xc) for c, xc in zip(t_, x)]) for t_ in cases if len(t_) == L]
                inS = z3.Or(*inS) if inS else z3.BoolVal(False)
                diffs.append(z3.And(xlen == BV(L, 32), z3.Xor(inP, inS)))
            # collapse: no two alternatives of the pattern are case variants of each other (literal words only)
            lits = [w for w in words if all(is_bv(pm) for pm in w)]
            for i in range(len(lits)):
                for j in range(i + 1, len(lits)):
                    if len(lits[i]) == len(lits[j]) and lits[i]:
                        diffs.append(z3.And(xlen == BV(0xFFFF, 32), *[fold(a_) == fold(b_) for a_, b_ in zip(lits[i], lits[j])]))
            bads.append(z3.And(*o2.st.pc, z3.Or(*diffs)))
    ctx.finish(ob, ex, t0)
    ob.paths = npaths
    if len(ob.classes_seen) > 40:
        ob.classes_seen = dict(sorted(ob.classes_seen.items(), key=lambda kv: -kv[1])[:40])
    ob.verdict = decide(ob.qid, assume + [valid_char(x) for x in xs] + ob.defs + fold_defs, z3.Or(*bads) if bads else z3.BoolVal(False), allv + xs + [xlen],
                        all_sat=True, max_models=ctx.cap('Q04t'), workdir=ctx.workdir,
                        second=tuple(x for x in ctx.second if not (getattr(ctx, 'tier', 'quick') == 'quick' and x.startswith('cvc5'))),
                        second_timeout_s=getattr(ctx, 'second_timeout', 60), block_vars=allv)
    return ob


# =========================================================================== Q15t  end to end: highlighting only adds colour codes
def m_to_lowercase_identity_on_lowercase_letters(ex, st, fr, callee, a, depth):
    """str::to_lowercase on a string whose characters are all confined to a..z by the path condition: the string itself"""
    s_ = as_str(st, a[0])
    for x in s_.items:
        if not ex.must(st, z3.And(z3.UGE(x, BV(0x61, 32)), z3.ULE(x, BV(0x7A, 32)))):
            raise Inconclusive('to_lowercase on characters outside a..z (use the table model)')
    return s_


@guarded
def q15t(ctx, lens=(2, 1), settings=None):
    """Q15t: the whole of build() with and without syntax highlighting: removing the SGR sequences from the highlighted output gives exactly the plain output"""
    settings = dict(settings or {})
    stag = ''.join('[%s]' % k for k in sorted(settings) if settings[k])
    ob = Obligation('Q15t[%s]%s' % (','.join(map(str, lens)), stag), q15t.__doc__)
    ob.domain = ('%d test cases of %s letters a..z (every equality pattern); settings: %s; RegExp::from is run once, Display for RegExp twice '
                 '(is_output_colorized true / false)' % (len(lens), '/'.join(map(str, lens)), ', '.join(k for k in sorted(settings) if settings[k]) or 'default'))
    ob.bound = 'exactly these lengths'
    cases = [[z3.BitVec('s%d_%d' % (i, j), 32) for j in range(n)] for i, n in enumerate(lens)]
    allv = [v for c in cases for v in c]
    assume = [z3.And(z3.UGE(v, BV(0x61, 32)), z3.ULE(v, BV(0x7A, 32))) for v in allv]
    fields = ctx.mir.structs.get('RegExpConfig')
    names = {'repetitions': 'is_repetition_converted', 'verbose': 'is_verbose_mode_enabled', 'capture': 'is_capturing_group_enabled',
             'no_start_anchor': 'is_start_anchor_disabled', 'no_end_anchor': 'is_end_anchor_disabled', 'ignore_case': 'is_case_insensitive_matching'}
    texts = {}
    ex = ctx.new_exec([(P(r'^<str as UnicodeSegmentation>::graphemes$'), m_graphemes_per_letter),
                       (P(r'impl str>::to_lowercase$'), m_to_lowercase_identity_on_lowercase_letters)] + make_regex_search_models(ctx) +
                      make_gc_models(ctx) + make_regex_models(ctx, lambda x: orbit_rep(ctx, x)))
    f_from = ctx.mir.one_fn(r'^regexp::<impl at [^>]*>::from$')
    f_fmt = display_fmt_name(ctx, 'RegExp')
    t0 = time.time()
    bads = []
    npaths = 0

    def run(colored):
        off = {k: (BV(1, 32) if k.startswith('minimum_') else z3.BoolVal(False)) for k in fields}
        for k, val in settings.items():
            off[names[k]] = z3.BoolVal(bool(val))
        off['is_output_colorized'] = z3.BoolVal(colored)
        st = State(pc=list(assume))
        cfg = st.ref(config_value(ctx, off))
        v = st.ref(ListV([SymStr(c) for c in cases]))
        res = []
        for o in ex.run_fn(st, f_from, [v, cfg]):
            if o.panic:
                res.append((o.st, None))
                continue
            buf = o.st.ref(SymStr(()))
            for o2 in ex.run_fn(o.st, f_fmt, [o.st.ref(o.val), buf]):
                res.append((o2.st, None if o2.panic else list(o2.st.load(buf).items)))
        return res
    plain = run(False)
    col = run(True)
    for sc, tc in col:
        if tc is None:
            bads.append(z3.And(*sc.pc))
            continue
        stripped, removed = strip_sgr(tc)
        if any(concrete(x) == 0x1b for x in stripped):
            raise Inconclusive('highlighted output contains an ESC outside a recognised SGR sequence')
        for sp, tp in plain:
            extra = [c for c in sp.pc if not any(c.eq(d) for d in sc.pc)]
            if extra and not ex.feasible(sc.pc, z3.And(*extra)):
                continue
            npaths += 1
            both = list(sc.pc) + extra
            cls = 'sgr_pairs=%d' % (removed // 2)
            ob.classes_seen[cls] = ob.classes_seen.get(cls, 0) + 1
            if tp is None or len(tp) != len(stripped):
                bads.append(z3.And(*both))
            else:
                bads.append(z3.And(*both, z3.Not(z3.And(*[x == y for x, y in zip(stripped, tp)]))))
    ctx.finish(ob, ex, t0)
    ob.paths = npaths

    def blocker(m):
        vals = [m.eval(c, model_completion=True).as_long() for c in allv]
        parts = []
        for i in range(len(allv)):
            for j in range(i + 1, len(allv)):
                parts.append((allv[i] == allv[j]) if vals[i] == vals[j] else (allv[i] != allv[j]))
        return z3.Not(z3.And(*parts)) if parts else z3.BoolVal(False)
    ob.verdict = decide(ob.qid, assume + ob.defs, z3.Or(*bads) if bads else z3.BoolVal(False), allv, all_sat=True,
                        max_models=ctx.cap('Q15t'), second=ctx.second, workdir=ctx.workdir,
                        second_timeout_s=getattr(ctx, 'second_timeout', 60), blocker=blocker)
    return ob


# =========================================================================== Q12i  CLI input acquisition (obtain_input, bin crate)
def make_io_models(env_):
    """the process environment as nondeterministic stubs constrained only by their documented contracts:
    stdin().is_terminal() -> a symbolic Boolean; stdin().lock().lines() -> the lines the environment delivers (Ok values,
    no line break inside); stdin().read_to_string -> appends the delivered text; std::fs::read_to_string(path) -> Ok(content)
    or Err(kind) as the environment decides; paths are strings"""
    def m_stdin(ex, st, fr, callee, a, depth):
        return Opaque('stdin')

    def m_is_terminal(ex, st, fr, callee, a, depth):
        return env_['is_terminal']

    def m_lock(ex, st, fr, callee, a, depth):
        return Opaque('stdinlock')

    def m_buf_lines(ex, st, fr, callee, a, depth):
        env_['used'].add('stdin_lines')
        return IterV('list', items=tuple(EnumV('Result', 'Ok', 0, (SymStr(l),)) for l in env_['stdin_lines']))

    def m_read_to_string(ex, st, fr, callee, a, depth):
        env_['used'].add('stdin_text')
        r = a[1]
        while isinstance(st.load(r), RefV):
            r = st.load(r)
        st.store(r, SymStr(st.load(r).items + tuple(env_['stdin_text'])))
        return EnumV('Result', 'Ok', 0, (BV(len(env_['stdin_text']), 64),))

    def m_fs_read(ex, st, fr, callee, a, depth):
        env_['used'].add('file')
        env_['opened'].append(a[0])
        if env_.get('opened_cell') is not None:
            st.store(env_['opened_cell'], SymStr(as_str(st, a[0]).items))
        if env_['file'] is None:
            return EnumV('Result', 'Err', 1, (Opaque('ioerror', 'NotFound'),))
        return EnumV('Result', 'Ok', 0, (SymStr(env_['file']),))

    def m_path_ident(ex, st, fr, callee, a, depth):
        return a[0]

    def m_pathbuf_from(ex, st, fr, callee, a, depth):
        return as_str(st, a[0])

    def m_str_trim(ex, st, fr, callee, a, depth):
        s_ = list(as_str(st, a[0]).items)
        # char::is_whitespace = Unicode White_Space
        ws = lambda x: z3.Or(*[x == BV(c, 32) for c in (9, 10, 11, 12, 13, 32, 0x85, 0xA0, 0x1680, 0x2028, 0x2029, 0x202F, 0x205F, 0x3000)] +
                             [z3.And(z3.UGE(x, BV(0x2000, 32)), z3.ULE(x, BV(0x200A, 32)))])
        outs = []
        work = [(st, 0, len(s_))]
        while work:
            s1, lo, hi = work.pop()
            if lo < hi:
                done = True
                for s2, t in ex.branch(s1, ws(s_[lo])):
                    if t:
                        work.append((s2, lo + 1, hi))
                    else:
                        for s3, t2 in ex.branch(s2, ws(s_[hi - 1])):
                            if t2:
                                work.append((s3, lo, hi - 1))
                            else:
                                outs.append((s3, s3.ref(SymStr(s_[lo:hi]))))
                continue
            outs.append((s1, s1.ref(SymStr(()))))
        return outs

    def m_io_error_new(ex, st, fr, callee, a, depth):
        return Opaque('ioerror', 'custom')
    return [(P(r'^stdin$|^std::io::stdin$'), m_stdin), (P(r'^<Stdin as IsTerminal>::is_terminal$'), m_is_terminal),
            (P(r'^Stdin::lock$'), m_lock), (P(r"^<StdinLock<'_> as BufRead>::lines$"), m_buf_lines),
            (P(r'^<Stdin as std::io::Read>::read_to_string$'), m_read_to_string), (P(r'^std::fs::read_to_string::<'), m_fs_read),
            (P(r'^<PathBuf as Deref>::deref$|^Path::as_os_str$|^Path::to_path_buf$'), m_path_ident),
            (P(r'^<PathBuf as From<&str>>::from$'), m_pathbuf_from), (P(r'^core::str::<impl str>::trim$'), m_str_trim),
            (P(r'^<&std::ffi::OsStr as PartialEq<&str>>::eq$'), M.m_str_eq), (P(r'^std::io::Error::new::<'), m_io_error_new)]


@guarded
def q12i(ctx, channel, k=2, m=2):
    """Q12i: obtain_input returns exactly the test cases the user supplied, on every input channel"""
    ob = Obligation('Q12i[%s]' % channel, q12i.__doc__)
    fields = ctx.bin_mir.structs.get('Cli')
    if not fields or fields[:2] != ['input', 'file_path']:
        raise Inconclusive('Cli layout changed: %s' % (fields,))
    dash = [BV(ord('-'), 32)]

    def sym_lines(tag, n, length, allow_cr_end):
        ls, asm = [], []
        for i in range(n):
            l = [z3.BitVec('%s%d_%d' % (tag, i, j), 32) for j in range(length)]
            asm += [z3.And(valid_char(x), x != BV(10, 32)) for x in l]
            if not allow_cr_end and l:
                asm.append(l[-1] != BV(13, 32))
            ls.append(l)
        return ls, asm
    env_ = {'is_terminal': z3.Bool('stdin_is_terminal'), 'stdin_lines': [], 'stdin_text': [], 'file': None, 'used': set(), 'opened': []}
    assume, vars_ = [], []
    spec = None
    if channel == 'args':
        args, asm = sym_lines('a', k, m, True)
        assume += asm
        # any argument list except the single "-" with standard input available
        assume.append(z3.Or(env_['is_terminal'], z3.BoolVal(k != 1) if k != 1 else z3.Not(z3.And(*[x == y for x, y in zip(args[0], dash)])) if m == 1 else z3.BoolVal(True)))
        cli_input, file_path = args, EnumV('Option', 'None', 0, ())
        expected = ('ok', args)
        ob.domain = '%d command-line arguments of %d arbitrary code points; stdin terminal or not; not the lone "-" with piped stdin' % (k, m)
    elif channel == 'stdin':
        lines, asm = sym_lines('l', k, m, True)
        assume += asm + [z3.Not(env_['is_terminal'])]
        env_['stdin_lines'] = lines
        cli_input, file_path = [dash], EnumV('Option', 'None', 0, ())
        expected = ('ok', lines)
        ob.domain = 'grex - with piped stdin: BufRead::lines delivers %d lines of %d arbitrary code points (no line feed inside; a line may end in a carriage return)' % (k, m)
    elif channel in ('file-lf', 'file-crlf', 'file-lf-final', 'file-crlf-final'):
        lines, asm = sym_lines('t', k, m, False)
        assume += asm
        sep = [BV(13, 32), BV(10, 32)] if 'crlf' in channel else [BV(10, 32)]
        content = []
        for i, l in enumerate(lines):
            if i:
                content += sep
            content += l
        if channel.endswith('final'):
            content += sep
        env_['file'] = content
        path = [z3.BitVec('p%d' % i, 32) for i in range(2)]
        assume += [valid_char(x) for x in path] + [z3.Not(z3.And(path[0] == dash[0], z3.BoolVal(len(path) == 1)))]
        cli_input, file_path = [], EnumV('Option', 'Some', 1, (SymStr(path),))
        expected = ('ok', lines)
        vars_ += path
        ob.domain = ('grex -f FILE: the file holds %d test cases of %d arbitrary code points (no line feed inside, not ending in a carriage return) joined by %s, %s final line ending' % (
            k, m, 'CR LF' if 'crlf' in channel else 'LF', 'with a' if channel.endswith('final') else 'without'))
    elif channel in ('file-on-stdin', 'file-on-stdin-nl'):
        # grex -f - : the FILE NAME arrives on standard input (optionally followed by a line feed), the file holds the test cases
        lines, asm = sym_lines('t', k, m, False)
        assume += asm + [z3.Not(env_['is_terminal'])]
        content = []
        for i, l in enumerate(lines):
            if i:
                content += [BV(10, 32)]
            content += l
        env_['file'] = content
        path = [z3.BitVec('p%d' % i, 32) for i in range(2)]
        ws_ = lambda x: z3.Or(*[x == BV(c, 32) for c in (9, 10, 11, 12, 13, 32, 0x85, 0xA0, 0x1680, 0x2028, 0x2029, 0x202F, 0x205F, 0x3000)] + [z3.And(z3.UGE(x, BV(0x2000, 32)), z3.ULE(x, BV(0x200A, 32)))])
        assume += [z3.And(valid_char(x), z3.Not(ws_(x))) for x in path]
        env_['stdin_text'] = path + ([BV(10, 32)] if channel.endswith('-nl') else [])
        env_['expected_path'] = path
        cli_input, file_path = [], EnumV('Option', 'Some', 1, (SymStr(dash),))
        expected = ('ok', lines)
        vars_ += path
        ob.domain = ('grex -f - with the file name (2 non-blank code points%s) on piped stdin; the file holds %d test cases of %d arbitrary code points joined by LF' % (
            ', followed by a line feed' if channel.endswith('-nl') else '', k, m))
    elif channel == 'file-missing':
        path = [z3.BitVec('p%d' % i, 32) for i in range(2)]
        assume += [valid_char(x) for x in path]
        cli_input, file_path = [], EnumV('Option', 'Some', 1, (SymStr(path),))
        expected = ('err', None)
        vars_ += path
        ob.domain = 'grex -f FILE where reading the file fails'
    else:
        raise Inconclusive('channel ' + channel)
    ob.bound = '%d lines / arguments of %d code points' % (k, m)
    ex = Exec(ctx.bin_mir, make_io_models(env_) + MODELS2 + BASE_MODELS)
    st = State(pc=list(assume))
    vals = []
    for f in fields:
        if f == 'input':
            vals.append(ListV([SymStr(x) for x in cli_input]))
        elif f == 'file_path':
            vals.append(file_path)
        elif f.startswith('minimum_'):
            vals.append(z3.BitVec('cli_' + f, 32))
        elif f in ('help', 'version'):
            vals.append(EnumV('Option', 'None', 0, ()))
        else:
            vals.append(z3.Bool('cli_' + f))
    cli = st.ref(TupV(vals, fields, 'Cli'))
    env_['opened_cell'] = st.ref(SymStr((BV(0, 32),)))        # overwritten by the fs stub with the path that is opened
    t0 = time.time()
    outs = ex.run_fn(st, ctx.bin_mir.one_fn(r'^obtain_input$'), [cli])
    ctx.finish(ob, ex, t0)
    ob.paths = len(outs)
    bads = []
    for o in outs:
        if o.panic:
            bads.append(z3.And(*o.st.pc))
            ob.classes_seen['panic'] = ob.classes_seen.get('panic', 0) + 1
            continue
        r = o.val
        cls = r.variant
        ob.classes_seen[cls] = ob.classes_seen.get(cls, 0) + 1
        if expected[0] == 'err':
            bads.append(z3.And(*o.st.pc, z3.BoolVal(r.variant != 'Err')))
            continue
        if r.variant != 'Ok':
            bads.append(z3.And(*o.st.pc))
            continue
        got = [list(as_str(o.st, x).items) for x in deref(o.st, r.fields[0]).items]
        bads.append(z3.And(*o.st.pc, z3.Not(same_lists(got, expected[1]))))
        if env_.get('expected_path') is not None:
            # the file that was opened is the one named on stdin
            opened = [list(o.st.load(env_['opened_cell']).items)]
            bads.append(z3.And(*o.st.pc, z3.Not(same_lists(opened, [env_['expected_path']]))))
    allv = [v for l in (cli_input if channel == 'args' else (env_['stdin_lines'] if channel == 'stdin' else (lines if channel.startswith('file-') and channel != 'file-missing' else []))) for v in l]

    ob.verdict = decide(ob.qid, assume + ob.defs, z3.Or(*bads) if bads else z3.BoolVal(False), allv + vars_ + [env_['is_terminal']], all_sat=True,
                        max_models=ctx.cap('Q12i'), second=ctx.second, workdir=ctx.workdir, second_timeout_s=getattr(ctx, 'second_timeout', 60),
                        block_vars=allv or None)
    ob.extra['environment_stubs_used'] = sorted(env_['used'])
    return ob


# =========================================================================== Q12f  the library's from_file behaves like from() on the file's lines
@guarded
def q12f(ctx, variant='lf', k=2, m=2):
    """Q12f: RegExpBuilder::from_file(path) holds exactly the lines of the file as its test cases (like from() on them); a missing file panics with the documented message"""
    ob = Obligation('Q12f[%s]' % variant, q12f.__doc__)
    env_ = {'is_terminal': z3.BoolVal(True), 'stdin_lines': [], 'stdin_text': [], 'file': None, 'used': set(), 'opened': [], 'opened_cell': None}
    assume = []
    lines = []
    for i in range(k):
        l = [z3.BitVec('t%d_%d' % (i, j), 32) for j in range(m)]
        assume += [z3.And(valid_char(x), x != BV(10, 32)) for x in l] + [l[-1] != BV(13, 32)]
        lines.append(l)
    if variant != 'missing':
        sep = [BV(13, 32), BV(10, 32)] if 'crlf' in variant else [BV(10, 32)]
        content = []
        for i, l in enumerate(lines):
            if i:
                content += sep
            content += l
        if variant.endswith('final'):
            content += sep
        env_['file'] = content
    path = [z3.BitVec('p%d' % i, 32) for i in range(2)]
    assume += [valid_char(x) for x in path]
    ob.domain = ('from_file(PATH), PATH of 2 arbitrary code points; ' + ('reading the file fails with NotFound' if variant == 'missing' else
                 'the file holds %d lines of %d arbitrary code points (no line feed inside, not ending in a carriage return) joined by %s, %s final line ending' % (
                     k, m, 'CR LF' if 'crlf' in variant else 'LF', 'with a' if variant.endswith('final') else 'without')))
    ob.bound = '%d lines of %d code points' % (k, m)

    def m_into_pathbuf(ex, st, fr, callee, a, depth):
        return as_str(st, a[0])

    def m_error_kind(ex, st, fr, callee, a, depth):
        e = deref(st, a[0])
        kinds = ctx.mir.enums.get('ErrorKind') or []
        name = e.p[0] if isinstance(e, Opaque) and e.p else 'Other'
        return EnumV('ErrorKind', name, {'NotFound': 0, 'PermissionDenied': 1, 'InvalidData': 21}.get(name, 40), ())
    ex = Exec(ctx.mir, [(P(r'^<T as Into<PathBuf>>::into$'), m_into_pathbuf), (P(r'^std::io::Error::kind$'), m_error_kind)] + make_io_models(env_) + MODELS2 + BASE_MODELS)
    st = State(pc=list(assume))
    t0 = time.time()
    outs = ex.run_fn(st, ctx.mir.one_fn(r'^builder::<impl at [^>]*>::from_file$'), [st.ref(SymStr(path))])
    ctx.finish(ob, ex, t0)
    ob.paths = len(outs)
    bads = []
    for o in outs:
        if variant == 'missing':
            cls = 'panic' if o.panic else 'returned'
            ob.classes_seen[cls] = ob.classes_seen.get(cls, 0) + 1
            ok_ = bool(o.panic) and 'could not be found' in str(o.panic)
            bads.append(z3.And(*o.st.pc, z3.BoolVal(not ok_)))
            continue
        if o.panic:
            bads.append(z3.And(*o.st.pc))
            ob.classes_seen['panic'] = ob.classes_seen.get('panic', 0) + 1
            continue
        b = o.val if isinstance(o.val, TupV) else deref(o.st, o.val)
        got = [list(as_str(o.st, x).items) for x in deref(o.st, b.get('test_cases')).items]
        ob.classes_seen['builder'] = ob.classes_seen.get('builder', 0) + 1
        bads.append(z3.And(*o.st.pc, z3.Not(same_lists(got, lines))))
    allv = [v for l in lines for v in l]
    ob.verdict = decide(ob.qid, assume + ob.defs, z3.Or(*bads) if bads else z3.BoolVal(True), allv + path, all_sat=True,
                        max_models=ctx.cap('Q12f'), second=ctx.second, workdir=ctx.workdir, second_timeout_s=getattr(ctx, 'second_timeout', 60),
                        block_vars=allv or None)
    return ob


# =========================================================================== Q16u  Expression::union as a unit
@guarded
def q16u(ctx, sk_a, sk_b):
    """Q16u: Expression::union(a, b) denotes L(a) union L(b) (common prefix / suffix factoring, optional parts, character classes)"""
    ob = Obligation('Q16u[%s + %s]' % (skel_text(sk_a), skel_text(sk_b)), q16u.__doc__)
    wa, na = skel_words(sk_a)
    wb, nb = skel_words(sk_b)
    ob.domain = ('a of shape %s, b of shape %s over %d letters a..z (every equality pattern), built with the real constructors; '
                 'Expression::union(&Some(a), &Some(b), config) from MIR' % (skel_text(sk_a), skel_text(sk_b), na + nb))
    ob.bound = 'these two expression shapes'
    letters = [z3.BitVec('x%d' % i, 32) for i in range(na + nb)]
    assume = [z3.And(z3.UGE(v, BV(0x61, 32)), z3.ULE(v, BV(0x7A, 32))) for v in letters]
    words = [[letters[i] for i in w] for w in wa] + [[letters[na + i] for i in w] for w in wb]
    fields = ctx.mir.structs.get('RegExpConfig')
    off = {k: (BV(1, 32) if k.startswith('minimum_') else z3.BoolVal(False)) for k in fields}
    cfgv = config_value(ctx, off)
    f_lit = ctx.mir.one_fn(r'^expression::<impl at [^>]*>::new_literal$')
    f_cat = ctx.mir.one_fn(r'^expression::<impl at [^>]*>::new_concatenation$')
    f_alt = ctx.mir.one_fn(r'^expression::<impl at [^>]*>::new_alternation$')
    f_rep = ctx.mir.one_fn(r'^expression::<impl at [^>]*>::new_repetition$')
    f_clu = ctx.mir.one_fn(r'^cluster::<impl at [^>]*>::from$')
    f_union = ctx.mir.one_fn(r'^expression::<impl at [^>]*>::union$')
    qvars = ctx.mir.enums.get('Quantifier')
    ex = ctx.new_exec([(P(r'^<str as UnicodeSegmentation>::graphemes$'), m_graphemes_per_letter)] + make_gc_models(ctx))
    st = State(pc=list(assume))
    cfg = st.ref(cfgv)

    def one(outs, what):
        outs = [o for o in outs if not o.panic]
        if len(outs) != 1:
            raise Inconclusive('%s: %d outcomes while building the expression' % (what, len(outs)))
        return outs[0].st, outs[0].val

    def build(st, sk, pos):
        k = sk[0]
        if k == 'L':
            s_ = st.ref(SymStr(letters[pos[0]:pos[0] + sk[1]]))
            pos[0] += sk[1]
            st, cl = one(ex.run_fn(st, f_clu, [s_, cfg]), 'GraphemeCluster::from')
            return one(ex.run_fn(st, f_lit, [cl, cfg]), 'new_literal')
        if k == 'C':
            st, a = build(st, sk[1], pos)
            st, b = build(st, sk[2], pos)
            return one(ex.run_fn(st, f_cat, [a, b, cfg]), 'new_concatenation')
        if k == 'A':
            vs = []
            for c in sk[1]:
                st, v_ = build(st, c, pos)
                vs.append(v_)
            return one(ex.run_fn(st, f_alt, [ListV(vs), cfg]), 'new_alternation')
        if k == 'O':
            st, a = build(st, sk[1], pos)
            return one(ex.run_fn(st, f_rep, [a, EnumV('Quantifier', 'QuestionMark', qvars.index('QuestionMark'), ()), cfg]), 'new_repetition')
        raise Inconclusive('skeleton node %r' % (k,))
    t0 = time.time()
    pos = [0]
    st, a = build(st, sk_a, pos)
    st, b = build(st, sk_b, pos)
    some_ = lambda v: EnumV('Option', 'Some', 1, (v,))
    bads = []
    npaths = 0
    for o in ex.run_fn(st, f_union, [st.ref(some_(a)), st.ref(some_(b)), cfg]):
        npaths += 1
        if o.panic:
            bads.append(z3.And(*o.st.pc))
            ob.classes_seen['panic'] = ob.classes_seen.get('panic', 0) + 1
            continue
        r = o.val
        if not (isinstance(r, EnumV) and r.enum == 'Option' and r.variant == 'Some'):
            bads.append(z3.And(*o.st.pc))
            continue
        try:
            lang = expression_language(o.st, r.fields[0])
        except InfiniteLanguage:
            ob.classes_seen['unbounded-quantifier'] = ob.classes_seen.get('unbounded-quantifier', 0) + 1
            bads.append(z3.And(*o.st.pc))
            continue
        cls = expr_shape(o.st, r.fields[0])
        ob.classes_seen[cls] = ob.classes_seen.get(cls, 0) + 1
        bads.append(z3.And(*o.st.pc, z3.Not(set_eq(words, lang))))
    ctx.finish(ob, ex, t0)
    ob.paths = npaths
    ob.extra['words_ix'] = [list(w) for w in wa] + [[na + i for i in w] for w in wb]

    def blocker(m):
        vals = [m.eval(c, model_completion=True).as_long() for c in letters]
        parts = []
        for i in range(len(letters)):
            for j in range(i + 1, len(letters)):
                parts.append((letters[i] == letters[j]) if vals[i] == vals[j] else (letters[i] != letters[j]))
        return z3.Not(z3.And(*parts)) if parts else z3.BoolVal(False)
    ob.verdict = decide(ob.qid, assume + ob.defs, z3.Or(*bads) if bads else z3.BoolVal(False), letters, all_sat=True,
                        max_models=ctx.cap('Q16u') + 100, second=ctx.second, workdir=ctx.workdir,
                        second_timeout_s=getattr(ctx, 'second_timeout', 60), blocker=blocker)
    return ob


# =========================================================================== Q01s  soundness and validity under every combination of settings
SETTING_FIELDS = {'digits': 'is_digit_converted', 'words': 'is_word_converted', 'spaces': 'is_space_converted', 'non_digits': 'is_non_digit_converted',
                  'non_words': 'is_non_word_converted', 'non_spaces': 'is_non_space_converted', 'repetitions': 'is_repetition_converted',
                  'ignore_case': 'is_case_insensitive_matching', 'capture': 'is_capturing_group_enabled', 'escape': 'is_non_ascii_char_escaped',
                  'verbose': 'is_verbose_mode_enabled', 'no_start_anchor': 'is_start_anchor_disabled', 'no_end_anchor': 'is_end_anchor_disabled'}


@guarded
def q01s(ctx, lens=(2, 1), settings=(), thresholds=(1, 1)):
    """Q01s: for a combination of settings, build() does not panic, prints a pattern of the syntax the regex crate accepts with exactly the requested flags and anchors, and every test case is in the language of the pattern (a full match with the anchors in place)"""
    settings = tuple(sorted(settings))
    ob = Obligation('Q01s[%s][%s]%s' % (','.join(map(str, lens)), ','.join(settings) or 'default',
                                        '' if tuple(thresholds) == (1, 1) else '[min_repetitions=%d,min_substring_length=%d]' % tuple(thresholds)),
                    q01s.__doc__ + '; {n} / {m,n} quantifiers appear only with conversion of repetitions and then respect both thresholds')
    ci = 'ignore_case' in settings
    ob.domain = ('%d test cases of %s characters from 0-9 a-z%s, blank, underscore (every equality pattern); settings: %s' % (
        len(lens), '/'.join(map(str, lens)), ' A-Z' if ci else '', ', '.join(settings) or 'default'))
    ob.bound = 'exactly these lengths'
    for k in settings:
        if k not in SETTING_FIELDS:
            raise Inconclusive('setting %s is not supported by Q01s' % k)
    cases = [[z3.BitVec('s%d_%d' % (i, j), 32) for j in range(n)] for i, n in enumerate(lens)]
    allv = [v for c in cases for v in c]
    assume = [z3.And(z3.UGE(v, BV(0x20, 32)), z3.ULE(v, BV(0x7A, 32))) for v in allv]
    opts = lambda v: [v == BV(0x20, 32), v == BV(0x5F, 32), z3.And(z3.UGE(v, BV(0x30, 32)), z3.ULE(v, BV(0x39, 32))),
                      z3.And(z3.UGE(v, BV(0x61, 32)), z3.ULE(v, BV(0x7A, 32)))] + ([z3.And(z3.UGE(v, BV(0x41, 32)), z3.ULE(v, BV(0x5A, 32)))] if ci else [])
    assume += [z3.Or(*opts(v)) for v in allv]
    fields = ctx.mir.structs.get('RegExpConfig')
    off = {k: (BV(1, 32) if k.startswith('minimum_') else z3.BoolVal(False)) for k in fields}
    for k in settings:
        off[SETTING_FIELDS[k]] = z3.BoolVal(True)
    off['minimum_repetitions'], off['minimum_substring_length'] = BV(thresholds[0], 32), BV(thresholds[1], 32)
    cfgv = config_value(ctx, off)
    orbit = dict(ctx.oracle['orbit'])
    fold_defs, fold_memo = [], {}

    def fold(t):
        c_ = concrete(t)
        if c_ is not None:
            return BV(orbit.get(c_, c_), 32)
        k = t.get_id()
        if k in fold_memo:
            return fold_memo[k][0]
        f_ = z3.BitVec('fold!%d' % len(fold_memo), 32)
        fold_memo[k] = (f_, t)
        fold_defs.append(f_ == table_tree(t, [(a_, BV(r_, 32)) for a_, r_ in ctx.oracle['orbit'] if 0x20 <= a_ <= 0x7A], t))    # t is confined to U+0020..U+007A
        return f_
    ex = ctx.new_exec([(P(r'^<str as UnicodeSegmentation>::graphemes$'), m_graphemes_per_letter), (P(r'impl str>::to_lowercase$'), m_to_lowercase_ascii)] +
                      make_regex_search_models(ctx) + make_gc_models(ctx) + make_regex_models(ctx, lambda t: orbit_rep(ctx, t)))
    st = State(pc=list(assume))
    cfg = st.ref(cfgv)
    v = st.ref(ListV([SymStr(c) for c in cases]))
    f_from = ctx.mir.one_fn(r'^regexp::<impl at [^>]*>::from$')
    f_fmt = display_fmt_name(ctx, 'RegExp')
    t0 = time.time()
    bads = []
    npaths = 0
    verbose = 'verbose' in settings
    head = [ord(ch) for ch in ('(?ix)' if ci and verbose else '(?i)' if ci else '(?x)' if verbose else '')]
    for o in ex.run_fn(st, f_from, [v, cfg]):
        if o.panic:
            bads.append(z3.And(*o.st.pc))
            ob.classes_seen['panic'] = ob.classes_seen.get('panic', 0) + 1
            continue
        buf = o.st.ref(SymStr(()))
        for o2 in ex.run_fn(o.st, f_fmt, [o.st.ref(o.val), buf]):
            npaths += 1
            if o2.panic:
                bads.append(z3.And(*o2.st.pc))
                ob.classes_seen['panic'] = ob.classes_seen.get('panic', 0) + 1
                continue
            items = list(o2.st.load(buf).items)
            if cps(items[:len(head)]) != head or (not head and cps(items[:2]) == [ord('('), ord('?')] and cps(items[2:3]) != [ord(':')]):
                bads.append(z3.And(*o2.st.pc))
                ob.classes_seen['wrong-flag-group'] = ob.classes_seen.get('wrong-flag-group', 0) + 1
                continue
            body = items[len(head):]
            if verbose:
                body = strip_verbose_whitespace(body)
            try:
                ast_, sa, ea = pattern_ast(ex, o2.st, body, ctx.oracle)
                words = RS.ordered_words(ast_)
            except InfiniteLanguage:
                bads.append(z3.And(*o2.st.pc))
                continue
            ob.classes_seen['parsed'] = ob.classes_seen.get('parsed', 0) + 1
            qs = quantifiers(ast_)
            if qs:
                ob.classes_seen['quantified'] = ob.classes_seen.get('quantified', 0) + 1
            if ('repetitions' not in settings and qs) or any(not (hi > thresholds[0] and ul >= thresholds[1]) for lo, hi, ul in qs):
                bads.append(z3.And(*o2.st.pc))      # a quantifier without the option, or one below a threshold
                ob.classes_seen['bad-quantifier'] = ob.classes_seen.get('bad-quantifier', 0) + 1
                continue
            if sa != ('no_start_anchor' not in settings) or ea != ('no_end_anchor' not in settings):
                bads.append(z3.And(*o2.st.pc))
                continue
            txt = ''.join(chr(concrete(x)) if concrete(x) is not None else 'x' for x in body)

            def unescaped(i):
                k = 0
                while i - 1 - k >= 0 and txt[i - 1 - k] == '\\':
                    k += 1
                return k % 2 == 0
            opens = [i for i in range(len(txt)) if txt[i] == '(' and unescaped(i)]
            noncap = [i for i in opens if txt[i:i + 3] == '(?:']
            if ('capture' in settings and noncap) or ('capture' not in settings and len(noncap) != len(opens)):
                bads.append(z3.And(*o2.st.pc))
                continue
            fd = fold if ci else None
            full = []
            for c in cases:
                # C01 asks for a FULL match "with its anchors in place": membership of the test case in the language of the body. Which match a
                # search returns when an anchor is disabled (alternation order, leftmost-first) is C08's clause and decided there (Q08s / Q08u).
                alts = [RS.word_match(w, c, 0, ctx.oracle, fd) for w in words if len(w) == len(c)]
                full.append(z3.Or(*alts) if alts else z3.BoolVal(False))
            bads.append(z3.And(*o2.st.pc, z3.Not(z3.And(*full))))
    ctx.finish(ob, ex, t0)
    ob.paths = npaths

    def blocker(m):
        vals = [m.eval(c, model_completion=True).as_long() for c in allv]
        return z3.Or(*[c != BV(x, 32) for c, x in zip(allv, vals)])
    ob.verdict = decide(ob.qid, assume + ob.defs + fold_defs, z3.Or(*bads) if bads else z3.BoolVal(False), allv, all_sat=True,
                        max_models=ctx.cap('Q01s'), workdir=ctx.workdir,
                        second=tuple(x for x in ctx.second if not (getattr(ctx, 'tier', 'quick') == 'quick' and x.startswith('cvc5'))),
                        second_timeout_s=getattr(ctx, 'second_timeout', 60), blocker=blocker)
    return ob


# =========================================================================== Q05n  nested repetitions: real conversion + real printing of one test case
@guarded
def q05n(ctx, template='xxbxxbdxxbxxbd', escape=False):
    """Q05n: one test case with repetitions nested several levels deep: after GraphemeCluster::convert_repetitions and Display for the literal, every character of the test case is still written as text the regex crate reads as that literal, and the pattern denotes exactly the test case"""
    ob = Obligation('Q05n[%s]%s' % (template, '[escape]' if escape else ''), q05n.__doc__)
    ob.domain = ('one test case of the shape %s where x is ONE symbolic code point (every scalar value except the other letters of the template and the backslash) and the other '
                 'letters stand for themselves; thresholds 1/1; non-ASCII escaping %s' % (template, 'on' if escape else 'off'))
    ob.bound = 'this template'
    x = z3.BitVec('x', 32)
    others = sorted(set(ord(ch) for ch in template if ch != 'x'))
    assume = [valid_char(x), x != BV(92, 32)] + [x != BV(o_, 32) for o_ in others]
    # x is one grapheme on its own and is not glued to its neighbours: not a mark / format / control character
    assume += [z3.Not(in_ranges(x, ctx.oracle['gc_mark'])), z3.Not(in_ranges(x, ctx.oracle['gc_other']))]
    cs = [x if ch == 'x' else BV(ord(ch), 32) for ch in template]
    fields = ctx.mir.structs.get('RegExpConfig')
    off = {k: (BV(1, 32) if k.startswith('minimum_') else z3.BoolVal(False)) for k in fields}
    off['is_repetition_converted'] = z3.BoolVal(True)
    off['is_non_ascii_char_escaped'] = z3.BoolVal(bool(escape))
    cfgv = config_value(ctx, off)
    ex = ctx.new_exec()
    st = State(pc=list(assume))
    cfg = st.ref(cfgv)
    gs = [grapheme_value(ctx, st, [[c]], 1, 1, (False, False, False)) for c in cs]
    cl = st.ref(cluster_value(ctx, st, gs, cfg))
    f_conv = ctx.mir.one_fn(r'^cluster::<impl at [^>]*>::convert_repetitions$')
    variants = ctx.mir.enums.get('Expression')
    f_fmt = display_fmt_name(ctx, 'Expression')
    t0 = time.time()
    bads = []
    npaths = 0
    for o in ex.run_fn(st, f_conv, [cl]):
        if o.panic:
            bads.append(z3.And(*o.st.pc))
            continue
        ast = EnumV('Expression', 'Literal', variants.index('Literal'), (o.st.load(cl), z3.BoolVal(bool(escape)), z3.BoolVal(False)))
        buf = o.st.ref(SymStr(()))
        for o2 in ex.run_fn(o.st, f_fmt, [o.st.ref(ast), buf]):
            npaths += 1
            if o2.panic:
                bads.append(z3.And(*o2.st.pc))
                continue
            items = list(o2.st.load(buf).items)
            cls = re.sub(r'<[^>]*>', 'x', ''.join(chr(concrete(i_)) if concrete(i_) is not None else 'x' for i_ in items))
            ob.classes_seen[cls] = ob.classes_seen.get(cls, 0) + 1
            if escape and any((concrete(i_) is not None and concrete(i_) >= 0x80) or (concrete(i_) is None and not ex.must(o2.st, z3.ULT(i_, BV(0x80, 32)))) for i_ in items):
                bads.append(z3.And(*o2.st.pc, z3.UGE(x, BV(0x80, 32))))        # escaping requested, but a non-ASCII character is printed bare
                continue
            P_ = PatternParser(ex, o2.st, items, ctx.oracle)
            try:
                words = P_.alternation()
                if P_.i != len(items):
                    raise Inconclusive('pattern text not fully parsed at position %d' % P_.i)
            except InfiniteLanguage:
                bads.append(z3.And(*o2.st.pc))
                continue
            literal_ok = z3.And(*P_.side) if P_.side else z3.BoolVal(True)
            bads.append(z3.And(*o2.st.pc, z3.Not(z3.And(literal_ok, set_eq([cs], words)))))
    ctx.finish(ob, ex, t0)
    ob.paths = npaths
    ob.verdict = decide(ob.qid, assume + ob.defs, z3.Or(*bads) if bads else z3.BoolVal(False), [x], all_sat=True, max_models=ctx.cap('Q05n'),
                        second=ctx.second, workdir=ctx.workdir, second_timeout_s=getattr(ctx, 'second_timeout', 60))
    ob.extra['template'] = template
    return ob


# =========================================================================== Q05o  an optional part that is itself one quantified unit
@guarded
def q05o(ctx, n=2, count=2):
    """Q05o: Display for Repetition(Literal(one grapheme u{k}), ?) denotes exactly {empty, u^k}: the optional group survives (u{k}? would be a lazy quantifier)"""
    ob = Obligation('Q05o[n=%d,count=%d]' % (n, count), q05o.__doc__)
    ob.domain = 'unit u of %d letters a..z (every equality pattern), repeat count %d; capturing groups symbolic, verbose and highlighting off' % (n, count)
    ob.bound = 'units of exactly %d letters' % n
    cs = [z3.BitVec('c%d' % i, 32) for i in range(n)]
    assume = [z3.And(z3.UGE(c, BV(0x61, 32)), z3.ULE(c, BV(0x7A, 32))) for c in cs]
    if n > 1:
        assume.append(z3.Or(*[c != cs[0] for c in cs[1:]]))     # a unit of one repeated letter would itself have been converted (xx){2} -> x{4}
    variants = ctx.mir.enums.get('Expression')
    qvars = ctx.mir.enums.get('Quantifier')
    fn = display_fmt_name(ctx, 'Expression')
    ex = ctx.new_exec()
    st = State(pc=list(assume))
    cfgv = config_value(ctx, {'is_output_colorized': z3.BoolVal(False), 'is_verbose_mode_enabled': z3.BoolVal(False), 'is_non_ascii_char_escaped': z3.BoolVal(False),
                              'is_astral_code_point_converted_to_surrogate': z3.BoolVal(False)})
    cfg = st.ref(cfgv)
    cap = cfgv.get('is_capturing_group_enabled')
    g = grapheme_value(ctx, st, [[c] for c in cs], count, count, (cap, z3.BoolVal(False), z3.BoolVal(False)))
    lit_ = EnumV('Expression', 'Literal', variants.index('Literal'), (cluster_value(ctx, st, [g], cfg), z3.BoolVal(False), z3.BoolVal(False)))
    ast = EnumV('Expression', 'Repetition', variants.index('Repetition'),
                (st.ref(lit_), EnumV('Quantifier', 'QuestionMark', qvars.index('QuestionMark'), ()), cap, z3.BoolVal(False), z3.BoolVal(False)))
    buf = st.ref(SymStr(()))
    t0 = time.time()
    bads = []
    npaths = 0
    want = [[], [c for _ in range(count) for c in cs]]
    for o in ex.run_fn(st, fn, [st.ref(ast), buf]):
        npaths += 1
        if o.panic:
            bads.append(z3.And(*o.st.pc))
            continue
        items = list(o.st.load(buf).items)
        cls = ''.join(chr(concrete(i_)) if concrete(i_) is not None else 'x' for i_ in items)
        ob.classes_seen[cls] = ob.classes_seen.get(cls, 0) + 1
        P_ = PatternParser(ex, o.st, items, ctx.oracle)
        try:
            words = P_.alternation()
            if P_.i != len(items):
                raise Inconclusive('pattern text not fully parsed at position %d' % P_.i)
        except InfiniteLanguage:
            bads.append(z3.And(*o.st.pc))
            continue
        bads.append(z3.And(*o.st.pc, z3.Not(set_eq(want, words))))
    ctx.finish(ob, ex, t0)
    ob.paths = npaths
    ob.verdict = decide(ob.qid, assume + ob.defs, z3.Or(*bads) if bads else z3.BoolVal(False), cs + [z3.Bool('cfg_is_capturing_group_enabled')], all_sat=True,
                        max_models=ctx.cap('Q05o'), second=ctx.second, workdir=ctx.workdir, second_timeout_s=getattr(ctx, 'second_timeout', 60), block_vars=cs)
    return ob
