"""The obligations mirsym decides.  Each q_* function executes the current MIR of the named grex
functions with symbolic arguments and returns an `Obligation` with the solver's verdict.
"""
import re
import time
import z3
from .mir import Mir
from .sym import (Exec, State, SymStr, ListV, TupV, EnumV, RefV, ClosV, IterV, Opaque, Inconclusive, UNIT, lit, concrete,
                  BV, Outcome)
from . import models as M
from .models import BASE_MODELS, P, deref, as_str, hex_cases, fork_cases
from .smt import valid_char, in_ranges, table_tree, eq_alts, decide, Verdict


class Obligation:
    def __init__(self, qid, title):
        self.qid, self.title = qid, title
        self.functions = []
        self.domain = ''
        self.bound = ''
        self.stubs = []
        self.paths = 0
        self.exec_s = 0.0
        self.verdict = None         # smt.Verdict
        self.classes_seen = {}
        self.classes_expected = []
        self.inconclusive = None    # reason string
        self.panic_edges = 0
        self.feasibility_checks = 0
        self.extra = {}
        self.defs = []

    @property
    def result(self):
        if self.inconclusive:
            return 'inconclusive'
        return self.verdict.result if self.verdict else 'inconclusive'

    def as_dict(self):
        d = {'id': self.qid, 'title': self.title, 'engine': 'mirsym (MIR -> SMT, z3 %s)' % z3.get_version_string(),
             'functions_encoded': self.functions, 'input_domain': self.domain, 'bound': self.bound,
             'stubs_and_models': self.stubs, 'paths': self.paths, 'exec_s': round(self.exec_s, 2),
             'path_feasibility_queries': self.feasibility_checks, 'outcome_classes_seen': self.classes_seen,
             'result': self.result}
        if self.verdict:
            d.update(self.verdict.as_dict())
            d['result'] = self.result
        if self.inconclusive:
            d['inconclusive_reason'] = self.inconclusive
        d.update(self.extra)
        return d


class Ctx:
    def __init__(self, mir_text, src_root, oracle, workdir, second=(), tier='quick'):
        self.mir = Mir(mir_text, src_root)
        self.oracle = oracle
        self.workdir = workdir
        self.second = tuple(second)
        self.tier = tier
        self.known_counts = {}

    def cap(self, qid):
        """all-SAT model cap: every listed known finding of the obligation plus a few new ones"""
        return self.known_counts.get(qid.split('[')[0], 0) + 8

    def new_exec(self, extra_models=()):
        return Exec(self.mir, list(extra_models) + BASE_MODELS)

    def finish(self, ob, ex, t0):
        ob.exec_s = time.time() - t0
        ob.feasibility_checks = ex.stats['feasibility_checks']
        ob.panic_edges = ex.stats['panic_edges_cut']
        ob.functions = sorted(ex.stats['inlined_fns'].keys())
        ob.stubs = sorted(set(M.model_name(ex, p) for p in ex.stats['models_used'].keys()))
        ob.defs = list(ex.defs)

    def check_classes(self, ob):
        missing = [c for c in ob.classes_expected if not ob.classes_seen.get(c)]
        if missing and not ob.inconclusive:
            ob.inconclusive = 'vacuity guard: no feasible path for outcome class(es) %s' % missing


def guarded(run):
    """decorator: any Inconclusive / unexpected error inside a query becomes an inconclusive obligation"""
    def w(ctx, *a, **k):
        try:
            return run(ctx, *a, **k)
        except Inconclusive as e:
            ob = Obligation(run.__name__, run.__doc__ or '')
            ob.inconclusive = 'encoder: %s' % e
            return ob
        except KeyError as e:
            ob = Obligation(run.__name__, run.__doc__ or '')
            ob.inconclusive = 'MIR body not found: %s' % e
            return ob
    w.__name__ = run.__name__
    w.__doc__ = run.__doc__
    return w


def cps(items):
    return [concrete(x) for x in items]


# =========================================================================== Q11  Grapheme::escape
def escape_reference(c, surr):
    """guarded reference texts for the escape of c (list of (guard, [code point terms]))"""
    alts = [(z3.ULT(c, BV(0x80, 32)), [c])]
    nonascii = z3.UGE(c, BV(0x80, 32))
    astral = z3.UGE(c, BV(0x10000, 32))
    pre, post = list(lit('\\u{').items), list(lit('}').items)
    for cond, digs in hex_cases(z3.Extract(23, 0, c), 6):
        alts.append((z3.And(nonascii, z3.Not(z3.And(surr, astral)), cond), pre + digs + post))
    v = c - BV(0x10000, 32)
    hi = z3.Extract(15, 0, BV(0xD800, 32) + z3.LShR(v, 10))
    lo = z3.Extract(15, 0, BV(0xDC00, 32) + (v & BV(0x3FF, 32)))
    for c1, d1 in hex_cases(hi, 4):
        for c2, d2 in hex_cases(lo, 4):
            alts.append((z3.And(surr, astral, c1, c2), pre + d1 + post + pre + d2 + post))
    return alts


def exec_escape(ctx, c, surr):
    ex = ctx.new_exec()
    fn = ctx.mir.one_fn(r'^grapheme::<impl at [^>]*>::escape$')
    st = State(pc=[valid_char(c)])
    return ex, ex.run_fn(st, fn, [st.ref(Opaque('self')), c, surr])


@guarded
def q11(ctx):
    """Q11: Grapheme::escape(c, use_surrogate_pairs) == reference escape text, all c, both flag values"""
    ob = Obligation('Q11', q11.__doc__)
    ob.domain = 'c: every Unicode scalar value (0..=0x10FFFF minus surrogates), use_surrogate_pairs: bool'
    ob.bound = 'none (loop-free; output length <= 20 code points by construction)'
    ob.classes_expected = ['ascii', 'unicode_escape', 'surrogate_pair']
    c = z3.BitVec('c', 32)
    surr = z3.Bool('surr')
    t0 = time.time()
    ex, outs = exec_escape(ctx, c, surr)
    ctx.finish(ob, ex, t0)
    ob.paths = len(outs)
    alts = escape_reference(c, surr)
    bads = []
    for o in outs:
        if o.panic:
            bads.append(z3.And(*o.st.pc))
            ob.classes_seen['panic'] = ob.classes_seen.get('panic', 0) + 1
            continue
        items = as_str(o.st, o.val).items
        n = len(items)
        # classify by shape: one code point / one \u{..} / two \u{..}
        k = sum(1 for x in items if concrete(x) == ord('{'))
        cls = 'ascii' if n == 1 and k == 0 else ('surrogate_pair' if k == 2 else 'unicode_escape')
        ob.classes_seen[cls] = ob.classes_seen.get(cls, 0) + 1
        bads.append(z3.And(*o.st.pc, z3.Not(eq_alts(list(items), alts))))
    ctx.check_classes(ob)
    ob.verdict = decide('Q11', [valid_char(c)] + ob.defs, z3.Or(*bads), [c, surr], all_sat=True, max_models=ctx.cap('Q11'),
                        second=ctx.second, workdir=ctx.workdir, second_timeout_s=getattr(ctx, 'second_timeout', 60))
    return ob


@guarded
def q11s(ctx, n, exclude=()):
    """Q11s: escape_non_ascii_chars' closure on a string of n code points == concatenation of the per-code-point escapes"""
    ob = Obligation('Q11s[n=%d]' % n, q11s.__doc__)
    ob.domain = 'string of %d code points, every scalar value each; use_surrogate_pairs: bool' % n
    ob.bound = 'strings of exactly %d code points' % n
    cs = [z3.BitVec('c%d' % i, 32) for i in range(n)]
    surr = z3.Bool('surr')
    ex = ctx.new_exec()
    fn = ctx.mir.one_fn(r'^grapheme::<impl at [^>]*>::escape_non_ascii_chars::\{closure#0\}$')
    body = ctx.mir.fns[fn]
    names = {}
    for nm, pl in body.debug.items():
        m = re.match(r'\(\*\(\(\*_1\)\.(\d+): &[\w:]+\)\)$', pl)
        if m:
            names[int(m.group(1))] = nm
    if sorted(names.values()) != ['self', 'use_surrogate_pairs']:
        raise Inconclusive('unexpected captures %s' % names)
    assume = [valid_char(c) for c in cs]
    # per-code-point counterexamples are reported by Q11; here only NEW (compositional) failures count
    for m in exclude:
        for c in cs:
            assume.append(z3.Not(z3.And(c == BV(m['c'], 32), surr == z3.BoolVal(m['surr']))))
    if exclude:
        ob.domain += '; minus the %d per-code-point counterexample(s) already reported by Q11' % len(exclude)
    st = State(pc=list(assume))
    vals = {'self': st.ref(Opaque('self')), 'use_surrogate_pairs': st.ref(surr)}
    env = TupV([vals[names[i]] for i in range(2)], [names[i] for i in range(2)])
    t0 = time.time()
    outs = ex.run_fn(st, fn, [st.ref(env), st.ref(SymStr(cs))])
    ctx.finish(ob, ex, t0)
    ob.paths = len(outs)
    refs = [escape_reference(c, surr) for c in cs]
    bads = []
    for o in outs:
        if o.panic:
            bads.append(z3.And(*o.st.pc))
            continue
        items = list(as_str(o.st, o.val).items)

        def splits(pos, i):
            if i == n:
                return z3.BoolVal(pos == len(items))
            ds = []
            for g, ref in refs[i]:
                L = len(ref)
                if pos + L <= len(items):
                    ds.append(z3.And(g, *[a == b for a, b in zip(items[pos:pos + L], ref)], splits(pos + L, i + 1)))
            return z3.Or(*ds) if ds else z3.BoolVal(False)
        bads.append(z3.And(*o.st.pc, z3.Not(splits(0, 0))))
        k = 'len%d' % len(items)
        ob.classes_seen[k] = ob.classes_seen.get(k, 0) + 1
    ob.verdict = decide(ob.qid, assume + ob.defs, z3.Or(*bads), cs + [surr], all_sat=True, max_models=ctx.cap('Q11s'),
                        second=ctx.second, workdir=ctx.workdir, second_timeout_s=getattr(ctx, 'second_timeout', 60), block_vars=cs)
    return ob


# =========================================================================== Q09  is_digit / is_word / is_space
PRED = {'d': 'is_digit', 'w': 'is_word', 's': 'is_space'}


def run_predicate(ctx, ex, name, c, st):
    outs = ex.run_fn(st, ctx.mir.one_fn(r'^%s$' % name), [c])
    if len(outs) != 1 or outs[0].panic or not z3.is_bool(outs[0].val):
        raise Inconclusive('%s did not reduce to one Boolean term (%d paths)' % (name, len(outs)))
    return outs[0].val


@guarded
def q09(ctx, which):
    """Q09: is_digit / is_word / is_space (through the lazy_static initialiser) == regex-syntax class, all c"""
    name = PRED[which]
    ob = Obligation('Q09' + which, 'Q09%s: %s(c) == (c in regex-syntax \\%s) for every scalar value' % (which, name, which))
    ob.domain = 'c: every Unicode scalar value'
    ob.bound = 'none (table lengths are the real ones: the promoted constant is executed)'
    ob.classes_expected = ['table_term']
    c = z3.BitVec('c', 32)
    ex = ctx.new_exec()
    st = State(pc=[valid_char(c)])
    t0 = time.time()
    f = run_predicate(ctx, ex, name, c, st)
    ctx.finish(ob, ex, t0)
    ob.paths = 1
    n_ranges = ex.stats['inlined_fns'].get(ctx.mir.one_fn(r'^convert_chars_to_range::\{closure#0\}$'), 0)
    ob.extra['table_ranges_executed'] = n_ranges
    ob.classes_seen['table_term'] = 1 if n_ranges > 0 else 0
    ctx.check_classes(ob)
    oracle = in_ranges(c, ctx.oracle[which])
    ob.verdict = decide(ob.qid, [valid_char(c)] + ob.defs, f != oracle, [c], all_sat=True, max_models=ctx.cap(ob.qid),
                        second=ctx.second, workdir=ctx.workdir, second_timeout_s=getattr(ctx, 'second_timeout', 60))
    return ob


# =========================================================================== Q03  class ladder
FLAG_NAMES = ['is_digit_converted', 'is_word_converted', 'is_space_converted', 'is_non_digit_converted',
              'is_non_word_converted', 'is_non_space_converted']


def ladder_reference(ctx, c, f):
    """documented precedence over the regex crate's classes: [(guard, token code points)]"""
    D, W, S = (in_ranges(c, ctx.oracle[k]) for k in 'dws')
    rungs = [(z3.And(f[0], D), '\\d'), (z3.And(f[1], W), '\\w'), (z3.And(f[2], S), '\\s'),
             (z3.And(f[3], z3.Not(D)), '\\D'), (z3.And(f[4], z3.Not(W)), '\\W'), (z3.And(f[5], z3.Not(S)), '\\S')]
    alts, none_before = [], []
    for g, tok in rungs:
        alts.append((z3.And(g, *[z3.Not(x) for x in none_before]), list(lit(tok).items)))
        none_before.append(g)
    alts.append((z3.And(*[z3.Not(x) for x in none_before]), [c]))
    return alts


def closure_env_from_debug(body, st, values_by_name):
    """closure environment tuple in capture order, read from MIR `debug name => (*((*_1).K: &T))` lines"""
    order = {}
    for nm, pl in body.debug.items():
        m = re.match(r'\(\*\(\(\*_1\)\.(\d+): &[\w:]+\)\)$', pl)
        if m:
            order[int(m.group(1))] = nm
    if sorted(order) != list(range(len(order))) or set(order.values()) != set(values_by_name):
        raise Inconclusive('closure captures %s do not match the expected flags' % sorted(order.values()))
    return TupV([st.ref(values_by_name[order[i]]) for i in range(len(order))], [order[i] for i in range(len(order))])


def token_class(items):
    cs = cps(items)
    if len(cs) == 2 and cs[0] == 92 and cs[1] is not None:
        return '\\' + chr(cs[1])
    return 'literal'


def exec_ladder(ctx, cs, flags, per_char, assume=None):
    ex = ctx.new_exec()
    st = State(pc=list(assume) if assume is not None else [valid_char(c) for c in cs])
    byname = dict(zip(FLAG_NAMES, flags))
    if per_char:
        fn = ctx.mir.one_fn(r'convert_to_char_classes::\{closure#0\}::\{closure#0\}$')
        env = closure_env_from_debug(ctx.mir.fns[fn], st, byname)
        return ex, ex.run_fn(st, fn, [st.ref(env), cs[0]])
    fn = ctx.mir.one_fn(r'convert_to_char_classes::\{closure#0\}$')
    env = closure_env_from_debug(ctx.mir.fns[fn], st, byname)
    return ex, ex.run_fn(st, fn, [st.ref(env), st.ref(SymStr(cs))])


@guarded
def q03a(ctx, n=1, exclude=()):
    """Q03a/c: per-code-point class substitution == documented precedence over the regex crate's classes"""
    qid = 'Q03a' if n == 1 else 'Q03c[n=%d]' % n
    ob = Obligation(qid, q03a.__doc__ + (' (string of %d code points through the enclosing closure)' % n if n > 1 else ''))
    ob.domain = '%d code point(s): every scalar value each; all 2^6 subsets of the six conversion flags' % n
    ob.bound = 'none' if n == 1 else 'strings of exactly %d code points' % n
    ob.classes_expected = ['\\d', '\\w', '\\s', '\\D', '\\W', '\\S', 'literal'] if n == 1 else []
    cs = [z3.BitVec('c%d' % i, 32) for i in range(n)]
    flags = [z3.Bool(nm) for nm in FLAG_NAMES]
    assume = [valid_char(c) for c in cs]
    for m in exclude:
        for c in cs:
            assume.append(z3.Not(z3.And(c == BV(m['c0'], 32), *[f == z3.BoolVal(m[nm]) for f, nm in zip(flags, FLAG_NAMES)])))
    if exclude:
        ob.domain += '; minus the %d per-code-point counterexample(s) already reported by Q03a' % len(exclude)
    t0 = time.time()
    ex, outs = exec_ladder(ctx, cs, flags, per_char=(n == 1), assume=assume)
    ctx.finish(ob, ex, t0)
    ob.paths = len(outs)
    refs = [ladder_reference(ctx, c, flags) for c in cs]
    bads = []
    for o in outs:
        if o.panic:
            bads.append(z3.And(*o.st.pc))
            continue
        items = list(as_str(o.st, o.val).items)
        if n == 1:
            k = token_class(items)
            ob.classes_seen[k] = ob.classes_seen.get(k, 0) + 1
            bads.append(z3.And(*o.st.pc, z3.Not(eq_alts(items, refs[0]))))
        else:
            # the output must be a concatenation t0 t1 .. of per-code-point tokens
            def splits(pos, i):
                if i == n:
                    return z3.BoolVal(pos == len(items))
                ds = []
                for g, ref in refs[i]:
                    L = len(ref)
                    if pos + L <= len(items):
                        ds.append(z3.And(g, *[a == b for a, b in zip(items[pos:pos + L], ref)], splits(pos + L, i + 1)))
                return z3.Or(*ds) if ds else z3.BoolVal(False)
            bads.append(z3.And(*o.st.pc, z3.Not(splits(0, 0))))
    ctx.check_classes(ob)
    ob.verdict = decide(ob.qid, assume + ob.defs, z3.Or(*bads), cs + flags, all_sat=True, max_models=ctx.cap('Q03a' if n == 1 else 'Q03c'),
                        second=ctx.second, workdir=ctx.workdir, second_timeout_s=getattr(ctx, 'second_timeout', 60), block_vars=cs)
    return ob


@guarded
def q03b(ctx):
    """Q03b: RegExpConfig::is_char_class_feature_enabled is true whenever a conversion flag is set"""
    ob = Obligation('Q03b', q03b.__doc__)
    fields = ctx.mir.structs.get('RegExpConfig')
    if not fields:
        raise Inconclusive('RegExpConfig field list not found in source')
    ob.domain = 'every RegExpConfig value: %d Boolean fields, two u32 thresholds' % (len(fields) - 2)
    ob.bound = 'none'
    vals, vars_ = [], []
    for f in fields:
        v = z3.BitVec(f, 32) if f.startswith('minimum_') else z3.Bool(f)
        vals.append(v)
        vars_.append(v)
    ex = ctx.new_exec()
    st = State()
    t0 = time.time()
    fn = ctx.mir.one_fn(r'^config::<impl at [^>]*>::is_char_class_feature_enabled$')
    outs = ex.run_fn(st, fn, [st.ref(TupV(vals, fields, 'RegExpConfig'))])
    ctx.finish(ob, ex, t0)
    ob.paths = len(outs)
    byname = dict(zip(fields, vals))
    any_flag = z3.Or(*[byname[n] for n in FLAG_NAMES])
    bads = []
    for o in outs:
        r = o.val
        k = 'true' if z3.is_true(z3.simplify(r)) else ('false' if z3.is_false(z3.simplify(r)) else 'term')
        ob.classes_seen[k] = ob.classes_seen.get(k, 0) + 1
        bads.append(z3.And(*o.st.pc, any_flag, z3.Not(r)))
    ob.verdict = decide('Q03b', ob.defs, z3.Or(*bads), vars_, second=ctx.second, workdir=ctx.workdir, second_timeout_s=getattr(ctx, 'second_timeout', 60))
    return ob


# =========================================================================== Q04  lower-casing for (?i)
def make_to_lowercase_model(ctx):
    L = []
    for k, v in ctx.oracle['lower1']:
        L.append((k, list(v)))
    by_len = {}
    for k, v in L:
        by_len.setdefault(len(v), []).append(k)

    def m_to_lowercase(ex, st, fr, callee, a, depth):
        """table stub: std's str::to_lowercase on a ONE-code-point string (dumped from the build toolchain)"""
        s = as_str(st, a[0])
        if len(s.items) != 1:
            raise Inconclusive('to_lowercase model covers one-code-point strings only')
        x = s.items[0]
        cases = []
        maxlen = max(by_len) if by_len else 1
        for n in range(1, maxlen + 1):
            keys = by_len.get(n, [])
            if n == 1:
                other = [k for m_, ks in by_len.items() if m_ != 1 for k in ks]
                cond = z3.Not(in_ranges(x, _to_ranges(other))) if other else z3.BoolVal(True)
                cpsn = [table_tree(x, [(k, BV(v[0], 32)) for k, v in L if len(v) == 1], x)]
            else:
                if not keys:
                    continue
                cond = in_ranges(x, _to_ranges(keys))
                cpsn = [table_tree(x, [(k, BV(v[i], 32)) for k, v in L if len(v) == n], BV(0, 32)) for i in range(n)]
            cases.append((cond, SymStr(cpsn)))
        return fork_cases(ex, st, cases)
    return m_to_lowercase


def _to_ranges(keys):
    rs = []
    for k in sorted(keys):
        if rs and rs[-1][1] + 1 == k:
            rs[-1][1] = k
        else:
            rs.append([k, k])
    return rs


def orbit_rep(ctx, x):
    return table_tree(x, [(k, BV(rep, 32)) for k, rep in ctx.oracle['orbit']], x)


def exec_lower(ctx, c):
    ex = ctx.new_exec([(P(r'impl str>::to_lowercase$'), make_to_lowercase_model(ctx))])
    fn = ctx.mir.one_fn(r'convert_for_case_insensitive_matching::\{closure#0\}$')
    st = State(pc=[valid_char(c)])
    return ex, fn, ex.run_fn(st, fn, [st.ref(TupV(())), st.ref(SymStr([c]))])


@guarded
def q04(ctx, idempotence=False):
    """Q04: lower-casing closure on a one-code-point test case stays in the regex crate's simple-folding orbit"""
    ob = Obligation('Q04b' if idempotence else 'Q04', q04.__doc__ if not idempotence else
                    'Q04b: the lower-casing step is idempotent on one-code-point test cases')
    ob.domain = 'test case = one code point c, every scalar value'
    ob.bound = 'test cases of exactly one code point (str::to_lowercase is a table stub for that length)'
    ob.classes_expected = ['lowered', 'kept']
    c = z3.BitVec('c', 32)
    t0 = time.time()
    ex, fn, outs = exec_lower(ctx, c)
    bads = []
    paths = len(outs)
    for o in outs:
        if o.panic:
            bads.append(z3.And(*o.st.pc))
            continue
        r = as_str(o.st, o.val).items
        kept = len(r) == 1 and r[0].eq(c)
        k = 'kept' if kept else 'lowered'
        ob.classes_seen[k] = ob.classes_seen.get(k, 0) + 1
        if not idempotence:
            if len(r) != 1:
                bads.append(z3.And(*o.st.pc))
            else:
                bads.append(z3.And(*o.st.pc, orbit_rep(ctx, r[0]) != orbit_rep(ctx, c)))
        else:
            if len(r) != 1:
                continue   # reported by Q04
            outs2 = ex.run_fn(o.st, fn, [o.st.ref(TupV(())), o.st.ref(SymStr([r[0]]))])
            paths += len(outs2)
            for o2 in outs2:
                r2 = as_str(o2.st, o2.val).items
                if len(r2) != 1:
                    bads.append(z3.And(*o2.st.pc))
                else:
                    bads.append(z3.And(*o2.st.pc, r2[0] != r[0]))
    ctx.finish(ob, ex, t0)
    ob.paths = paths
    ctx.check_classes(ob)
    ob.verdict = decide(ob.qid, [valid_char(c)] + ob.defs, z3.Or(*bads), [c], all_sat=True, max_models=ctx.cap(ob.qid),
                        second=ctx.second, workdir=ctx.workdir, second_timeout_s=getattr(ctx, 'second_timeout', 60), timeout_s=300)
    return ob


# =========================================================================== Q07g  grapheme splitter keep/split
def make_gc_models(ctx):
    def m_gc_of(ex, st, fr, callee, a, depth):
        return Opaque('gc', deref(st, a[0]))

    def m_is_mark(ex, st, fr, callee, a, depth):
        """table stub: unic-ucd-category GeneralCategory::of(c).is_mark() dumped by running the crate"""
        return in_ranges(deref(st, a[0]).p[0], ctx.oracle['gc_mark'])

    def m_is_other(ex, st, fr, callee, a, depth):
        return in_ranges(deref(st, a[0]).p[0], ctx.oracle['gc_other'])
    return [(P(r'^GeneralCategory::of$'), m_gc_of), (P(r'^GeneralCategory::is_mark$'), m_is_mark),
            (P(r'^GeneralCategory::is_other$'), m_is_other)]


def exec_split(ctx, cs, assume):
    fields = ctx.mir.structs.get('RegExpConfig')
    cfg = TupV([z3.BitVec(f, 32) if f.startswith('minimum_') else z3.Bool(f) for f in fields], fields, 'RegExpConfig')
    ex = ctx.new_exec(make_gc_models(ctx))
    fn = ctx.mir.one_fn(r'^cluster::<impl at [^>]*>::from::\{closure#0\}$')
    st = State(pc=list(assume))
    env = TupV([st.ref(cfg)])
    return ex, ex.run_fn(st, fn, [st.ref(env), st.ref(SymStr(cs))])


def split_units(st, val):
    """the splitter's result as a list of units (each a tuple of code point terms)"""
    v = deref(st, val)
    if not isinstance(v, ListV):
        raise Inconclusive('splitter returned %r' % (v,))
    units = []
    for g in v.items:
        g = deref(st, g)
        chars = deref(st, g.get('chars') if g.names else g.fields[0])
        if not isinstance(chars, ListV):
            raise Inconclusive('Grapheme.chars is %r' % (chars,))
        for unit in chars.items:
            units.append(tuple(as_str(st, unit).items))
    return units


@guarded
def q07g(ctx, n, realisable):
    """Q07g: the grapheme splitter never keeps a multi-code-point unit that contains a backslash"""
    ob = Obligation('Q07g[n=%d,%s]' % (n, 'realisable' if realisable else 'any'), q07g.__doc__)
    ob.domain = 'unit of %d code points, every scalar value each' % n + \
        ('; code points 2..n restricted to grapheme extenders that are not marks (so that the unit is one extended grapheme cluster)' if realisable else '')
    ob.bound = 'units of exactly %d code points' % n
    cs = [z3.BitVec('u%d' % i, 32) for i in range(n)]
    assume = [valid_char(x) for x in cs]
    if realisable:
        assume += [in_ranges(x, ctx.oracle['ext_nonmark']) for x in cs[1:]]
    t0 = time.time()
    ex, outs = exec_split(ctx, cs, assume)
    ctx.finish(ob, ex, t0)
    ob.paths = len(outs)
    bads = []
    for o in outs:
        if o.panic:
            bads.append(z3.And(*o.st.pc))
            continue
        v = deref(o.st, o.val)
        if not isinstance(v, ListV):
            raise Inconclusive('splitter returned %r' % (v,))
        k = 'split' if len(v.items) == n and n > 1 else ('whole' if len(v.items) == 1 else 'other')
        if n == 1:
            k = 'whole'
        ob.classes_seen[k] = ob.classes_seen.get(k, 0) + 1
        total = []
        for g in v.items:
            g = deref(o.st, g)
            chars = deref(o.st, g.get('chars') if g.names else g.fields[0])
            if not isinstance(chars, ListV):
                raise Inconclusive('Grapheme.chars is %r' % (chars,))
            for unit in chars.items:
                u = as_str(o.st, unit).items
                total += list(u)
                if len(u) > 1:
                    bads.append(z3.And(*o.st.pc, z3.Or(*[x == BV(92, 32) for x in u])))
        # the units must also be a partition of the input, in order
        if len(total) != n:
            bads.append(z3.And(*o.st.pc))
        else:
            bads.append(z3.And(*o.st.pc, z3.Not(z3.And(*[a == b for a, b in zip(total, cs)]))))
    ob.classes_expected = ['whole'] if n == 1 else ['whole', 'split']
    ctx.check_classes(ob)
    ob.verdict = decide(ob.qid, assume + ob.defs, z3.Or(*bads), cs, all_sat=realisable, max_models=ctx.cap('Q07g'),
                        second=ctx.second, workdir=ctx.workdir, second_timeout_s=getattr(ctx, 'second_timeout', 60))
    return ob


# =========================================================================== Q07t  threshold setters
def symbolic_builder(ctx, st, prefix=''):
    fields = ctx.mir.structs.get('RegExpConfig')
    bfields = ctx.mir.structs.get('RegExpBuilder')
    if not fields or bfields != ['test_cases', 'config']:
        raise Inconclusive('RegExpBuilder / RegExpConfig layout not as expected: %s' % (bfields,))
    vals = [z3.BitVec(prefix + f, 32) if f.startswith('minimum_') else z3.Bool(prefix + f) for f in fields]
    cases = ListV([SymStr([z3.BitVec(prefix + 'tc0', 32)])])
    b = TupV([cases, TupV(vals, fields, 'RegExpConfig')], bfields, 'RegExpBuilder')
    return st.ref(b), vals, fields


def config_of(st, bref):
    b = st.load(bref)
    return b.get('config'), b.get('test_cases')


@guarded
def q07t(ctx, which):
    """Q07t: with_minimum_repetitions / with_minimum_substring_length panic with the documented message iff the argument is 0"""
    meth, field, msg = {
        'repetitions': ('with_minimum_repetitions', 'minimum_repetitions',
                        'Quantity of minimum repetitions must be greater than zero'),
        'substring': ('with_minimum_substring_length', 'minimum_substring_length',
                      'Minimum substring length must be greater than zero')}[which]
    ob = Obligation('Q07t[%s]' % which, '%s(q): panics with the documented message iff q == 0, else stores q and nothing else' % meth)
    ob.domain = 'q: every u32; builder: arbitrary settings'
    ob.bound = 'none'
    ob.classes_expected = ['panic', 'return']
    q = z3.BitVec('q', 32)
    ex = ctx.new_exec()
    st = State()
    bref, vals, fields = symbolic_builder(ctx, st)
    fn = ctx.mir.one_fn(r'^builder::<impl at [^>]*>::%s$' % meth)
    t0 = time.time()
    outs = ex.run_fn(st, fn, [bref, q])
    ctx.finish(ob, ex, t0)
    ob.paths = len(outs)
    bads = []
    for o in outs:
        if o.panic:
            ob.classes_seen['panic'] = ob.classes_seen.get('panic', 0) + 1
            ob.extra.setdefault('panic_messages', []).append(o.panic)
            bads.append(z3.And(*o.st.pc, q != 0))
            if o.panic != msg:
                bads.append(z3.And(*o.st.pc))
            continue
        ob.classes_seen['return'] = ob.classes_seen.get('return', 0) + 1
        cfg, _tc = config_of(o.st, bref)
        conds = [q != 0]
        for f, v0 in zip(fields, vals):
            v1 = cfg.get(f)
            conds.append(v1 == q if f == field else v1 == v0)
        bads.append(z3.And(*o.st.pc, z3.Not(z3.And(*conds))))
    ctx.check_classes(ob)
    ob.verdict = decide(ob.qid, ob.defs, z3.Or(*bads), [q] + vals, second=ctx.second, workdir=ctx.workdir, second_timeout_s=getattr(ctx, 'second_timeout', 60))
    return ob


# =========================================================================== Q10  setters
def setter_list(ctx):
    """(method name, MIR body, n extra args) for every `pub fn with*/without*(&mut self, ..) -> &mut Self`"""
    res = []
    for n, b in ctx.mir.fns.items():
        m = re.match(r'^builder::<impl at [^>]*>::(with\w*)$', n)
        if m and b.ret.strip() == '&mut RegExpBuilder' and b.params and b.params[0][1].strip() == '&mut RegExpBuilder':
            res.append((m.group(1), n, [t for _p, t in b.params[1:]]))
    return sorted(res)


def run_setter(ctx, ex, st, bref, setter, tag):
    name, fn, argtys = setter
    args = []
    for i, t in enumerate(argtys):
        t = t.strip()
        if t == 'bool':
            args.append(z3.Bool('%s_%s_a%d' % (tag, name, i)))
        elif t == 'u32':
            a = z3.BitVec('%s_%s_a%d' % (tag, name, i), 32)
            st.pc.append(a != 0)     # zero is the documented panic, decided by Q07t
            args.append(a)
        else:
            raise Inconclusive('setter %s has an argument of type %s' % (name, t))
    outs = ex.run_fn(st, fn, [bref] + args)
    good = [o for o in outs if not o.panic]
    if len(good) != 1 or len(outs) != 1:
        raise Inconclusive('setter %s: %d paths' % (name, len(outs)))
    return good[0].st, args


@guarded
def q10(ctx):
    """Q10: builder setters commute, are idempotent, touch only the config, and clone() preserves everything"""
    ob = Obligation('Q10', q10.__doc__)
    setters = setter_list(ctx)
    ob.extra['setters'] = [s[0] for s in setters]
    ob.domain = 'arbitrary initial settings; every ordered pair of the %d setters with arbitrary (non-zero) arguments' % len(setters)
    ob.bound = 'setter histories of length 2 from an arbitrary state (an inductive step: covers histories of any length)'
    if len(setters) < 10:
        raise Inconclusive('only %d setters found' % len(setters))
    ex = ctx.new_exec()
    t0 = time.time()
    bads, vars_ = [], []
    npaths = 0
    base = State()
    bref0, vals, fields = symbolic_builder(ctx, base)
    vars_ += vals
    for i, a in enumerate(setters):
        for j, b in enumerate(setters):
            if j < i:
                continue
            # order a;b versus b;a with the same arguments
            s1 = base.fork()
            s1, args_a = run_setter(ctx, ex, s1, bref0, a, 'x')
            s1, args_b = run_setter(ctx, ex, s1, bref0, b, 'y')
            s2 = base.fork()
            s2, _ = run_setter_with(ctx, ex, s2, bref0, b, args_b)
            s2, _ = run_setter_with(ctx, ex, s2, bref0, a, args_a)
            npaths += 2
            c1, t1 = config_of(s1, bref0)
            c2, t2 = config_of(s2, bref0)
            if i == j:
                # same setter twice with the same argument: idempotent
                s3 = base.fork()
                s3, _ = run_setter_with(ctx, ex, s3, bref0, a, args_a)
                c3, t3 = config_of(s3, bref0)
                s4, _ = run_setter_with(ctx, ex, s3.fork(), bref0, a, args_a)
                c4, t4 = config_of(s4, bref0)
                bads.append(z3.And(*s4.pc, z3.Not(z3.And(*[c3.get(f) == c4.get(f) for f in fields]))))
                if not same_cases(t3, t4) or not same_cases(t3, base.load(bref0).get('test_cases')):
                    bads.append(z3.And(*s4.pc))
                continue
            pc = list(s1.pc) + [c for c in s2.pc if not any(c.eq(d) for d in s1.pc)]
            bads.append(z3.And(*pc, z3.Not(z3.And(*[c1.get(f) == c2.get(f) for f in fields]))))
            if not same_cases(t1, t2):
                bads.append(z3.And(*pc))
            for x in args_a + args_b:
                if not any(x.eq(v) for v in vars_):
                    vars_.append(x)
    # clone
    cl = ctx.mir.one_fn(r'^builder::<impl at [^>]*>::clone$')
    s5 = base.fork()
    ex2 = ctx.new_exec([(P(r'^<Vec<String> as Clone>::clone$'), lambda ex, st, fr, callee, a, depth: deref(st, a[0])),
                        (P(r'^<RegExpConfig as Clone>::clone$'), NotImplementedModel)])
    outs = ex2.run_fn(s5, cl, [bref0])
    npaths += len(outs)
    for o in outs:
        if o.panic:
            bads.append(z3.And(*o.st.pc))
            continue
        nb = o.val
        c0, t0_ = config_of(o.st, bref0)
        bads.append(z3.And(*o.st.pc, z3.Not(z3.And(*[c0.get(f) == nb.get('config').get(f) for f in fields]))))
        if not same_cases(t0_, nb.get('test_cases')):
            bads.append(z3.And(*o.st.pc))
    ctx.finish(ob, ex, t0)
    ob.functions = sorted(set(ob.functions) | set(ex2.stats['inlined_fns']))
    ob.paths = npaths
    ob.classes_seen['pairs'] = len(setters) * (len(setters) + 1) // 2
    ob.verdict = decide('Q10', ob.defs, z3.Or(*bads), vars_, logic='QF_BV', second=ctx.second, workdir=ctx.workdir, second_timeout_s=getattr(ctx, 'second_timeout', 60))
    return ob


def NotImplementedModel(ex, st, fr, callee, a, depth):
    return NotImplemented


def run_setter_with(ctx, ex, st, bref, setter, args):
    name, fn, _t = setter
    outs = ex.run_fn(st, fn, [bref] + list(args))
    good = [o for o in outs if not o.panic]
    if len(good) != 1:
        raise Inconclusive('setter %s: %d non-panicking paths' % (name, len(good)))
    return good[0].st, args


def same_cases(a, b):
    if not (isinstance(a, ListV) and isinstance(b, ListV)) or len(a.items) != len(b.items):
        return False
    for x, y in zip(a.items, b.items):
        if len(x.items) != len(y.items) or not all(p.eq(q) for p, q in zip(x.items, y.items)):
            return False
    return True


# =========================================================================== translator validation
def concrete_eval(ctx, kind, inp):
    """run the encoding of one function on CONCRETE inputs; -> python value comparable with the native result"""
    def one(outs):
        good = [o for o in outs]
        if len(good) != 1:
            raise Inconclusive('%d paths on concrete input' % len(good))
        return good[0]
    if kind == 'escape_char':
        ex, outs = exec_escape(ctx, BV(inp['c'], 32), z3.BoolVal(inp['surrogates']))
        o = one(outs)
        return cps(as_str(o.st, o.val).items)
    if kind in ('is_digit', 'is_word', 'is_space'):
        ex = ctx.new_exec()
        st = State()
        v = concrete(ex.expand(run_predicate(ctx, ex, kind, BV(inp['c'], 32), st)))
        if v is None:
            raise Inconclusive('predicate did not evaluate on a concrete input')
        return bool(v)
    if kind == 'class_tokens':
        s = inp['s']
        ex, outs = exec_ladder(ctx, [BV(x, 32) for x in s], [z3.BoolVal(b) for b in inp['flags']], per_char=False)
        o = one(outs)
        return cps(as_str(o.st, o.val).items)
    if kind == 'lower':
        ex, fn, outs = exec_lower(ctx, BV(inp['c'], 32))
        o = one(outs)
        return cps(as_str(o.st, o.val).items)
    if kind == 'split':
        ex, outs = exec_split(ctx, [BV(x, 32) for x in inp['s']], [])
        o = one(outs)
        return [cps(u) for u in split_units(o.st, o.val)]
    if kind == 'escape_symbols':
        ex, g, outs = exec_escape_symbols(ctx, [[BV(x, 32) for x in inp['s']]], z3.BoolVal(inp['escape']), z3.BoolVal(inp['surrogates']), [])
        o = one(outs)
        return cps(as_str(o.st, o.st.load(g).get('chars').items[0]).items)
    if kind == 'component':
        variants = ctx.mir.enums.get('Component')
        k = inp['kind']
        name = variants[k]
        text = SymStr([BV(x, 32) for x in inp['text']])
        f1, f2 = z3.BoolVal(inp['flag1']), z3.BoolVal(inp['flag2'])
        a, b = BV(inp['a'], 32), BV(inp['b'], 32)
        if name in ('CapturedParenthesizedExpression', 'UncapturedParenthesizedExpression'):
            fields = (text, f1, f2)
        elif name == 'CharClass':
            fields = (text,)
        elif name in ('Caret', 'DollarSign'):
            fields = (f1,)
        elif name == 'Quantifier':
            qs = ctx.mir.enums.get('Quantifier')
            qn = 'KleeneStar' if inp['flag2'] else 'QuestionMark'
            fields = (EnumV('Quantifier', qn, qs.index(qn), ()), f1)
        elif name == 'Repetition':
            fields = (a, f1)
        elif name == 'RepetitionRange':
            fields = (a, b, f1)
        else:
            fields = ()
        ex = ctx.new_exec()
        st = State()
        fn = ctx.mir.one_fn(r'^component::<impl at [^>]*>::to_repr$')
        o = one(ex.run_fn(st, fn, [st.ref(EnumV('Component', name, k, fields)), z3.BoolVal(inp['colored'])]))
        return cps(as_str(o.st, o.val).items)
    if kind == 'grapheme_display':
        ex = ctx.new_exec()
        st = State()
        g = grapheme_value(ctx, st, [[BV(x, 32) for x in u_] for u_ in inp['chars']], inp['min'], inp['max'],
                           (inp['capture'], inp['colored'], inp['verbose']))
        buf = st.ref(SymStr(()))
        o = one(ex.run_fn(st, display_fmt_name(ctx, 'Grapheme'), [st.ref(g), buf]))
        return cps(o.st.load(buf).items)
    raise Inconclusive('no concrete evaluator for ' + kind)


# =========================================================================== Q07e  escape_regexp_symbols
def grapheme_value(ctx, st, units, minv=1, maxv=1, flags=(False, False, False), repetitions=()):
    fields = ctx.mir.structs.get('Grapheme')
    if fields != ['chars', 'repetitions', 'min', 'max', 'is_capturing_group_enabled', 'is_output_colorized', 'is_verbose_mode_enabled']:
        raise Inconclusive('Grapheme layout changed: %s' % (fields,))
    def b(x):
        return x if not isinstance(x, bool) else z3.BoolVal(x)
    def n(x):
        return x if not isinstance(x, int) else BV(x, 32)
    return TupV([ListV([SymStr(u) for u in units]), ListV(list(repetitions)), n(minv), n(maxv), b(flags[0]), b(flags[1]), b(flags[2])],
                fields, 'Grapheme')


def exec_escape_symbols(ctx, units, esc, surr, assume):
    ex = ctx.new_exec()
    fn = ctx.mir.one_fn(r'^grapheme::<impl at [^>]*>::escape_regexp_symbols$')
    st = State(pc=list(assume))
    g = st.ref(grapheme_value(ctx, st, units))
    outs = ex.run_fn(st, fn, [g, esc, surr])
    return ex, g, outs


def literal_text_alternatives(ctx, c, esc, surr):
    """texts that denote exactly the literal c for the regex crate (non-verbose), as [(guard, code points)];
    with escaping of non-ASCII requested, non-ASCII c must take the C11 reference form"""
    O = ctx.oracle
    ascii_or_plain = z3.Or(z3.Not(esc), z3.ULT(c, BV(0x80, 32)))
    alts = [(z3.And(ascii_or_plain, in_ranges(c, O['lit_bare_ok'])), [c]),
            (z3.And(ascii_or_plain, in_ranges(c, O['lit_backslash_ok'])), [BV(92, 32), c])]
    for text, cp, ok_plain, _ok_verbose in O['named_escapes']:
        if ok_plain:
            alts.append((z3.And(ascii_or_plain, c == BV(cp, 32)), list(lit(text).items)))
    for g, ref in escape_reference(c, surr):
        alts.append((z3.And(esc, z3.UGE(c, BV(0x80, 32)), g), ref))
    return alts


@guarded
def q07e(ctx, n=1, exclude=()):
    """Q07e: Grapheme::escape_regexp_symbols turns every unit into text that denotes exactly that literal for the regex crate"""
    ob = Obligation('Q07e[n=%d]' % n, q07e.__doc__)
    ob.domain = 'one unit of %d code point(s), every scalar value each%s; escape-non-ASCII and surrogate flags symbolic' % (
        n, '' if n == 1 else ' except the backslash (multi-code-point units never contain one: Q07g)')
    ob.bound = 'units of exactly %d code point(s); one unit per grapheme' % n
    cs = [z3.BitVec('c%d' % i, 32) for i in range(n)]
    esc, surr = z3.Bool('esc'), z3.Bool('surr')
    assume = [valid_char(c) for c in cs]
    if n > 1:
        assume += [c != BV(92, 32) for c in cs]
    for m in exclude:
        for c in cs:
            assume.append(c != BV(m['c0'], 32))
    if exclude:
        ob.domain += '; minus the %d code point(s) already reported for n = 1' % len(exclude)
    t0 = time.time()
    ex, g, outs = exec_escape_symbols(ctx, [cs], esc, surr, assume)
    ctx.finish(ob, ex, t0)
    ob.paths = len(outs)
    alts = [literal_text_alternatives(ctx, c, esc, surr) for c in cs]
    bads = []
    for o in outs:
        if o.panic:
            bads.append(z3.And(*o.st.pc))
            ob.classes_seen['panic'] = ob.classes_seen.get('panic', 0) + 1
            continue
        gv = o.st.load(g)
        chars = gv.get('chars')
        if not isinstance(chars, ListV) or len(chars.items) != 1:
            raise Inconclusive('chars after escaping: %r' % (chars,))
        items = list(as_str(o.st, chars.items[0]).items)
        k = 'len%d' % len(items)
        ob.classes_seen[k] = ob.classes_seen.get(k, 0) + 1

        def splits(pos, i):
            if i == n:
                return z3.BoolVal(pos == len(items))
            ds = []
            for gd, ref in alts[i]:
                L = len(ref)
                if pos + L <= len(items):
                    ds.append(z3.And(gd, *[a == b for a, b in zip(items[pos:pos + L], ref)], splits(pos + L, i + 1)))
            return z3.Or(*ds) if ds else z3.BoolVal(False)
        bads.append(z3.And(*o.st.pc, z3.Not(splits(0, 0))))
    ob.classes_expected = ['len1', 'len2'] if n == 1 else []
    ctx.check_classes(ob)
    ob.verdict = decide(ob.qid, assume + ob.defs, z3.Or(*bads), cs + [esc, surr], all_sat=True, max_models=ctx.cap('Q07e'),
                        second=ctx.second, workdir=ctx.workdir, second_timeout_s=getattr(ctx, 'second_timeout', 60), block_vars=cs)
    return ob


# =========================================================================== Q15  Component rendering: colour only adds SGR codes
def strip_sgr(items):
    """remove ESC [ <digits and ;> m sequences whose characters are all concrete; -> (stripped items, n removed)
    symbolic items are payload (assumed to contain no ESC) and are kept"""
    out, i, removed = [], 0, 0
    cs = [concrete(x) for x in items]
    while i < len(items):
        if cs[i] == 0x1b and i + 1 < len(items) and cs[i + 1] == ord('['):
            j = i + 2
            while j < len(items) and cs[j] is not None and (chr(cs[j]).isdigit() or cs[j] == ord(';')):
                j += 1
            if j < len(items) and cs[j] == ord('m') and j > i + 2:
                i = j + 1
                removed += 1
                continue
        out.append(items[i])
        i += 1
    return out, removed


def component_values(ctx, k):
    """symbolic instances of Component variant number k: [(description, EnumV, vars, assumptions)]"""
    variants = ctx.mir.enums.get('Component')
    if not variants or len(variants) < 10:
        raise Inconclusive('Component variants not found')
    name = variants[k]
    res = []

    def payload(n, tag):
        vs = [z3.BitVec('%s%d' % (tag, i), 32) for i in range(n)]
        return SymStr(vs), vs, [z3.And(valid_char(v), v != BV(0x1b, 32)) for v in vs]
    b1, b2 = z3.Bool('flag1'), z3.Bool('flag2')
    a, b = z3.BitVec('a', 32), z3.BitVec('b', 32)
    if name in ('CapturedParenthesizedExpression', 'UncapturedParenthesizedExpression'):
        for n in (0, 2):
            s, vs, asm = payload(n, 'p')
            res.append(('%s(payload of %d code points, bool, bool)' % (name, n), EnumV('Component', name, k, (s, b1, b2)), vs + [b1, b2], asm))
    elif name == 'CharClass':
        for n in (0, 1, 3):
            s, vs, asm = payload(n, 'p')
            res.append(('%s(payload of %d code points)' % (name, n), EnumV('Component', name, k, (s,)), vs, asm))
    elif name in ('Caret', 'DollarSign'):
        res.append(('%s(bool)' % name, EnumV('Component', name, k, (b1,)), [b1], []))
    elif name == 'Quantifier':
        qs = ctx.mir.enums.get('Quantifier')
        for qi, qn in enumerate(qs):
            res.append(('Quantifier(%s, bool)' % qn, EnumV('Component', name, k, (EnumV('Quantifier', qn, qi, ()), b1)), [b1], []))
    elif name == 'Repetition':
        res.append(('Repetition(u32, bool)', EnumV('Component', name, k, (a, b1)), [a, b1], []))
    elif name == 'RepetitionRange':
        res.append(('RepetitionRange(u32, u32, bool)', EnumV('Component', name, k, (a, b, b1)), [a, b, b1], []))
    else:
        res.append((name, EnumV('Component', name, k, ()), [], []))
    return res


@guarded
def q15(ctx, k):
    """Q15: for one Component variant, removing the SGR sequences from the coloured rendering gives the plain rendering"""
    variants = ctx.mir.enums.get('Component') or []
    ob = Obligation('Q15[%s]' % (variants[k] if k < len(variants) else k), q15.__doc__)
    ob.domain = 'all field values of the variant: Booleans, every u32, payload strings of 0..3 arbitrary code points without ESC'
    ob.bound = 'payload strings of at most 3 code points (they are copied through unchanged)'
    fn = ctx.mir.one_fn(r'^component::<impl at [^>]*>::to_repr$')
    bads, vars_all, assume_all = [], [], []
    npaths = 0
    ex = ctx.new_exec()
    t0 = time.time()
    for desc, comp, vars_, asm in component_values(ctx, k):
        st = State(pc=list(asm))
        cref = st.ref(comp)
        outs = ex.run_fn(st, fn, [cref, z3.BoolVal(True)])
        for o in outs:
            if o.panic:
                bads.append(z3.And(*o.st.pc))
                continue
            col = list(as_str(o.st, o.val).items)
            stripped, removed = strip_sgr(col)
            if any(concrete(x) == 0x1b for x in stripped):
                raise Inconclusive('coloured rendering of %s contains an ESC that is not part of a recognised SGR sequence' % desc)
            outs2 = ex.run_fn(o.st, fn, [cref, z3.BoolVal(False)])
            for o2 in outs2:
                npaths += 1
                if o2.panic:
                    bads.append(z3.And(*o2.st.pc))
                    continue
                plain = list(as_str(o2.st, o2.val).items)
                cls = 'coloured(%d SGR)' % removed
                ob.classes_seen[cls] = ob.classes_seen.get(cls, 0) + 1
                if len(plain) != len(stripped):
                    bads.append(z3.And(*o2.st.pc))
                else:
                    bads.append(z3.And(*o2.st.pc, z3.Not(z3.And(*[x == y for x, y in zip(stripped, plain)]))))
                if removed == 0 or removed % 2:
                    bads.append(z3.And(*o2.st.pc))      # highlighting must add balanced start/reset codes
        for v in vars_:
            if not any(v.eq(w) for w in vars_all):
                vars_all.append(v)
    ctx.finish(ob, ex, t0)
    ob.paths = npaths
    ob.verdict = decide(ob.qid, ob.defs, z3.Or(*bads) if bads else z3.BoolVal(False), vars_all,
                        second=ctx.second, workdir=ctx.workdir, second_timeout_s=getattr(ctx, 'second_timeout', 60))
    return ob


# =========================================================================== Q15g  Display for Grapheme: colour only adds SGR codes
def exec_grapheme_display(ctx, ex, st, units, minv, maxv, capture, colored, verbose, nested=None):
    fn = ctx.mir.one_fn(r'^grapheme::<impl at [^>]*>::fmt$')   # Display (the derive(Debug) fmt has a distinct header)
    reps = []
    if nested is not None:
        reps = [grapheme_value(ctx, st, nested[0], nested[1], nested[2], (capture, colored, verbose))]
    g = grapheme_value(ctx, st, units, minv, maxv, (capture, colored, verbose), reps)
    buf = st.ref(SymStr(()))
    outs = ex.run_fn(st, fn, [st.ref(g), buf])
    return buf, outs


def display_fmt_name(ctx, ty):
    c = [n for n in ctx.mir.fns if n.endswith('>::fmt') and re.search(r'impl(<[^>]*>)? Display for %s\b' % ty, ctx.mir.impl_headers.get(n, ''))]
    if len(c) != 1:
        raise Inconclusive('Display impl of %s: %s' % (ty, c))
    return c[0]


@guarded
def q15g(ctx, shape):
    """Q15g: Display for Grapheme -- removing the SGR sequences from the highlighted rendering gives the plain rendering"""
    ob = Obligation('Q15g[%s]' % shape, q15g.__doc__)
    nested = None
    if shape == 'class-token':
        cls = z3.BitVec('cls', 32)
        units = [[BV(92, 32), cls]]
        pvars = [cls]
        asm = [valid_char(cls), cls != BV(0x1b, 32)]
        ob.domain = 'one unit "\\\\x" (x any code point: covers the six class tokens and everything else), min/max any u32, capture/verbose flags'
    elif shape.startswith('unit'):
        n = int(shape[4:])
        pvars = [z3.BitVec('p%d' % i, 32) for i in range(n)]
        units = [pvars]
        asm = [z3.And(valid_char(v), v != BV(0x1b, 32)) for v in pvars]
        ob.domain = 'one unit of %d arbitrary code points (no ESC), min/max any u32, capture/verbose flags' % n
    elif shape == 'nested':
        pvars = [z3.BitVec('p0', 32), z3.BitVec('q0', 32)]
        units = [[pvars[0]], [pvars[0]]]
        nested = ([[pvars[1]]], z3.BitVec('imin', 32), z3.BitVec('imax', 32))
        asm = [z3.And(valid_char(v), v != BV(0x1b, 32)) for v in pvars]
        pvars += [nested[1], nested[2]]
        asm += [z3.ULT(nested[1], BV(100, 32)), z3.ULT(nested[2], BV(100, 32)), z3.ULT(z3.BitVec('min', 32), BV(100, 32)),
                z3.ULT(z3.BitVec('max', 32), BV(100, 32))]
        ob.domain = 'two units plus one nested repetition (one unit), all four counts < 100 (two decimal digits), flags'
    else:
        raise Inconclusive('shape ' + shape)
    ob.bound = 'concrete shape "%s"; code points, counts and flags symbolic' % shape
    minv, maxv = z3.BitVec('min', 32), z3.BitVec('max', 32)
    capture, verbose = z3.Bool('capture'), z3.Bool('verbose')
    fn = display_fmt_name(ctx, 'Grapheme')
    ex = ctx.new_exec()
    ex_fn = fn
    t0 = time.time()
    st = State(pc=list(asm))

    def run(st, colored):
        reps = []
        if nested is not None:
            reps = [grapheme_value(ctx, st, nested[0], nested[1], nested[2], (capture, z3.BoolVal(colored), verbose))]
        g = grapheme_value(ctx, st, units, minv, maxv, (capture, z3.BoolVal(colored), verbose), reps)
        buf = st.ref(SymStr(()))
        return buf, ex.run_fn(st, ex_fn, [st.ref(g), buf])
    bads = []
    npaths = 0
    buf1, outs = run(st, True)
    for o in outs:
        if o.panic:
            bads.append(z3.And(*o.st.pc))
            continue
        col = list(o.st.load(buf1).items)
        stripped, removed = strip_sgr(col)
        if any(concrete(x) == 0x1b for x in stripped):
            raise Inconclusive('highlighted rendering contains an ESC outside a recognised SGR sequence')
        buf2, outs2 = run(o.st, False)
        for o2 in outs2:
            npaths += 1
            if o2.panic:
                bads.append(z3.And(*o2.st.pc))
                continue
            plain = list(o2.st.load(buf2).items)
            cls_ = 'sgr_pairs=%d' % (removed // 2)
            ob.classes_seen[cls_] = ob.classes_seen.get(cls_, 0) + 1
            if len(plain) != len(stripped):
                bads.append(z3.And(*o2.st.pc))
            else:
                bads.append(z3.And(*o2.st.pc, z3.Not(z3.And(*[x == y for x, y in zip(stripped, plain)]))))
            if removed % 2:
                bads.append(z3.And(*o2.st.pc))
    ctx.finish(ob, ex, t0)
    ob.paths = npaths
    ob.verdict = decide(ob.qid, asm + ob.defs, z3.Or(*bads) if bads else z3.BoolVal(False), pvars + [minv, maxv, capture, verbose],
                        second=ctx.second, workdir=ctx.workdir, second_timeout_s=getattr(ctx, 'second_timeout', 60))
    return ob
