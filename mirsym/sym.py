"""mirsym: symbolic executor over rustc MIR text (see DESIGN.md 4.4).

Values are immutable Python objects wrapping z3 terms; the mutable part of a path is a
`State` (heap: address -> value, path condition).  Forking a path copies the heap dict.
Every construct without a rule raises `Inconclusive` -- never a verdict.
"""
import re
import z3
from .mir import split_top, split_call

BV = z3.BitVecVal


class Inconclusive(Exception):
    pass


# --------------------------------------------------------------------------- values
class SymStr:
    """str / String: concrete length, each code point a 32-bit term."""
    __slots__ = ('items',)

    def __init__(self, items):
        self.items = tuple(items)

    def __repr__(self):
        return 'SymStr(%s)' % (', '.join(str(z3.simplify(x)) for x in self.items))


class ListV:
    """array / slice / Vec with concrete length."""
    __slots__ = ('items',)

    def __init__(self, items):
        self.items = tuple(items)

    def __repr__(self):
        return 'ListV(n=%d)' % len(self.items)


class TupV:
    """tuple / struct / closure environment."""
    __slots__ = ('fields', 'names', 'tag')

    def __init__(self, fields, names=None, tag=None):
        self.fields, self.names, self.tag = tuple(fields), (tuple(names) if names else None), tag

    def get(self, k):
        if isinstance(k, int):
            return self.fields[k]
        return self.fields[self.names.index(k)]

    def __repr__(self):
        return 'TupV%s(%s)' % ('<%s>' % self.tag if self.tag else '', ', '.join(map(repr, self.fields)))


class EnumV:
    """enum value with a concrete variant."""
    __slots__ = ('enum', 'variant', 'disc', 'fields')

    def __init__(self, enum, variant, disc, fields=()):
        self.enum, self.variant, self.disc, self.fields = enum, variant, disc, tuple(fields)

    def __repr__(self):
        return '%s::%s(%s)' % (self.enum, self.variant, ', '.join(map(repr, self.fields)))


class RefV:
    """reference / Box / raw pointer: heap address + path of field/element indices."""
    __slots__ = ('addr', 'path')

    def __init__(self, addr, path=()):
        self.addr, self.path = addr, tuple(path)

    def __repr__(self):
        return 'RefV(%d%s)' % (self.addr, ''.join('.%s' % p for p in self.path))


class ClosV:
    __slots__ = ('name', 'env')

    def __init__(self, name, env):
        self.name, self.env = name, env

    def __repr__(self):
        return 'ClosV(%s)' % self.name


class FnItem:
    __slots__ = ('path',)

    def __init__(self, path):
        self.path = path

    def __repr__(self):
        return 'FnItem(%s)' % self.path


class IterV:
    """iterator state: kind in {'list','chars','map','range'}"""
    __slots__ = ('kind', 'items', 'pos', 'base', 'clos', 'by_ref')

    def __init__(self, kind, items=None, pos=0, base=None, clos=None, by_ref=None):
        self.kind, self.items, self.pos, self.base, self.clos, self.by_ref = kind, items, pos, base, clos, by_ref

    def __repr__(self):
        return 'IterV(%s)' % self.kind


class InfiniteLanguage(Exception):
    """the expression / pattern under inspection contains an unbounded quantifier: its language is infinite, which is already a
    difference to any finite set of test cases (treated as a violation on that path, not as "could not decide")"""


class Opaque:
    __slots__ = ('tag', 'p')

    def __init__(self, tag, *p):
        self.tag, self.p = tag, p

    def __repr__(self):
        return 'Opaque(%s,%s)' % (self.tag, self.p)


UNIT = TupV(())


def some(x):
    return EnumV('Option', 'Some', 1, (x,))


NONE = EnumV('Option', 'None', 0, ())


def ok(x=UNIT):
    return EnumV('Result', 'Ok', 0, (x,))


def err(x=UNIT):
    return EnumV('Result', 'Err', 1, (x,))


def lit(s):
    return SymStr([BV(ord(ch), 32) for ch in s])


def is_z3(v):
    return isinstance(v, z3.ExprRef)


def concrete(v):
    """python int of a bit-vector term if it simplifies to a numeral, else None"""
    if isinstance(v, int):
        return v
    if is_z3(v):
        s = z3.simplify(v)
        if z3.is_bv_value(s):
            return s.as_long()
        if z3.is_true(s):
            return 1
        if z3.is_false(s):
            return 0
    return None


INT_W = {'u8': 8, 'u16': 16, 'u32': 32, 'u64': 64, 'usize': 64, 'i8': 8, 'i16': 16, 'i32': 32, 'i64': 64,
         'isize': 64, 'char': 32, 'u128': 128, 'i128': 128, 'bool': 1}
SIGNED = {'i8', 'i16', 'i32', 'i64', 'isize', 'i128'}

SCALAR_TYPES = {'bool', 'char', 'u8', 'u16', 'u32', 'u64', 'usize', 'i8', 'i16', 'i32', 'i64', 'isize'}

BUILTIN_ENUMS = {
    'Option': (('None', 0), ('Some', 1)),
    'Result': (('Ok', 0), ('Err', 1)),
    'Ordering': (('Less', -1), ('Equal', 0), ('Greater', 1)),
    'ControlFlow': (('Continue', 0), ('Break', 1)),
}


def parse_char(s):
    if s.startswith('\\u{'):
        return int(s[3:-1], 16)
    if s.startswith('\\x'):
        return int(s[2:], 16)
    if s.startswith('\\'):
        return {'n': 10, 'r': 13, 't': 9, '\\': 92, "'": 39, '0': 0, '"': 34}[s[1]]
    if len(s) != 1:
        raise Inconclusive('char literal ' + s)
    return ord(s)


def unescape_str(body):
    """text between the quotes of a MIR `const "..."` -> python str"""
    out, i, n = [], 0, len(body)
    while i < n:
        ch = body[i]
        if ch != '\\':
            out.append(ch)
            i += 1
            continue
        nx = body[i + 1]
        if nx == 'u':
            j = body.index('}', i)
            out.append(chr(int(body[i + 3:j], 16)))
            i = j + 1
        elif nx == 'x':
            out.append(chr(int(body[i + 2:i + 4], 16)))
            i += 4
        else:
            out.append({'n': '\n', 'r': '\r', 't': '\t', '\\': '\\', "'": "'", '0': '\0', '"': '"'}[nx])
            i += 2
    return ''.join(out)


def unescape_bytes(body):
    out, i, n = bytearray(), 0, len(body)
    while i < n:
        ch = body[i]
        if ch != '\\':
            out += ch.encode('utf-8')
            i += 1
            continue
        nx = body[i + 1]
        if nx == 'x':
            out.append(int(body[i + 2:i + 4], 16))
            i += 4
        else:
            out.append({'n': 10, 'r': 13, 't': 9, '\\': 92, "'": 39, '0': 0, '"': 34}[nx])
            i += 2
    return bytes(out)


# --------------------------------------------------------------------------- state
class State:
    _next_addr = [1]

    def __init__(self, heap=None, pc=None):
        self.heap = heap if heap is not None else {}
        self.pc = pc if pc is not None else []
        self.writes = 0
        self.min_written = 1 << 62     # lowest heap address stored to since the last reset (purity tracking)

    def fork(self, cond=None):
        s = State(dict(self.heap), list(self.pc))
        s.writes = self.writes
        s.min_written = self.min_written
        if cond is not None:
            s.pc.append(cond)
        return s

    def alloc(self, v=None):
        a = State._next_addr[0]
        State._next_addr[0] += 1
        self.heap[a] = v
        return a

    def ref(self, v):
        return RefV(self.alloc(v))

    def load(self, ref):
        if not isinstance(ref, RefV):
            raise Inconclusive('load through non-reference %r' % (ref,))
        v = self.heap.get(ref.addr)
        for k in ref.path:
            v = child(v, k)
        return v

    def store(self, ref, val):
        self.writes += 1
        if ref.addr < self.min_written:
            self.min_written = ref.addr
        self.heap[ref.addr] = set_child_path(self.heap.get(ref.addr), ref.path, val)


def child(v, k):
    if isinstance(v, (TupV, EnumV)):
        if k >= len(v.fields):
            raise Inconclusive('field %d of %r' % (k, v))
        return v.fields[k]
    if isinstance(v, ListV):
        if k >= len(v.items):
            raise Inconclusive('index %d out of %d' % (k, len(v.items)))
        return v.items[k]
    if isinstance(v, RefV) and k == 0:
        return v        # Box<T> / Unique<T> / NonNull<T> are transparent wrappers around the pointer (MIR: ((b.0: Unique).0: NonNull))
    raise Inconclusive('projection .%s on %r' % (k, v))


def set_child_path(v, path, val):
    if not path:
        return val
    k = path[0]
    if isinstance(v, TupV):
        f = list(v.fields)
        f[k] = set_child_path(f[k], path[1:], val)
        return TupV(f, v.names, v.tag)
    if isinstance(v, EnumV):
        f = list(v.fields)
        f[k] = set_child_path(f[k], path[1:], val)
        return EnumV(v.enum, v.variant, v.disc, f)
    if isinstance(v, ListV):
        f = list(v.items)
        f[k] = set_child_path(f[k], path[1:], val)
        return ListV(f)
    raise Inconclusive('store into %r at %s' % (v, path))


class Outcome:
    """result of running a body / a call on one path"""
    __slots__ = ('st', 'val', 'panic')

    def __init__(self, st, val, panic=None):
        self.st, self.val, self.panic = st, val, panic


class Frame:
    def __init__(self, body, st):
        self.body = body
        self.locals = {}
        self.st0 = st

    def addr(self, st, name):
        a = self.locals.get(name)
        if a is None:
            a = st.alloc(None)
            self.locals[name] = a
        elif a not in st.heap:
            st.heap[a] = None
        return a


# --------------------------------------------------------------------------- place parsing
_place_cache = {}


def parse_place(p):
    """-> (local, projections); projection: ('deref',) | ('field', k) | ('downcast', name) | ('index', local) | ('cindex', k)"""
    p = p.strip()
    r = _place_cache.get(p)
    if r is None:
        r = _parse_place(p)
        _place_cache[p] = r
    return r


def _match_paren(s, i):
    """index of the ')' matching the '(' at s[i]"""
    depth = 0
    for j in range(i, len(s)):
        if s[j] == '(':
            depth += 1
        elif s[j] == ')':
            depth -= 1
            if depth == 0:
                return j
    raise Inconclusive('unbalanced place ' + s)


def _parse_place(p):
    """grammar (as printed by rustc):  P ::= _N | (*P) | (P.K: TYPE) | (P as Variant) | P[_N] | P[K of M]"""
    if re.fullmatch(r'_\d+', p):
        return (p, ())
    m = re.fullmatch(r'(.*)\[(_\d+)\]', p, re.S)
    if m:
        b, pr = parse_place(m.group(1))
        return (b, pr + (('index', m.group(2)),))
    m = re.fullmatch(r'(.*)\[(\d+) of \d+\]', p, re.S)
    if m:
        b, pr = parse_place(m.group(1))
        return (b, pr + (('cindex', int(m.group(2))),))
    if p.startswith('(') and _match_paren(p, 0) == len(p) - 1:
        inner = p[1:-1].strip()
        if inner.startswith('*'):
            b, pr = parse_place(inner[1:])
            return (b, pr + (('deref',),))
        # base: either a parenthesised place or a bare local (possibly indexed)
        if inner.startswith('('):
            j = _match_paren(inner, 0) + 1
        else:
            m = re.match(r'_\d+', inner)
            if not m:
                raise Inconclusive('place ' + p)
            j = m.end()
        # optional index suffixes on the base
        while True:
            m = re.match(r'\[(?:_\d+|\d+ of \d+)\]', inner[j:])
            if not m:
                break
            j += m.end()
        base, rest = inner[:j], inner[j:]
        m = re.match(r'\.(\d+): ', rest)
        if m:
            b, pr = parse_place(base)
            return (b, pr + (('field', int(m.group(1))),))
        m = re.fullmatch(r' as (\w+)', rest)
        if m:
            b, pr = parse_place(base)
            return (b, pr + (('downcast', m.group(1)),))
        raise Inconclusive('place ' + p)
    raise Inconclusive('place ' + p)


def strip_generics(path):
    """drop ::<...> turbofish and <...> argument lists at any depth"""
    out, depth, i = [], 0, 0
    while i < len(path):
        ch = path[i]
        if ch == '<':
            depth += 1
        elif ch == '>' and path[i - 1] != '-':
            depth -= 1
        elif depth == 0:
            out.append(ch)
        i += 1
    return re.sub(r'::(::)+', '::', ''.join(out)).strip(':')


# --------------------------------------------------------------------------- executor
_STMT_CACHE = {}


def parse_stmt(s):
    """classify one MIR statement / terminator text once; the result is cached by text"""
    c0 = s[0]
    if c0 in 'SnFPARC' and re.match(r'(StorageLive|StorageDead|nop|FakeRead|PlaceMention|AscribeUserType|Retag|Coverage|ConstEvalCounter)', s):
        return ('skip',)
    if s == 'return':
        return ('return',)
    if s == 'unreachable':
        return ('unreachable',)
    m = re.match(r'goto -> (bb\d+)$', s)
    if m:
        return ('goto', m.group(1))
    m = re.match(r'drop\(.*\) -> \[return: (bb\d+), .*\]$', s, re.S)
    if m:
        return ('goto', m.group(1))
    m = re.match(r'switchInt\((.*)\) -> \[(.*)\]$', s, re.S)
    if m:
        arms = []
        for t in split_top(m.group(2)):
            k, tgt = [x.strip() for x in t.rsplit(':', 1)]
            arms.append((k if k == 'otherwise' else int(k), tgt))
        return ('switch', m.group(1), arms, 'otherwise' in m.group(2))
    m = re.match(r'assert\((!?)(.*?), "(.*)\) -> \[success: (bb\d+), .*\]$', s, re.S)
    if m:
        return ('assert', bool(m.group(1)), m.group(2), m.group(3), m.group(4))
    m = re.match(r'(.*?) = (.*) -> \[return: (bb\d+), unwind.*\]$', s, re.S)
    sc = split_call(m.group(2).strip()) if m else None
    if sc:
        return ('call', m.group(1), sc[0], split_top(sc[1]), m.group(3))
    m = re.match(r'(.*?) = (.*) -> unwind.*$', s, re.S) or re.match(r'(.*?) = (.*\)) -> bb\d+$', s, re.S)
    sc = split_call(m.group(2).strip()) if m else None
    if sc:
        return ('diverge', sc[0], split_top(sc[1]))       # no return edge (the only successor, if any, is the unwind path)
    m = re.match(r'discriminant\((.*)\) = (\d+)$', s)
    if m:
        return ('setdiscr',)
    m = re.match(r'(.*?) = (.*)$', s, re.S)
    if m:
        return ('assign', m.group(1), m.group(2))
    return ('unknown',)


class Exec:
    def __init__(self, mir, models, max_depth=40, max_steps=2_000_000, timeout_ms=60000):
        self.mir, self.models, self.max_depth, self.max_steps = mir, models, max_depth, max_steps
        self.solver = z3.SolverFor('QF_UFBV')
        self.solver.set('timeout', 1500)        # quick incremental attempt; feasible() falls back to a fresh solver
        self.timeout_ms = timeout_ms
        self.uses_uf = False
        self.steps = 0
        self.stats = {'paths': 0, 'calls_inlined': 0, 'models_used': {}, 'feasibility_checks': 0, 'inlined_fns': {},
                      'panic_edges_cut': 0}
        self.defs = []         # definitions `name == big term` introduced by define(); part of every final query
        self._def_cache = {}
        self._model_cache = {}
        self.cut_panics = []   # (pc, where, message): panic side of MIR `assert` terminators that is feasible
        self._closure_by_span = None

    # ---------- solver
    def feasible(self, pc, extra=None):
        self.stats['feasibility_checks'] += 1
        self.solver.push()
        self.solver.add(*pc)
        if extra is not None:
            self.solver.add(extra)
        r = self.solver.check()
        self.solver.pop()
        if r == z3.unknown:
            # the incremental core gave up (large table terms): decide this one query with the bit-blasting tactic
            self.stats['feasibility_fallbacks'] = self.stats.get('feasibility_fallbacks', 0) + 1
            s2 = z3.SolverFor('QF_UFBV' if self.uses_uf else 'QF_BV')
            s2.set('timeout', self.timeout_ms)
            s2.add(*self.defs)
            s2.add(*pc)
            if extra is not None:
                s2.add(extra)
            r = s2.check()
            if r == z3.unknown:
                raise Inconclusive('solver unknown in feasibility check')
        return r == z3.sat

    def bounds(self, st, x):
        """syntactic unsigned interval [lo, hi] that the path condition imposes on the VARIABLE x (None if x is not a variable);
        sound by construction: only conjuncts of the form x <=/>=/</>/== numeral are read, everything else is ignored"""
        if is_z3(x) and z3.is_bv(x) and not (z3.is_const(x) and x.decl().kind() == z3.Z3_OP_UNINTERPRETED):
            # a term built from variables: numeral, ite(c, a, b) -> hull of both sides, a + numeral -> shifted (if it cannot wrap)
            full = (1 << x.size()) - 1
            if z3.is_bv_value(x):
                return x.as_long(), x.as_long()
            k = x.decl().kind()
            if k == z3.Z3_OP_ITE:
                a, b = self.bounds(st, x.arg(1)), self.bounds(st, x.arg(2))
                if a is None or b is None:
                    return None
                return min(a[0], b[0]), max(a[1], b[1])
            if k == z3.Z3_OP_BADD and x.num_args() == 2:
                a, b = self.bounds(st, x.arg(0)), self.bounds(st, x.arg(1))
                if a is None or b is None or a[1] + b[1] > full:
                    return None
                return a[0] + b[0], a[1] + b[1]
            return None
        if not (is_z3(x) and z3.is_const(x) and x.decl().kind() == z3.Z3_OP_UNINTERPRETED and z3.is_bv(x)):
            return None
        lo, hi = 0, (1 << x.size()) - 1
        work = list(st.pc)
        while work:
            c = work.pop()
            k = c.decl().kind()
            if k == z3.Z3_OP_AND:
                work.extend(c.children())
                continue
            neg = False
            if k == z3.Z3_OP_NOT:
                c = c.arg(0)
                k = c.decl().kind()
                neg = True
            if k == z3.Z3_OP_EQ and not neg:
                a, b = c.arg(0), c.arg(1)
                if a.eq(x) and z3.is_bv_value(b):
                    lo, hi = max(lo, b.as_long()), min(hi, b.as_long())
                elif b.eq(x) and z3.is_bv_value(a):
                    lo, hi = max(lo, a.as_long()), min(hi, a.as_long())
                continue
            if k not in (z3.Z3_OP_ULEQ, z3.Z3_OP_UGEQ, z3.Z3_OP_ULT, z3.Z3_OP_UGT):
                continue
            a, b = c.arg(0), c.arg(1)
            # normalise to  x OP n
            if a.eq(x) and z3.is_bv_value(b):
                n = b.as_long()
            elif b.eq(x) and z3.is_bv_value(a):
                n = a.as_long()
                k = {z3.Z3_OP_ULEQ: z3.Z3_OP_UGEQ, z3.Z3_OP_UGEQ: z3.Z3_OP_ULEQ, z3.Z3_OP_ULT: z3.Z3_OP_UGT, z3.Z3_OP_UGT: z3.Z3_OP_ULT}[k]
            else:
                continue
            if neg:
                k = {z3.Z3_OP_ULEQ: z3.Z3_OP_UGT, z3.Z3_OP_UGEQ: z3.Z3_OP_ULT, z3.Z3_OP_ULT: z3.Z3_OP_UGEQ, z3.Z3_OP_UGT: z3.Z3_OP_ULEQ}[k]
            if k == z3.Z3_OP_ULEQ:
                hi = min(hi, n)
            elif k == z3.Z3_OP_ULT:
                hi = min(hi, n - 1)
            elif k == z3.Z3_OP_UGEQ:
                lo = max(lo, n)
            else:
                lo = max(lo, n + 1)
        return lo, hi

    def in_table(self, st, x, ranges):
        """membership of x in sorted disjoint closed ranges, with the table clipped to the interval the path condition confines x to"""
        from .smt import in_ranges
        b = self.bounds(st, x)
        if b is None or (b[0] == 0 and b[1] == (1 << x.size()) - 1):
            return in_ranges(x, ranges)
        lo, hi = b
        if lo > hi:
            return z3.BoolVal(False)
        clipped = [(max(int(a), lo), min(int(c), hi)) for a, c in ranges if int(c) >= lo and int(a) <= hi]
        if not clipped:
            return z3.BoolVal(False)
        if len(clipped) == 1 and clipped[0] == (lo, hi):
            return z3.BoolVal(True)
        return in_ranges(x, clipped)

    def define(self, term, prefix='def'):
        """name a large Boolean term once (hash-consed), so that path conditions stay small"""
        k = term.get_id()
        hit = self._def_cache.get(k)
        if hit is not None:
            return hit[0]
        b = z3.Bool('%s!%d' % (prefix, len(self.defs)))
        self._def_cache[k] = (b, term)      # keep term alive so that the id is not reused
        self.defs.append(b == term)
        self.solver.add(b == term)
        return b

    def expand(self, term):
        """replace names introduced by define() by their definitions"""
        subs = [(b, t) for (b, t) in self._def_cache.values()]
        for _ in range(len(subs) + 1):
            new = z3.substitute(term, *subs) if subs else term
            if new.eq(term):
                break
            term = new
        return term

    def must(self, st, cond):
        """is cond implied by the path condition?  (cond: z3 Bool)"""
        c = z3.simplify(cond)
        if z3.is_true(c):
            return True
        if z3.is_false(c):
            return False
        return not self.feasible(st.pc, z3.Not(c))

    def branch(self, st, cond):
        """-> list of (state, truth) for the feasible sides of a symbolic Boolean"""
        c = z3.simplify(cond)
        if z3.is_true(c):
            return [(st, True)]
        if z3.is_false(c):
            return [(st, False)]
        t = self.feasible(st.pc, c)
        f = True if not t else self.feasible(st.pc, z3.Not(c))
        if t and f:
            return [(st.fork(c), True), (st.fork(z3.Not(c)), False)]
        if t:
            return [(st, True)]
        if f:
            return [(st, False)]
        raise Inconclusive('path condition became unsatisfiable')

    # ---------- name resolution
    def resolve_fn(self, callee, caller):
        fns = self.mir.fns
        if callee in fns:
            return callee
        # <T as Trait>::method  -> an `<impl at ..>` body whose header text names Trait and T
        m = re.match(r'^<(.+) as ([\w:]+)(?:<.*>)?>::(\w+)(::.*)?$', callee)
        if m:
            ty, trait, meth, rest = m.group(1), m.group(2).split('::')[-1], m.group(3), m.group(4) or ''
            ty_short = strip_generics(ty).split('::')[-1].lstrip('&').strip()
            cands = []
            for n in fns:
                if 'lazy_static' in n:
                    b = fns[n]
                    if n.endswith('>::' + meth) and b.params and \
                            strip_generics(b.params[0][1]).lstrip('&').split('::')[-1].strip() == ty_short and \
                            (n + rest) in fns:
                        cands.append(n + rest)
                    continue
                if not n.endswith('>::' + meth + rest):
                    continue
                hdr = self.mir.impl_headers.get(n)
                b = fns[n]
                if hdr is None:
                    continue
                if re.search(r'\b%s\b' % re.escape(trait), hdr) and (
                        re.search(r'\bfor\s+%s\b' % re.escape(ty_short), hdr) or hdr.strip() == trait):
                    if hdr.strip() == trait:   # derive: check the self type through the first parameter
                        if not (b.params and strip_generics(b.params[0][1]).lstrip('&').split('::')[-1].strip() == ty_short):
                            continue
                    cands.append(n)
            if len(cands) == 1:
                return cands[0]
            if len(cands) > 1:
                raise Inconclusive('ambiguous callee %s: %s' % (callee, cands[:4]))
            return None
        segs = [s for s in strip_generics(callee).split('::') if s]
        if not segs:
            return None
        tail = segs[-1]
        cands = [n for n in fns if n == tail or n.endswith('::' + tail)]
        if len(segs) == 1:
            # a bare name is a free function (possibly imported from another crate), never a method of an impl block
            cands = [n for n in cands if '<impl' not in n]
        if len(cands) > 1 and len(segs) >= 2:
            # Type::method -> `<module>::<impl at ..>::method` whose header names Type (inherent impl)
            c2 = []
            for n in cands:
                hdr = self.mir.impl_headers.get(n, '')
                if re.search(r'\bimpl(<[^>]*>)?\s+%s\b' % re.escape(segs[-2]), hdr) and ' for ' not in hdr:
                    c2.append(n)
            if c2:
                cands = c2
            else:
                c2 = [n for n in cands if ('::' + segs[-2] + '::' + tail) in ('::' + n)]
                # `Type::method` where no impl of `Type` exists in this crate is not a grex function
                cands = c2 if (c2 or segs[-2][:1].isupper()) else cands
        if len(cands) > 1:
            top = caller.split('::')[0]
            c2 = [n for n in cands if n.startswith(top + '::')]
            if c2:
                cands = c2
        if len(cands) == 1:
            return cands[0]
        if len(cands) > 1:
            raise Inconclusive('ambiguous callee %s: %s' % (callee, cands[:4]))
        return None

    def resolve_const(self, path, caller):
        consts = self.mir.consts
        m = re.search(r'::promoted\[(\d+)\]$', path)
        if m:
            key = '%s::promoted[%s]' % (caller, m.group(1))
            if key in consts:
                return key
            if path in consts:
                return path
            # promoted constants are headed `mod::<impl at ..>::f::promoted[k]` but referenced as `mod::Type::f::promoted[k]`
            segs = path[:m.start()].split('::')
            c = [k for k in consts if k.endswith('::%s::promoted[%s]' % (segs[-1], m.group(1)))]
            if len(c) > 1:
                c2 = [k for k in c if k.startswith(segs[0] + '::')]
                c = c2 or c
            return c[0] if len(c) == 1 else None
        if path in consts:
            return path
        tail = path.split('::')[-1]
        c = [k for k in consts if k == tail or k.endswith('::' + tail)]
        return c[0] if len(c) == 1 else None

    def closure_name(self, txt):
        m = re.match(r'\{closure@([^}]*)\}', txt)
        if not m:
            raise Inconclusive('closure ' + txt)
        span = m.group(1)
        if self._closure_by_span is None:
            self._closure_by_span = {}
            for n, b in self.mir.fns.items():
                if '{closure#' in n and b.params:
                    sm = re.search(r'\{closure@([^}]*)\}', b.params[0][1])
                    if sm:
                        self._closure_by_span[sm.group(1)] = n
        if span in self._closure_by_span:
            return self._closure_by_span[span]
        raise Inconclusive('closure body for ' + txt)

    def enum_variant(self, path):
        """`a::Enum::<T>::Variant` -> (enum, variant, discriminant) or None"""
        segs = [s for s in strip_generics(path).split('::') if s]
        if len(segs) == 1 and segs[0] in ('Less', 'Equal', 'Greater'):
            segs = ['Ordering', segs[0]]      # MIR prints core::cmp::Ordering variants bare
        if len(segs) < 2:
            return None
        en, var = segs[-2], segs[-1]
        if en in BUILTIN_ENUMS:
            for v, d in BUILTIN_ENUMS[en]:
                if v == var:
                    return (en, var, d)
            return None
        vs = self.mir.enums.get(en)
        if vs and var in vs:
            return (en, var, vs.index(var))
        return None

    # ---------- places
    def locate(self, st, fr, place):
        """-> RefV designating the place"""
        local, projs = parse_place(place)
        ref = RefV(fr.addr(st, local))
        for pr in projs:
            k = pr[0]
            if k == 'deref':
                r = st.load(ref)
                if not isinstance(r, RefV):
                    raise Inconclusive('deref of %r in %s (%s)' % (r, place, fr.body.name))
                ref = r
            elif k == 'field':
                ref = RefV(ref.addr, ref.path + (pr[1],))
            elif k == 'cindex':
                ref = RefV(ref.addr, ref.path + (pr[1],))
            elif k == 'index':
                i = concrete(st.load(RefV(fr.addr(st, pr[1]))))
                if i is None:
                    raise Inconclusive('symbolic index in ' + place)
                ref = RefV(ref.addr, ref.path + (i,))
            elif k == 'downcast':
                v = st.load(ref)
                if isinstance(v, EnumV) and v.variant != pr[1]:
                    raise Inconclusive('downcast %s of %r' % (pr[1], v))
        return ref

    def read_place(self, st, fr, place):
        v = st.load(self.locate(st, fr, place))
        if v is None:
            raise Inconclusive('read of uninitialised %s in %s' % (place, fr.body.name))
        return v

    def write_place(self, st, fr, place, val):
        st.store(self.locate(st, fr, place), val)

    # ---------- operands / rvalues
    def const(self, st, fr, tok):
        t = tok[len('const '):].strip()
        if t in ('true', 'false'):
            return z3.BoolVal(t == 'true')
        m = re.fullmatch(r"'(.*)'", t, re.S)
        if m:
            return BV(parse_char(m.group(1)), 32)
        m = re.fullmatch(r'(-?\d+)_(\w+)', t)
        if m and m.group(2) in INT_W:
            return BV(int(m.group(1)), INT_W[m.group(2)])
        m = re.fullmatch(r'"(.*)"', t, re.S)
        if m:
            return st.ref(lit(unescape_str(m.group(1))))
        m = re.fullmatch(r'b"(.*)"', t, re.S)
        if m:
            return st.ref(Opaque('bytes', unescape_bytes(m.group(1))))
        if t.startswith('ZeroSized: {closure@'):
            return ClosV(self.closure_name(t[len('ZeroSized: '):]), TupV(()))
        m = re.fullmatch(r'\{alloc\d+: &(.*)\}', t, re.S)
        if m:
            return st.ref(Opaque('static', m.group(1)))
        if t == '()':
            return UNIT
        ev = self.enum_variant(t)
        if ev and '(' not in t:
            return EnumV(ev[0], ev[1], ev[2], ())
        key = self.resolve_const(t, fr.body.name)
        if key:
            return self.run_const(st, key)
        tail = t.split('::')[-1]
        if tail in self.mir.inline_consts and t != self.mir.inline_consts[tail][6:]:
            return self.const(st, fr, self.mir.inline_consts[tail])
        if re.match(r'^[\w:<>&\', \[\];]+$', t) and ('::' in t or t[0].islower()):
            return FnItem(t)
        raise Inconclusive('const ' + tok)

    def operand(self, st, fr, tok):
        tok = tok.strip()
        m = re.match(r'(?:no_retag )?(?:copy|move) (.*)$', tok, re.S)
        if m:
            return self.read_place(st, fr, m.group(1))
        if tok.startswith('const '):
            return self.const(st, fr, tok)
        ev = self.enum_variant(tok)
        if ev:
            return EnumV(ev[0], ev[1], ev[2], ())
        return FnItem(tok)

    def operand_type(self, fr, tok):
        tok = tok.strip()
        m = re.match(r'(?:no_retag )?(?:copy|move) (.*)$', tok, re.S)
        if m:
            p = m.group(1).strip()
            if p in fr.body.local_types:
                return fr.body.local_types[p]
            tm = re.search(r': ([\w:]+)\)$', p)
            if tm:
                return tm.group(1)
            return None
        m = re.fullmatch(r'const -?\d+_(\w+)', tok)
        if m:
            return m.group(1)
        if tok.startswith("const '"):
            return 'char'
        return None

    def binop(self, op, a, b, ty):
        signed = ty in SIGNED
        if z3.is_bool(a) and z3.is_bool(b):
            return {'Eq': a == b, 'Ne': a != b, 'BitAnd': z3.And(a, b), 'BitOr': z3.Or(a, b),
                    'BitXor': z3.Xor(a, b)}.get(op)
        if not (is_z3(a) and is_z3(b)):
            raise Inconclusive('binop %s on %r, %r' % (op, a, b))
        if op in ('Shl', 'Shr', 'ShlUnchecked', 'ShrUnchecked') and a.size() != b.size():
            b = z3.ZeroExt(a.size() - b.size(), b) if b.size() < a.size() else z3.Extract(a.size() - 1, 0, b)
        if op == 'Eq': return a == b
        if op == 'Ne': return a != b
        if op == 'Lt': return a < b if signed else z3.ULT(a, b)
        if op == 'Le': return a <= b if signed else z3.ULE(a, b)
        if op == 'Gt': return a > b if signed else z3.UGT(a, b)
        if op == 'Ge': return a >= b if signed else z3.UGE(a, b)
        if op in ('Add', 'AddUnchecked'): return a + b
        if op in ('Sub', 'SubUnchecked'): return a - b
        if op in ('Mul', 'MulUnchecked'): return a * b
        if op == 'BitAnd': return a & b
        if op == 'BitOr': return a | b
        if op == 'BitXor': return a ^ b
        if op in ('Shl', 'ShlUnchecked'): return a << b
        if op in ('Shr', 'ShrUnchecked'): return (a >> b) if signed else z3.LShR(a, b)
        if op == 'Div': return (a / b) if signed else z3.UDiv(a, b)
        if op == 'Rem': return z3.SRem(a, b) if signed else z3.URem(a, b)
        w = a.size()
        if op == 'AddWithOverflow':
            if signed:
                ov = z3.Or(z3.Not(z3.BVAddNoOverflow(a, b, True)), z3.Not(z3.BVAddNoUnderflow(a, b)))
            else:
                ov = z3.Not(z3.BVAddNoOverflow(a, b, False))
            return TupV((a + b, ov))
        if op == 'SubWithOverflow':
            if signed:
                ov = z3.Or(z3.Not(z3.BVSubNoOverflow(a, b)), z3.Not(z3.BVSubNoUnderflow(a, b, True)))
            else:
                ov = z3.ULT(a, b)
            return TupV((a - b, ov))
        if op == 'MulWithOverflow':
            if signed:
                ov = z3.Or(z3.Not(z3.BVMulNoOverflow(a, b, True)), z3.Not(z3.BVMulNoUnderflow(a, b)))
            else:
                ov = z3.Not(z3.BVMulNoOverflow(a, b, False))
            return TupV((a * b, ov))
        if op == 'Cmp':
            raise Inconclusive('three-way Cmp')
        return None

    BINOPS = ('Eq', 'Ne', 'Lt', 'Le', 'Gt', 'Ge', 'Add', 'Sub', 'Mul', 'BitAnd', 'BitOr', 'BitXor', 'Shl', 'Shr',
              'Div', 'Rem', 'AddWithOverflow', 'SubWithOverflow', 'MulWithOverflow', 'AddUnchecked', 'SubUnchecked',
              'MulUnchecked', 'ShlUnchecked', 'ShrUnchecked', 'Cmp')

    def rvalue(self, st, fr, rv):
        rv = rv.strip()
        if rv.startswith('const '):
            return self.const(st, fr, rv)
        if re.match(r'(?:no_retag )?(?:copy|move) ', rv) and not re.search(r' as .* \((IntToInt|IntToFloat|FloatToInt|FloatToFloat|PtrToPtr|FnPtrToPtr|Transmute|PointerCoercion\(.*\)|PointerExposeProvenance|PointerWithExposedProvenance)\)$', rv, re.S):
            return self.operand(st, fr, rv)
        m = re.match(r'&(?:mut |raw const |raw mut )?(.*)$', rv, re.S)
        if m and not rv.startswith('&&'):
            return self.locate(st, fr, m.group(1))
        m = re.match(r'(\w+)\((.*)\)$', rv, re.S)
        if m and m.group(1) in self.BINOPS:
            toks = split_top(m.group(2))
            a, b = [self.operand(st, fr, x) for x in toks]
            r = self.binop(m.group(1), a, b, self.operand_type(fr, toks[0]))
            if r is None:
                raise Inconclusive('binop ' + rv)
            return r
        if m and m.group(1) == 'Not':
            a = self.operand(st, fr, m.group(2))
            return z3.Not(a) if z3.is_bool(a) else ~a
        if m and m.group(1) == 'Neg':
            return -self.operand(st, fr, m.group(2))
        if m and m.group(1) == 'discriminant':
            v = self.read_place(st, fr, m.group(2))
            if isinstance(v, EnumV):
                return BV(v.disc, 64)
            raise Inconclusive('discriminant of %r' % (v,))
        if m and m.group(1) in ('Len', 'PtrMetadata'):
            v = self.operand(st, fr, m.group(2)) if m.group(1) == 'PtrMetadata' else self.read_place(st, fr, m.group(2))
            if isinstance(v, RefV):
                v = st.load(v)
            if isinstance(v, ListV):
                return BV(len(v.items), 64)
            raise Inconclusive(rv)
        m = re.match(r'(.*) as (\w+) \(IntToInt\)$', rv, re.S)
        if m:
            a = self.operand(st, fr, m.group(1))
            w = INT_W[m.group(2)]
            src_t = self.operand_type(fr, m.group(1))
            if z3.is_bool(a):
                return z3.If(a, BV(1, w), BV(0, w))
            if a.size() < w:
                return z3.SignExt(w - a.size(), a) if src_t in SIGNED else z3.ZeroExt(w - a.size(), a)
            return z3.Extract(w - 1, 0, a) if a.size() > w else a
        m = re.match(r'(.*) as .* \((?:PointerCoercion\(.*\)|PtrToPtr|Transmute)\)$', rv, re.S)
        if m:
            return self.operand(st, fr, m.group(1))
        m = re.match(r'\{closure@[^}]*\} \{(.*)\}$', rv, re.S)
        if m:
            name = self.closure_name(rv)
            fields, names = [], []
            for f in split_top(m.group(1)):
                k, v = f.split(':', 1)
                names.append(k.strip())
                fields.append(self.operand(st, fr, v))
            return ClosV(name, TupV(fields, names))
        if rv.startswith('{closure@') and rv.endswith('}'):
            return ClosV(self.closure_name(rv), TupV(()))
        if rv.startswith('[') and rv.endswith(']'):
            inner = rv[1:-1]
            m = re.match(r'(.*); (\d+)$', inner, re.S)
            if m and len(split_top(inner)) == 1:
                return ListV([self.operand(st, fr, m.group(1))] * int(m.group(2)))
            return ListV([self.operand(st, fr, x) for x in split_top(inner)])
        if rv.startswith('(') and rv.endswith(')') and not re.match(r'\((\*|_\d+\.|\(|_\d+ as)', rv):
            return TupV([self.operand(st, fr, x) for x in split_top(rv[1:-1])])
        if rv == '()':
            return UNIT
        # struct aggregate:  path { a: x, b: y }
        m = re.match(r'([\w:<>, &\']+?) \{(.*)\}$', rv, re.S)
        if m:
            fields, names = [], []
            for f in split_top(m.group(2)):
                k, v = f.split(':', 1)
                names.append(k.strip())
                fields.append(self.operand(st, fr, v))
            ev = self.enum_variant(m.group(1))
            if ev:
                return EnumV(ev[0], ev[1], ev[2], fields)
            return TupV(fields, names, strip_generics(m.group(1)).split('::')[-1])
        # enum tuple variant:  path::Variant(a, b)
        if not rv.startswith(('copy ', 'move ')):
            sc = split_call(rv)
            if sc and sc[0]:
                ev = self.enum_variant(sc[0])
                if ev:
                    return EnumV(ev[0], ev[1], ev[2], [self.operand(st, fr, x) for x in split_top(sc[1])])
                last = strip_generics(sc[0]).split('::')[-1]
                if last[:1].isupper():
                    # tuple-struct aggregate such as Reverse::<usize>(x)
                    return TupV([self.operand(st, fr, x) for x in split_top(sc[1])], None, last)
                raise Inconclusive('rvalue ' + rv)
        return self.operand(st, fr, rv)

    # ---------- running
    def run_const(self, st, key):
        outs = self.run_body(st, self.mir.consts[key], [], 0)
        if len(outs) != 1 or outs[0].panic:
            raise Inconclusive('constant with branches ' + key)
        return outs[0].val

    def run_fn(self, st, name, args, depth=0):
        self.stats['inlined_fns'][name] = self.stats['inlined_fns'].get(name, 0) + 1
        return self.run_body(st, self.mir.fns[name], args, depth)

    def run_body(self, st, body, args, depth):
        if depth > self.max_depth:
            raise Inconclusive('inline depth exceeded at ' + body.name)
        fr = Frame(body, st)
        if len(args) != len(body.params):
            raise Inconclusive('arity mismatch calling %s: %d args' % (body.name, len(args)))
        for (p, _t), a in zip(body.params, args):
            st.heap[fr.addr(st, p)] = a
        results = []
        work = [(st, 'bb0')]
        while work:
            st, bb = work.pop()
            while bb is not None:
                bb = self._block(st, fr, bb, depth, results, work)
        return results

    def _block(self, st, fr, bb, depth, results, work):
        """run one basic block on `st`; return the next block on the same state, or None after
        pushing forks / recording a result"""
        stmts, cleanup = fr.body.blocks[bb]
        if cleanup:
            raise Inconclusive('entered cleanup block %s of %s' % (bb, fr.body.name))
        for s in stmts:
            self.steps += 1
            if self.steps > self.max_steps:
                raise Inconclusive('step budget exhausted (unbounded loop?) in ' + fr.body.name)
            ps = _STMT_CACHE.get(s)
            if ps is None:
                ps = _STMT_CACHE[s] = parse_stmt(s)
            kind = ps[0]
            if kind == 'skip':
                continue
            if kind == 'assign':
                self.write_place(st, fr, ps[1], self.rvalue(st, fr, ps[2]))
                continue
            if kind == 'return':
                v = st.heap.get(fr.locals.get('_0'))
                if v is None:
                    if fr.body.ret.strip() == '()':
                        v = UNIT
                    else:
                        raise Inconclusive('return of uninitialised _0 in ' + fr.body.name)
                if fr.body.kind == 'fn':         # frame locals die here (promoted constants keep theirs)
                    for a in fr.locals.values():
                        st.heap.pop(a, None)
                results.append(Outcome(st, v))
                self.stats['paths'] += 1
                return None
            if kind == 'unreachable':
                raise Inconclusive('reached `unreachable` in %s %s' % (fr.body.name, bb))
            if kind == 'goto':
                return ps[1]
            if kind == 'switch':
                v = self.operand(st, fr, ps[1])
                arms, taken = [], []
                exhaustive = ps[3]
                for k, tgt in ps[2]:
                    if k == 'otherwise':
                        cond = z3.And(*[z3.Not(c) for c in taken]) if taken else z3.BoolVal(True)
                    else:
                        kv = k
                        if z3.is_bool(v):
                            cond = z3.Not(v) if kv == 0 else v
                        else:
                            cond = (v == BV(kv, v.size()))
                        taken.append(cond)
                    cond = z3.simplify(cond)
                    if z3.is_false(cond):
                        continue
                    arms.append((cond, tgt))
                    if z3.is_true(cond):
                        break
                live = []
                for i, (cond, tgt) in enumerate(arms):
                    # the path condition is satisfiable (invariant) and the arms are exhaustive: if every earlier
                    # arm is infeasible the last one needs no query
                    if z3.is_true(cond) or (i == len(arms) - 1 and not live and exhaustive) or self.feasible(st.pc, cond):
                        live.append((cond, tgt))
                if not live:
                    raise Inconclusive('no feasible switch arm in ' + fr.body.name)
                if len(live) == 1:
                    if not z3.is_true(live[0][0]):
                        st.pc.append(live[0][0])
                    return live[0][1]
                for cond, tgt in reversed(live):
                    work.append((st.fork(cond), tgt))
                return None
            if kind == 'assert':
                c = self.operand(st, fr, ps[2])
                c = z3.Not(c) if ps[1] else c
                cs = z3.simplify(c)
                if not z3.is_true(cs):
                    if self.feasible(st.pc, z3.Not(cs)):
                        self.stats['panic_edges_cut'] += 1
                        self.cut_panics.append((list(st.pc) + [z3.Not(cs)], '%s %s' % (fr.body.name, bb), ps[3][:60]))
                    if not self.feasible(st.pc, cs):
                        return None     # this path always panics here; recorded above
                    st.pc.append(cs)
                return ps[4]
            if kind == 'call':
                dst, callee, argtxts, nxt = ps[1], ps[2], ps[3], ps[4]
                args = [self.operand(st, fr, a) for a in argtxts]
                if callee.startswith(('move ', 'copy ')):
                    f = self.operand(st, fr, callee)
                    outs = self.call_value(st, f, args, depth)
                else:
                    outs = self.call(st, fr, callee, args, depth)
                if len(outs) == 1 and not outs[0].panic:
                    self.write_place(outs[0].st, fr, dst, outs[0].val)
                    if outs[0].st is not st:
                        work.append((outs[0].st, nxt))
                        return None
                    return nxt
                for o in reversed(outs):
                    if o.panic:
                        results.append(o)
                        continue
                    self.write_place(o.st, fr, dst, o.val)
                    work.append((o.st, nxt))
                return None
            if kind == 'diverge':
                callee = ps[1]
                args = [self.operand(st, fr, a) for a in ps[2]]
                outs = self.call(st, fr, callee, args, depth)
                for o in outs:
                    if not o.panic:
                        raise Inconclusive('diverging call returned: ' + callee)
                    results.append(o)
                return None
            if kind == 'setdiscr':
                raise Inconclusive('SetDiscriminant')
            raise Inconclusive('statement ' + s)
        raise Inconclusive('fell off the end of %s in %s' % (bb, fr.body.name))

    # ---------- calls
    def norm(self, r, st):
        """model result -> list of Outcome"""
        if isinstance(r, Outcome):
            return [r]
        if isinstance(r, list):
            out = []
            for x in r:
                if isinstance(x, Outcome):
                    out.append(x)
                else:
                    out.append(Outcome(x[0], x[1]))
            return out
        return [Outcome(st, r)]

    _NORM = [('std::string::String', 'String'), ('std::vec::Vec', 'Vec'), ('std::option::Option', 'Option'),
             ('std::result::Result', 'Result'), ('std::boxed::Box', 'Box'), ('std::collections::HashMap', 'HashMap'),
             ('std::collections::HashSet', 'HashSet'), ('std::collections::BTreeSet', 'BTreeSet')]

    def call(self, st, fr, callee, args, depth):
        cands = self._model_cache.get(callee)
        if cands is None:
            key = callee
            for a_, b_ in self._NORM:       # some crates' MIR prints std paths in full
                if a_ in callee:
                    callee = callee.replace(a_, b_)
            cands = self._model_cache[key] = (callee, [(pat, fn) for pat, fn in self.models if pat.search(callee)])
        callee, matching = cands
        for pat, fn in matching:
            if True:
                self.stats['models_used'][pat.pattern] = self.stats['models_used'].get(pat.pattern, 0) + 1
                r = fn(self, st, fr, callee, args, depth)
                if r is NotImplemented:
                    continue
                return self.norm(r, st)
        name = self.resolve_fn(callee, fr.body.name)
        if name:
            self.stats['calls_inlined'] += 1
            if self.mir.fns[name].ret.strip() in SCALAR_TYPES:
                return self.run_pure(st, lambda s: self.run_fn(s, name, args, depth + 1))
            return self.run_fn(st, name, args, depth + 1)
        raise Inconclusive('unmodelled callee %s (called from %s)' % (callee, fr.body.name))

    def run_pure(self, st, thunk):
        """run thunk(st) -> outcomes; if it forked but wrote nothing that existed before the call and every path
        returns a scalar, fold the paths into one ite term (keeps callers from multiplying paths)"""
        mark = State._next_addr[0]
        base_len = len(st.pc)
        saved = st.min_written
        st.min_written = 1 << 62
        outs = thunk(st)
        pure = all(o.st.min_written >= mark for o in outs)
        for o in outs:
            o.st.min_written = min(saved, o.st.min_written)
        if len(outs) <= 1 or not pure or any(o.panic or not is_z3(o.val) for o in outs):
            return outs
        val = outs[-1].val
        for o in reversed(outs[:-1]):
            extra = o.st.pc[base_len:]
            val = z3.If(z3.And(*extra) if extra else z3.BoolVal(True), o.val, val)
        if z3.is_bool(val) and len(outs) > 8:
            val = self.define(val, 'fn')
        s = outs[-1].st
        del s.pc[base_len:]
        self.stats['paths_merged'] = self.stats.get('paths_merged', 0) + len(outs) - 1
        return [Outcome(s, val)]

    def call_value(self, st, f, args, depth):
        """call a closure or fn item value with already-unpacked arguments"""
        if isinstance(f, RefV):
            f = st.load(f)
        if isinstance(f, ClosV):
            # Fn / FnMut bodies take `&(mut) env`, FnOnce bodies take the environment by value
            by_ref = self.mir.fns[f.name].params[0][1].lstrip().startswith('&')
            return self.run_fn(st, f.name, [st.ref(f.env) if by_ref else f.env] + list(args), depth + 1)
        if isinstance(f, FnItem):
            class _F:  # pseudo frame for model lookup / name resolution
                pass
            fr = _F(); fr.body = type('B', (), {'name': ''})()
            return self.call(st, fr, f.path, list(args), depth)
        raise Inconclusive('call of %r' % (f,))

    def call_merged(self, st, f, args, depth):
        """call a closure / fn value; scalar results of pure calls that forked are folded into one ite term"""
        return self.run_pure(st, lambda s: self.call_value(s, f, args, depth))
