"""More library models: HashMap (as an insertion-ordered association list), sub-slices, itertools adaptors
(sorted_by_key, sorted_by, chunk_by, coalesce, tuple_windows), Vec::splice, Clone of plain data.

Data structures keep a CONCRETE shape (lengths, which keys exist); element values are symbolic and every
comparison that the path condition does not decide forks the path.
"""
import re
import z3
from .sym import (SymStr, ListV, TupV, EnumV, RefV, ClosV, FnItem, IterV, Opaque, Outcome, Inconclusive, UNIT, NONE, some, ok, err,
                  is_z3, concrete, BV)
from . import models as M
from .mir import split_top
from .models import (P, deref, as_str, elems, call_seq, truth_forks, iterable, cmp_scalar_forks, cmp_str_forks, _stable_sort,
                     _list_ref, _value_eq)


def deep_eq(ex, st, p, q):
    """structural equality of two values as a z3 Bool (shapes must agree to be equal)"""
    p, q = deref(st, p), deref(st, q)
    if isinstance(p, SymStr) and isinstance(q, SymStr):
        if len(p.items) != len(q.items):
            return z3.BoolVal(False)
        return z3.And(*[a == b for a, b in zip(p.items, q.items)]) if p.items else z3.BoolVal(True)
    if isinstance(p, ListV) and isinstance(q, ListV):
        if len(p.items) != len(q.items):
            return z3.BoolVal(False)
        parts = [deep_eq(ex, st, a, b) for a, b in zip(p.items, q.items)]
        return z3.And(*parts) if parts else z3.BoolVal(True)
    if isinstance(p, TupV) and isinstance(q, TupV):
        if len(p.fields) != len(q.fields):
            return z3.BoolVal(False)
        parts = [deep_eq(ex, st, a, b) for a, b in zip(p.fields, q.fields)]
        return z3.And(*parts) if parts else z3.BoolVal(True)
    if is_z3(p) and is_z3(q):
        return p == q
    raise Inconclusive('equality of %r and %r' % (p, q))


# --------------------------------------------------------------------------- HashMap
def m_hashmap_new(ex, st, fr, callee, a, depth):
    return TupV((ListV(()),), ('entries',), 'HashMap')


def _map_ref(st, r):
    while isinstance(st.load(r), RefV):
        r = st.load(r)
    v = st.load(r)
    if not (isinstance(v, TupV) and v.tag == 'HashMap'):
        raise Inconclusive('expected a HashMap, got %r' % (v,))
    return r, v


def m_hashmap_entry(ex, st, fr, callee, a, depth):
    """HashMap::entry(key): fork on equality with each existing key (insertion-ordered association list)"""
    r, mp = _map_ref(st, a[0])
    key = a[1]
    entries = mp.get('entries').items
    outs = []
    work = [(st, 0)]
    while work:
        s, i = work.pop()
        if i == len(entries):
            outs.append((s, Opaque('entry', r, None, key)))
            continue
        for s2, same in ex.branch(s, deep_eq(ex, s, entries[i].fields[0], key)):
            if same:
                outs.append((s2, Opaque('entry', r, i, key)))
            else:
                work.append((s2, i + 1))
    return outs


def m_entry_or_insert_with(ex, st, fr, callee, a, depth):
    e = a[0]
    r, idx, key = e.p
    mp = st.load(r)
    entries = list(mp.get('entries').items)
    if idx is not None:
        return RefV(r.addr, r.path + (0, idx, 1))
    outs = []
    for o in ex.call_value(st, a[1], [], depth):
        if o.panic:
            outs.append(o)
            continue
        mp2 = o.st.load(r)
        ents = list(mp2.get('entries').items) + [TupV((key, o.val))]
        o.st.store(r, TupV((ListV(ents),), ('entries',), 'HashMap'))
        outs.append((o.st, RefV(r.addr, r.path + (0, len(ents) - 1, 1))))
    return outs


def m_entry_or_insert(ex, st, fr, callee, a, depth):
    e = a[0]
    r, idx, key = e.p
    if idx is not None:
        return RefV(r.addr, r.path + (0, idx, 1))
    mp2 = st.load(r)
    ents = list(mp2.get('entries').items) + [TupV((key, a[1]))]
    st.store(r, TupV((ListV(ents),), ('entries',), 'HashMap'))
    return RefV(r.addr, r.path + (0, len(ents) - 1, 1))


def m_hashmap_iter(ex, st, fr, callee, a, depth):
    """HashMap::iter: yields (&K, &V) in INSERTION order (one of the orders the real map may produce)"""
    r, mp = _map_ref(st, a[0])
    n = len(mp.get('entries').items)
    return IterV('list', items=tuple(TupV((RefV(r.addr, r.path + (0, i, 0)), RefV(r.addr, r.path + (0, i, 1)))) for i in range(n)))


def m_hashmap_len(ex, st, fr, callee, a, depth):
    r, mp = _map_ref(st, a[0])
    return BV(len(mp.get('entries').items), 64)


# --------------------------------------------------------------------------- ranges / sub-slices
def m_range_incl_new(ex, st, fr, callee, a, depth):
    return TupV((a[0], a[1]), ('start', 'end'), 'RangeInclusive')


def _bounds(st, rng, n):
    rng = deref(st, rng)
    if not isinstance(rng, TupV):
        raise Inconclusive('range %r' % (rng,))
    names = rng.names or ()
    lo = concrete(rng.get('start')) if 'start' in names else 0
    if 'end' in names:
        hi = concrete(rng.get('end'))
        if rng.tag == 'RangeInclusive' and hi is not None:
            hi += 1
    else:
        hi = n
    if lo is None or hi is None:
        raise Inconclusive('slice with symbolic bounds')
    return lo, hi


def m_slice_index_range(ex, st, fr, callee, a, depth):
    """&slice[a..b] (read-only view): a fresh copy of the elements; out-of-range panics"""
    v = deref(st, a[0])
    if not isinstance(v, ListV):
        raise Inconclusive('range index into %r' % (v,))
    lo, hi = _bounds(st, a[1], len(v.items))
    if lo > hi or hi > len(v.items):
        return Outcome(st, None, panic='slice index out of range')
    return st.ref(ListV(v.items[lo:hi]))


def m_range_contains_usize(ex, st, fr, callee, a, depth):
    r, x = deref(st, a[0]), deref(st, a[1])
    if r.tag == 'RangeInclusive':
        return z3.And(z3.ULE(r.get('start'), x), z3.ULE(x, r.get('end')))
    return z3.And(z3.ULE(r.get('start'), x), z3.ULT(x, r.get('end')))


# --------------------------------------------------------------------------- itertools
def _key_cmp(ex, s, x, y):
    x, y = deref(s, x), deref(s, y)
    if isinstance(x, SymStr):
        return cmp_str_forks(ex, s, list(x.items), list(y.items))
    if is_z3(x) and not z3.is_bool(x):
        return cmp_scalar_forks(ex, s, x, y)
    raise Inconclusive('ordering of keys %r' % (x,))


def m_sorted_by_key(ex, st, fr, callee, a, depth):
    """Itertools::sorted_by_key: stable sort of the collected items by the key closure"""
    outs = []
    for s, xs in elems(ex, st, a[0], depth):
        for s1, keys in call_seq(ex, s, a[1], xs, depth, by_ref=True):
            pairs = [TupV((k, x)) for k, x in zip(keys, xs)]
            for s2, srt in _stable_sort(ex, s1, pairs, lambda ss, p, q: _key_cmp(ex, ss, p.fields[0], q.fields[0])):
                outs.append((s2, IterV('list', items=tuple(p.fields[1] for p in srt))))
    return outs


def m_sorted_by(ex, st, fr, callee, a, depth):
    """Itertools::sorted_by / slice sort with a comparator closure run from MIR (stable)"""
    outs = []
    for s, xs in elems(ex, st, a[0], depth):
        def cmp(ss, x, y):
            res = []
            for o in ex.call_value(ss, a[1], [ss.ref(x), ss.ref(y)], depth):
                if o.panic or not (isinstance(o.val, EnumV) and o.val.enum == 'Ordering'):
                    raise Inconclusive('comparator returned %r' % (o.val,))
                res.append((o.st, o.val.variant))
            return res
        for s2, srt in _stable_sort(ex, s, list(xs), cmp):
            outs.append((s2, IterV('list', items=tuple(srt))))
    return outs


def m_sorted(ex, st, fr, callee, a, depth):
    outs = []
    for s, xs in elems(ex, st, a[0], depth):
        for s2, srt in _stable_sort(ex, s, list(xs), lambda ss, p, q: _key_cmp(ex, ss, p, q)):
            outs.append((s2, IterV('list', items=tuple(srt))))
    return outs


def m_chunk_by(ex, st, fr, callee, a, depth):
    """Itertools::chunk_by (group_by): consecutive runs of equal keys"""
    outs = []
    for s, xs in elems(ex, st, a[0], depth):
        for s1, keys in call_seq(ex, s, a[1], xs, depth, by_ref=True):
            cur = [(s1, [])]          # groups: list of (key, [items])
            for x, k in zip(xs, keys):
                nxt = []
                for s2, groups in cur:
                    if not groups:
                        nxt.append((s2, [(k, [x])]))
                        continue
                    for s3, same in ex.branch(s2, deep_eq(ex, s2, groups[-1][0], k)):
                        if same:
                            nxt.append((s3, groups[:-1] + [(groups[-1][0], groups[-1][1] + [x])]))
                        else:
                            nxt.append((s3, groups + [(k, [x])]))
                cur = nxt
            for s2, groups in cur:
                outs.append((s2, Opaque('chunkby', tuple((k, tuple(g)) for k, g in groups))))
    return outs


def m_chunk_by_into_iter(ex, st, fr, callee, a, depth):
    cb = deref(st, a[0])
    if not (isinstance(cb, Opaque) and cb.tag == 'chunkby'):
        return NotImplemented
    return IterV('list', items=tuple(TupV((k, IterV('list', items=g))) for k, g in cb.p[0]))


def m_tuple_windows(ex, st, fr, callee, a, depth):
    m = re.search(r'tuple_windows::<\((.*)\)>$', callee, re.S)
    k = len(split_top(m.group(1))) if m else 2
    return [(s, IterV('list', items=tuple(TupV(tuple(xs[i:i + k])) for i in range(len(xs) - k + 1)))) for s, xs in elems(ex, st, a[0], depth)]


def m_coalesce(ex, st, fr, callee, a, depth):
    """Itertools::coalesce: f(prev, next) -> Ok(merged) continues with merged, Err((a, b)) emits a and continues with b"""
    outs = []
    for s, xs in elems(ex, st, a[0], depth):
        if not xs:
            outs.append((s, IterV('list', items=())))
            continue
        work = [(s, 1, xs[0], [])]
        while work:
            s1, i, acc, emitted = work.pop()
            if i == len(xs):
                outs.append((s1, IterV('list', items=tuple(emitted + [acc]))))
                continue
            for o in ex.call_value(s1, a[1], [acc, xs[i]], depth):
                if o.panic or not (isinstance(o.val, EnumV) and o.val.enum == 'Result'):
                    raise Inconclusive('coalesce closure returned %r' % (o.val,))
                if o.val.variant == 'Ok':
                    work.append((o.st, i + 1, o.val.fields[0], emitted))
                else:
                    pair = o.val.fields[0]
                    work.append((o.st, i + 1, pair.fields[1], emitted + [pair.fields[0]]))
    return outs


def m_dedup_iter(ex, st, fr, callee, a, depth):
    outs = []
    for s, xs in elems(ex, st, a[0], depth):
        cur = [(s, [])]
        for x in xs:
            nxt = []
            for s2, acc in cur:
                if not acc:
                    nxt.append((s2, [x]))
                    continue
                for s3, same in ex.branch(s2, deep_eq(ex, s2, acc[-1], x)):
                    nxt.append((s3, acc if same else acc + [x]))
            cur = nxt
        outs += [(s2, IterV('list', items=tuple(acc))) for s2, acc in cur]
    return outs


# --------------------------------------------------------------------------- Vec
def m_vec_splice(ex, st, fr, callee, a, depth):
    """Vec::splice(range, replace_with): the removed range is replaced by the new items (the returned iterator is dropped)"""
    r = _list_ref(st, a[0])
    v = st.load(r)
    lo, hi = _bounds(st, a[1], len(v.items))
    if lo > hi or hi > len(v.items):
        return Outcome(st, None, panic='splice range out of bounds')
    outs = []
    for s, xs in elems(ex, st, a[2], depth):
        cur = s.load(r)
        s.store(r, ListV(cur.items[:lo] + tuple(xs) + cur.items[hi:]))
        outs.append((s, Opaque('splice')))
    return outs


def m_extend_from_slice(ex, st, fr, callee, a, depth):
    r = _list_ref(st, a[0])
    other = deref(st, a[1])
    st.store(r, ListV(st.load(r).items + tuple(other.items)))
    return UNIT


def m_vec_extend(ex, st, fr, callee, a, depth):
    r = _list_ref(st, a[0])
    outs = []
    for s, xs in elems(ex, st, a[1], depth):
        s.store(r, ListV(s.load(r).items + tuple(xs)))
        outs.append((s, UNIT))
    return outs


def m_vec_insert(ex, st, fr, callee, a, depth):
    r = _list_ref(st, a[0])
    i = concrete(a[1])
    v = st.load(r)
    if i is None:
        raise Inconclusive('Vec::insert at a symbolic index')
    if i > len(v.items):
        return Outcome(st, None, panic='insertion index out of bounds')
    st.store(r, ListV(v.items[:i] + (a[2],) + v.items[i:]))
    return UNIT


def m_vec_clear(ex, st, fr, callee, a, depth):
    r = _list_ref(st, a[0])
    st.store(r, ListV(()))
    return UNIT


def m_plain_clone(ex, st, fr, callee, a, depth):
    """Clone of plain data (Vec, String, Range, integers, bool, tuples of those): values are immutable here, so the clone is the value"""
    v = a[0]
    if isinstance(v, RefV):
        v = st.load(v)
    if isinstance(v, RefV) and '<&' in callee:
        return v
    return v


def m_vec_eq(ex, st, fr, callee, a, depth):
    return deep_eq(ex, st, a[0], a[1])


def m_vec_ne(ex, st, fr, callee, a, depth):
    return z3.Not(deep_eq(ex, st, a[0], a[1]))


def m_arith_trait(ex, st, fr, callee, a, depth):
    """<&T as Add/Sub/Mul/Div/Rem<..>>::op on unsigned integers, with the overflow / zero-division panic of a checked build"""
    m = re.match(r'^<&*(\w+) as (?:std::ops::)?(Add|Sub|Mul|Div|Rem)(?:<.*>)?>::(add|sub|mul|div|rem)$', callee)
    x, y = deref(st, a[0]), deref(st, a[1])
    if not (is_z3(x) and is_z3(y)) or m.group(1).startswith('i'):
        raise Inconclusive('arithmetic trait call ' + callee)
    op = m.group(2)
    if op == 'Add':
        val, bad = x + y, z3.Not(z3.BVAddNoOverflow(x, y, False))
    elif op == 'Sub':
        val, bad = x - y, z3.ULT(x, y)
    elif op == 'Mul':
        val, bad = x * y, z3.Not(z3.BVMulNoOverflow(x, y, False))
    elif op == 'Div':
        val, bad = z3.UDiv(x, y), y == 0
    else:
        val, bad = z3.URem(x, y), y == 0
    outs = []
    for s, t in ex.branch(st, bad):
        if t:
            outs.append(Outcome(s, None, panic='arithmetic overflow / division by zero in %s' % op))
        else:
            outs.append((s, z3.simplify(val)))
    return outs


MODELS2 = [
    (P(r'^<&*(u8|u16|u32|u64|usize) as (std::ops::)?(Add|Sub|Mul|Div|Rem)(<.*>)?>::(add|sub|mul|div|rem)$'), m_arith_trait),
    (P(r'^HashMap::<.*>::new$'), m_hashmap_new),
    (P(r'^HashMap::<.*>::entry$'), m_hashmap_entry),
    (P(r"hash_map::Entry::<.*>::or_insert_with::<"), m_entry_or_insert_with),
    (P(r"hash_map::Entry::<.*>::or_insert$|hash_map::Entry::<.*>::or_default$"), m_entry_or_insert),
    (P(r'^HashMap::<.*>::iter$'), m_hashmap_iter),
    (P(r'^HashMap::<.*>::len$'), m_hashmap_len),
    (P(r'RangeInclusive::<usize>::new$'), m_range_incl_new),
    (P(r'^<\[.*\] as (std::ops::)?Index<(std::ops::)?(RangeFrom|RangeTo|Range|RangeInclusive|RangeToInclusive|RangeFull)(<usize>)?>>::index$'), m_slice_index_range),
    (P(r'^<Vec<.*> as (std::ops::)?Index<(std::ops::)?(RangeFrom|RangeTo|Range|RangeInclusive|RangeToInclusive|RangeFull)(<usize>)?>>::index$'), m_slice_index_range),
    (P(r'Range(Inclusive)?::<usize>::contains::<usize>$'), m_range_contains_usize),
    (P(r' as Itertools>::sorted_by_key::<'), m_sorted_by_key),
    (P(r' as Itertools>::sorted_by::<'), m_sorted_by),
    (P(r' as Itertools>::sorted$'), m_sorted),
    (P(r' as Itertools>::(chunk_by|group_by)::<'), m_chunk_by),
    (P(r'^<&itertools::(ChunkBy|GroupBy)<.*> as IntoIterator>::into_iter$'), m_chunk_by_into_iter),
    (P(r' as Itertools>::tuple_windows::<'), m_tuple_windows),
    (P(r' as Itertools>::coalesce::<'), m_coalesce),
    (P(r' as Itertools>::dedup$'), m_dedup_iter),
    (P(r'^Vec::<.*>::splice::<'), m_vec_splice),
    (P(r'^Vec::<.*>::extend_from_slice$'), m_extend_from_slice),
    (P(r'^<Vec<.*> as Extend<.*>>::extend::<'), m_vec_extend),
    (P(r'^Vec::<.*>::insert$'), m_vec_insert),
    (P(r'^Vec::<.*>::clear$'), m_vec_clear),
    (P(r'^<(Vec<.*>|std::ops::Range<usize>|u32|usize|bool|char|\(.*\)) as Clone>::clone$'), m_plain_clone),
    (P(r'^<Vec<.*> as PartialEq>::eq$|^<\[.*\] as PartialEq>::eq$'), m_vec_eq),
    (P(r'^<Vec<.*> as PartialEq>::ne$'), m_vec_ne),
]


# --------------------------------------------------------------------------- petgraph StableGraph / sets (concrete shape)
def _graph_ref(st, r):
    while isinstance(st.load(r), RefV):
        r = st.load(r)
    g = st.load(r)
    if not (isinstance(g, TupV) and g.tag == 'StableGraph'):
        raise Inconclusive('expected a StableGraph, got %r' % (g,))
    return r, g


def _node_id(v):
    if isinstance(v, Opaque) and v.tag in ('node', 'edge'):
        return v.p[0]
    raise Inconclusive('expected a node/edge index, got %r' % (v,))


def m_graph_new(ex, st, fr, callee, a, depth):
    """petgraph StableGraph with a CONCRETE shape: node weights, edges as (source, target, weight) in insertion order"""
    return TupV((ListV(()), ListV(())), ('nodes', 'edges'), 'StableGraph')


def m_graph_add_node(ex, st, fr, callee, a, depth):
    r, g = _graph_ref(st, a[0])
    nodes = g.get('nodes').items + (a[1],)
    st.store(r, TupV((ListV(nodes), g.get('edges')), ('nodes', 'edges'), 'StableGraph'))
    return Opaque('node', len(nodes) - 1)


def m_graph_add_edge(ex, st, fr, callee, a, depth):
    r, g = _graph_ref(st, a[0])
    e = TupV((BV(_node_id(a[1]), 32), BV(_node_id(a[2]), 32), a[3]))
    edges = g.get('edges').items + (e,)
    st.store(r, TupV((g.get('nodes'), ListV(edges)), ('nodes', 'edges'), 'StableGraph'))
    return Opaque('edge', len(edges) - 1)


def m_graph_neighbors(ex, st, fr, callee, a, depth):
    """neighbors(a): targets of a's outgoing edges, most recently added edge first (petgraph's adjacency list order)"""
    r, g = _graph_ref(st, a[0])
    n = _node_id(a[1])
    outs = [Opaque('node', concrete(e.fields[1])) for e in g.get('edges').items if concrete(e.fields[0]) == n]
    return IterV('list', items=tuple(reversed(outs)))


def m_graph_find_edge(ex, st, fr, callee, a, depth):
    r, g = _graph_ref(st, a[0])
    s_, t_ = _node_id(a[1]), _node_id(a[2])
    hits = [i for i, e in enumerate(g.get('edges').items) if concrete(e.fields[0]) == s_ and concrete(e.fields[1]) == t_]
    return some(Opaque('edge', hits[-1])) if hits else NONE


def m_graph_edge_weight(ex, st, fr, callee, a, depth):
    r, g = _graph_ref(st, a[0])
    i = _node_id(a[1])
    if i >= len(g.get('edges').items):
        return NONE
    return some(RefV(r.addr, r.path + (1, i, 2)))


def m_graph_update_edge(ex, st, fr, callee, a, depth):
    r, g = _graph_ref(st, a[0])
    s_, t_ = _node_id(a[1]), _node_id(a[2])
    edges = list(g.get('edges').items)
    hits = [i for i, e in enumerate(edges) if concrete(e.fields[0]) == s_ and concrete(e.fields[1]) == t_]
    if hits:
        i = hits[-1]
        edges[i] = TupV((edges[i].fields[0], edges[i].fields[1], a[3]))
        st.store(r, TupV((g.get('nodes'), ListV(edges)), ('nodes', 'edges'), 'StableGraph'))
        return Opaque('edge', i)
    return m_graph_add_edge(ex, st, fr, callee, a, depth)


def m_node_index(ex, st, fr, callee, a, depth):
    return BV(_node_id(deref(st, a[0]) if isinstance(a[0], RefV) else a[0]), 64)


def m_set_new(ex, st, fr, callee, a, depth):
    return TupV((ListV(()),), ('items',), 'Set')


def m_set_insert(ex, st, fr, callee, a, depth):
    """HashSet / BTreeSet::insert on a set kept as a duplicate-free list (forks on equality with existing elements)"""
    r = a[0]
    while isinstance(st.load(r), RefV):
        r = st.load(r)
    sv = st.load(r)
    if not (isinstance(sv, TupV) and sv.tag == 'Set'):
        raise Inconclusive('expected a set, got %r' % (sv,))
    items = list(sv.get('items').items)
    outs = []
    work = [(st, 0)]
    while work:
        s, i = work.pop()
        if i == len(items):
            s.store(r, TupV((ListV(items + [a[1]]),), ('items',), 'Set'))
            outs.append((s, z3.BoolVal(True)))
            continue
        for s2, same in ex.branch(s, deep_eq(ex, s, items[i], a[1])):
            if same:
                outs.append((s2, z3.BoolVal(False)))
            else:
                work.append((s2, i + 1))
    return outs


def m_min_max(ex, st, fr, callee, a, depth):
    x, y = a[0], a[1]
    if not (is_z3(x) and is_z3(y)):
        raise Inconclusive('min/max of %r' % (x,))
    return z3.simplify(z3.If(z3.ULE(x, y), x, y) if '::min::<' in callee else z3.If(z3.UGE(x, y), x, y))


MODELS2 += [
    (P(r'^StableGraph::<.*>::new$'), m_graph_new),
    (P(r'^StableGraph::<.*>::add_node$'), m_graph_add_node),
    (P(r'^StableGraph::<.*>::add_edge$'), m_graph_add_edge),
    (P(r'^StableGraph::<.*>::neighbors$'), m_graph_neighbors),
    (P(r'^StableGraph::<.*>::find_edge$'), m_graph_find_edge),
    (P(r'^StableGraph::<.*>::edge_weight$'), m_graph_edge_weight),
    (P(r'^StableGraph::<.*>::update_edge$'), m_graph_update_edge),
    (P(r'^NodeIndex::index$|^NodeIndex::<.*>::index$'), m_node_index),
    (P(r'^(HashSet|BTreeSet)::<.*>::new$'), m_set_new),
    (P(r'^(HashSet|BTreeSet)::<.*>::insert$'), m_set_insert),
    (P(r'^std::cmp::(min|max)::<(u8|u16|u32|u64|usize)>$'), m_min_max),
]
