"""More library models: HashMap (as an insertion-ordered association list), sub-slices, itertools adaptors
(sorted_by_key, sorted_by, chunk_by, coalesce, tuple_windows), Vec::splice, Clone of plain data.

Data structures keep a CONCRETE shape (lengths, which keys exist); element values are symbolic and every
comparison that the path condition does not decide forks the path.
"""
import re
import z3
from .sym import (SymStr, ListV, TupV, EnumV, RefV, ClosV, FnItem, IterV, Opaque, Outcome, Inconclusive, UNIT, NONE, some, ok, err,
                  is_z3, concrete, BV)
from . import models as M
from .mir import split_top
from .models import (P, deref, as_str, elems, call_seq, truth_forks, iterable, cmp_scalar_forks, cmp_str_forks, _stable_sort,
                     _list_ref, _value_eq, ordering)


def deep_eq(ex, st, p, q):
    """structural equality of two values as a z3 Bool (shapes must agree to be equal)"""
    p, q = deref(st, p), deref(st, q)
    if isinstance(p, SymStr) and isinstance(q, SymStr):
        if len(p.items) != len(q.items):
            return z3.BoolVal(False)
        return z3.And(*[a == b for a, b in zip(p.items, q.items)]) if p.items else z3.BoolVal(True)
    if isinstance(p, ListV) and isinstance(q, ListV):
        if len(p.items) != len(q.items):
            return z3.BoolVal(False)
        parts = [deep_eq(ex, st, a, b) for a, b in zip(p.items, q.items)]
        return z3.And(*parts) if parts else z3.BoolVal(True)
    if isinstance(p, TupV) and isinstance(q, TupV):
        if len(p.fields) != len(q.fields):
            return z3.BoolVal(False)
        parts = [deep_eq(ex, st, a, b) for a, b in zip(p.fields, q.fields)]
        return z3.And(*parts) if parts else z3.BoolVal(True)
    if is_z3(p) and is_z3(q):
        return p == q
    raise Inconclusive('equality of %r and %r' % (p, q))


# --------------------------------------------------------------------------- HashMap
def m_hashmap_new(ex, st, fr, callee, a, depth):
    return TupV((ListV(()),), ('entries',), 'HashMap')


def _map_ref(st, r):
    while isinstance(st.load(r), RefV):
        r = st.load(r)
    v = st.load(r)
    if not (isinstance(v, TupV) and v.tag == 'HashMap'):
        raise Inconclusive('expected a HashMap, got %r' % (v,))
    return r, v


def m_hashmap_entry(ex, st, fr, callee, a, depth):
    """HashMap::entry(key): fork on equality with each existing key (insertion-ordered association list)"""
    r, mp = _map_ref(st, a[0])
    key = a[1]
    entries = mp.get('entries').items
    outs = []
    work = [(st, 0)]
    while work:
        s, i = work.pop()
        if i == len(entries):
            outs.append((s, Opaque('entry', r, None, key)))
            continue
        for s2, same in ex.branch(s, deep_eq(ex, s, entries[i].fields[0], key)):
            if same:
                outs.append((s2, Opaque('entry', r, i, key)))
            else:
                work.append((s2, i + 1))
    return outs


def m_entry_or_insert_with(ex, st, fr, callee, a, depth):
    e = a[0]
    r, idx, key = e.p
    mp = st.load(r)
    entries = list(mp.get('entries').items)
    if idx is not None:
        return RefV(r.addr, r.path + (0, idx, 1))
    outs = []
    for o in ex.call_value(st, a[1], [], depth):
        if o.panic:
            outs.append(o)
            continue
        mp2 = o.st.load(r)
        ents = list(mp2.get('entries').items) + [TupV((key, o.val))]
        o.st.store(r, TupV((ListV(ents),), ('entries',), 'HashMap'))
        outs.append((o.st, RefV(r.addr, r.path + (0, len(ents) - 1, 1))))
    return outs


def m_entry_or_insert(ex, st, fr, callee, a, depth):
    e = a[0]
    r, idx, key = e.p
    if idx is not None:
        return RefV(r.addr, r.path + (0, idx, 1))
    mp2 = st.load(r)
    ents = list(mp2.get('entries').items) + [TupV((key, a[1]))]
    st.store(r, TupV((ListV(ents),), ('entries',), 'HashMap'))
    return RefV(r.addr, r.path + (0, len(ents) - 1, 1))


def hash_order(ex, n):
    """positions 0..n-1 of a hash container's entries in the order the executor's hash-order policy iterates them: the real order is
    arbitrary (per-instance random keys); the policies are three of the n! possibilities -- insertion order, its reverse, rotated by one"""
    pol = getattr(ex, 'hash_order', 'insertion')
    idx = list(range(n))
    if pol == 'reverse':
        return idx[::-1]
    if pol == 'rotate':
        return idx[1:] + idx[:1]
    return idx


def m_hashmap_iter(ex, st, fr, callee, a, depth):
    """HashMap::iter: yields (&K, &V) in the order of the hash-order policy (default: INSERTION order, one of the orders the real map may produce)"""
    r, mp = _map_ref(st, a[0])
    n = len(mp.get('entries').items)
    return IterV('list', items=tuple(TupV((RefV(r.addr, r.path + (0, i, 0)), RefV(r.addr, r.path + (0, i, 1)))) for i in hash_order(ex, n)))


def m_hashmap_len(ex, st, fr, callee, a, depth):
    r, mp = _map_ref(st, a[0])
    return BV(len(mp.get('entries').items), 64)


# --------------------------------------------------------------------------- ranges / sub-slices
def m_range_incl_new(ex, st, fr, callee, a, depth):
    return TupV((a[0], a[1]), ('start', 'end'), 'RangeInclusive')


def _bounds(st, rng, n):
    rng = deref(st, rng)
    if not isinstance(rng, TupV):
        raise Inconclusive('range %r' % (rng,))
    names = rng.names or ()
    lo = concrete(rng.get('start')) if 'start' in names else 0
    if 'end' in names:
        hi = concrete(rng.get('end'))
        if rng.tag == 'RangeInclusive' and hi is not None:
            hi += 1
    else:
        hi = n
    if lo is None or hi is None:
        raise Inconclusive('slice with symbolic bounds')
    return lo, hi


def m_slice_index_range(ex, st, fr, callee, a, depth):
    """&slice[a..b] (read-only view): a fresh copy of the elements; out-of-range panics"""
    v = deref(st, a[0])
    if not isinstance(v, ListV):
        raise Inconclusive('range index into %r' % (v,))
    lo, hi = _bounds(st, a[1], len(v.items))
    if lo > hi or hi > len(v.items):
        return Outcome(st, None, panic='slice index out of range')
    return st.ref(ListV(v.items[lo:hi]))


def m_range_len(ex, st, fr, callee, a, depth):
    r = deref(st, a[0])
    if isinstance(r, IterV) and r.kind == 'range':
        lo, hi = r.items
    else:
        lo, hi = r.get('start'), r.get('end')
    return z3.simplify(z3.If(z3.ULE(lo, hi), hi - lo, BV(0, lo.size())))


def m_range_contains_usize(ex, st, fr, callee, a, depth):
    r, x = deref(st, a[0]), deref(st, a[1])
    if r.tag == 'RangeInclusive':
        return z3.And(z3.ULE(r.get('start'), x), z3.ULE(x, r.get('end')))
    return z3.And(z3.ULE(r.get('start'), x), z3.ULT(x, r.get('end')))


# --------------------------------------------------------------------------- itertools
def _key_cmp(ex, s, x, y):
    x, y = deref(s, x), deref(s, y)
    if isinstance(x, SymStr):
        return cmp_str_forks(ex, s, list(x.items), list(y.items))
    if is_z3(x) and not z3.is_bool(x):
        return cmp_scalar_forks(ex, s, x, y)
    raise Inconclusive('ordering of keys %r' % (x,))


def m_sorted_by_key(ex, st, fr, callee, a, depth):
    """Itertools::sorted_by_key: stable sort of the collected items by the key closure"""
    outs = []
    for s, xs in elems(ex, st, a[0], depth):
        for s1, keys in call_seq(ex, s, a[1], xs, depth, by_ref=True):
            pairs = [TupV((k, x)) for k, x in zip(keys, xs)]
            for s2, srt in _stable_sort(ex, s1, pairs, lambda ss, p, q: _key_cmp(ex, ss, p.fields[0], q.fields[0])):
                outs.append((s2, IterV('list', items=tuple(p.fields[1] for p in srt))))
    return outs


def m_sorted_by(ex, st, fr, callee, a, depth):
    """Itertools::sorted_by / slice sort with a comparator closure run from MIR (stable)"""
    outs = []
    for s, xs in elems(ex, st, a[0], depth):
        def cmp(ss, x, y):
            res = []
            for o in ex.call_value(ss, a[1], [ss.ref(x), ss.ref(y)], depth):
                if o.panic or not (isinstance(o.val, EnumV) and o.val.enum == 'Ordering'):
                    raise Inconclusive('comparator returned %r' % (o.val,))
                res.append((o.st, o.val.variant))
            return res
        for s2, srt in _stable_sort(ex, s, list(xs), cmp):
            outs.append((s2, IterV('list', items=tuple(srt))))
    return outs


def m_sorted(ex, st, fr, callee, a, depth):
    outs = []
    for s, xs in elems(ex, st, a[0], depth):
        for s2, srt in _stable_sort(ex, s, list(xs), lambda ss, p, q: _key_cmp(ex, ss, p, q)):
            outs.append((s2, IterV('list', items=tuple(srt))))
    return outs


def m_chunk_by(ex, st, fr, callee, a, depth):
    """Itertools::chunk_by (group_by): consecutive runs of equal keys"""
    outs = []
    for s, xs in elems(ex, st, a[0], depth):
        for s1, keys in call_seq(ex, s, a[1], xs, depth, by_ref=True):
            cur = [(s1, [])]          # groups: list of (key, [items])
            for x, k in zip(xs, keys):
                nxt = []
                for s2, groups in cur:
                    if not groups:
                        nxt.append((s2, [(k, [x])]))
                        continue
                    for s3, same in ex.branch(s2, deep_eq(ex, s2, groups[-1][0], k)):
                        if same:
                            nxt.append((s3, groups[:-1] + [(groups[-1][0], groups[-1][1] + [x])]))
                        else:
                            nxt.append((s3, groups + [(k, [x])]))
                cur = nxt
            for s2, groups in cur:
                outs.append((s2, Opaque('chunkby', tuple((k, tuple(g)) for k, g in groups))))
    return outs


def m_chunk_by_into_iter(ex, st, fr, callee, a, depth):
    cb = deref(st, a[0])
    if not (isinstance(cb, Opaque) and cb.tag == 'chunkby'):
        return NotImplemented
    return IterV('list', items=tuple(TupV((k, IterV('list', items=g))) for k, g in cb.p[0]))


def m_tuple_windows(ex, st, fr, callee, a, depth):
    m = re.search(r'tuple_windows::<\((.*)\)>$', callee, re.S)
    k = len(split_top(m.group(1))) if m else 2
    return [(s, IterV('list', items=tuple(TupV(tuple(xs[i:i + k])) for i in range(len(xs) - k + 1)))) for s, xs in elems(ex, st, a[0], depth)]


def m_tuple_combinations(ex, st, fr, callee, a, depth):
    """Itertools::tuple_combinations: every k-element combination of the items, in lexicographic order of their positions"""
    import itertools
    m = re.search(r'tuple_combinations::<\((.*)\)>$', callee, re.S)
    k = len(split_top(m.group(1))) if m else 2
    return [(s, IterV('list', items=tuple(TupV(tuple(c)) for c in itertools.combinations(xs, k)))) for s, xs in elems(ex, st, a[0], depth)]


def m_coalesce(ex, st, fr, callee, a, depth):
    """Itertools::coalesce: f(prev, next) -> Ok(merged) continues with merged, Err((a, b)) emits a and continues with b"""
    outs = []
    for s, xs in elems(ex, st, a[0], depth):
        if not xs:
            outs.append((s, IterV('list', items=())))
            continue
        work = [(s, 1, xs[0], [])]
        while work:
            s1, i, acc, emitted = work.pop()
            if i == len(xs):
                outs.append((s1, IterV('list', items=tuple(emitted + [acc]))))
                continue
            for o in ex.call_value(s1, a[1], [acc, xs[i]], depth):
                if o.panic or not (isinstance(o.val, EnumV) and o.val.enum == 'Result'):
                    raise Inconclusive('coalesce closure returned %r' % (o.val,))
                if o.val.variant == 'Ok':
                    work.append((o.st, i + 1, o.val.fields[0], emitted))
                else:
                    pair = o.val.fields[0]
                    work.append((o.st, i + 1, pair.fields[1], emitted + [pair.fields[0]]))
    return outs


def m_dedup_iter(ex, st, fr, callee, a, depth):
    outs = []
    for s, xs in elems(ex, st, a[0], depth):
        cur = [(s, [])]
        for x in xs:
            nxt = []
            for s2, acc in cur:
                if not acc:
                    nxt.append((s2, [x]))
                    continue
                for s3, same in ex.branch(s2, deep_eq(ex, s2, acc[-1], x)):
                    nxt.append((s3, acc if same else acc + [x]))
            cur = nxt
        outs += [(s2, IterV('list', items=tuple(acc))) for s2, acc in cur]
    return outs


# --------------------------------------------------------------------------- Vec
def m_vec_splice(ex, st, fr, callee, a, depth):
    """Vec::splice(range, replace_with): the removed range is replaced by the new items (the returned iterator is dropped)"""
    r = _list_ref(st, a[0])
    v = st.load(r)
    lo, hi = _bounds(st, a[1], len(v.items))
    if lo > hi or hi > len(v.items):
        return Outcome(st, None, panic='splice range out of bounds')
    outs = []
    for s, xs in elems(ex, st, a[2], depth):
        cur = s.load(r)
        s.store(r, ListV(cur.items[:lo] + tuple(xs) + cur.items[hi:]))
        outs.append((s, Opaque('splice')))
    return outs


def m_extend_from_slice(ex, st, fr, callee, a, depth):
    r = _list_ref(st, a[0])
    other = deref(st, a[1])
    st.store(r, ListV(st.load(r).items + tuple(other.items)))
    return UNIT


def m_vec_extend(ex, st, fr, callee, a, depth):
    r = _list_ref(st, a[0])
    outs = []
    for s, xs in elems(ex, st, a[1], depth):
        s.store(r, ListV(s.load(r).items + tuple(xs)))
        outs.append((s, UNIT))
    return outs


def m_vec_insert(ex, st, fr, callee, a, depth):
    r = _list_ref(st, a[0])
    i = concrete(a[1])
    v = st.load(r)
    if i is None:
        raise Inconclusive('Vec::insert at a symbolic index')
    if i > len(v.items):
        return Outcome(st, None, panic='insertion index out of bounds')
    st.store(r, ListV(v.items[:i] + (a[2],) + v.items[i:]))
    return UNIT


def m_vec_clear(ex, st, fr, callee, a, depth):
    r = _list_ref(st, a[0])
    st.store(r, ListV(()))
    return UNIT


def m_plain_clone(ex, st, fr, callee, a, depth):
    """Clone of plain data (Vec, String, Range, integers, bool, tuples of those): values are immutable here, so the clone is the value"""
    v = a[0]
    if isinstance(v, RefV):
        v = st.load(v)
    if isinstance(v, RefV) and '<&' in callee:
        return v
    return v


def m_vec_eq(ex, st, fr, callee, a, depth):
    return deep_eq(ex, st, a[0], a[1])


def m_vec_ne(ex, st, fr, callee, a, depth):
    return z3.Not(deep_eq(ex, st, a[0], a[1]))


def m_arith_trait(ex, st, fr, callee, a, depth):
    """<&T as Add/Sub/Mul/Div/Rem<..>>::op on unsigned integers, with the overflow / zero-division panic of a checked build"""
    m = re.match(r'^<&*(\w+) as (?:std::ops::)?(Add|Sub|Mul|Div|Rem)(?:<.*>)?>::(add|sub|mul|div|rem)$', callee)
    x, y = deref(st, a[0]), deref(st, a[1])
    if not (is_z3(x) and is_z3(y)) or m.group(1).startswith('i'):
        raise Inconclusive('arithmetic trait call ' + callee)
    op = m.group(2)
    if op == 'Add':
        val, bad = x + y, z3.Not(z3.BVAddNoOverflow(x, y, False))
    elif op == 'Sub':
        val, bad = x - y, z3.ULT(x, y)
    elif op == 'Mul':
        val, bad = x * y, z3.Not(z3.BVMulNoOverflow(x, y, False))
    elif op == 'Div':
        val, bad = z3.UDiv(x, y), y == 0
    else:
        val, bad = z3.URem(x, y), y == 0
    outs = []
    for s, t in ex.branch(st, bad):
        if t:
            outs.append(Outcome(s, None, panic='arithmetic overflow / division by zero in %s' % op))
        else:
            outs.append((s, z3.simplify(val)))
    return outs


MODELS2 = [
    (P(r'^<&*(u8|u16|u32|u64|usize) as (std::ops::)?(Add|Sub|Mul|Div|Rem)(<.*>)?>::(add|sub|mul|div|rem)$'), m_arith_trait),
    (P(r'^HashMap::<.*>::new$'), m_hashmap_new),
    (P(r'^HashMap::<.*>::entry$'), m_hashmap_entry),
    (P(r"hash_map::Entry::<.*>::or_insert_with::<"), m_entry_or_insert_with),
    (P(r"hash_map::Entry::<.*>::or_insert$|hash_map::Entry::<.*>::or_default$"), m_entry_or_insert),
    (P(r'^HashMap::<.*>::iter$'), m_hashmap_iter),
    (P(r'^HashMap::<.*>::len$'), m_hashmap_len),
    (P(r'RangeInclusive::<usize>::new$'), m_range_incl_new),
    (P(r'^<\[.*\] as (std::ops::)?Index<(std::ops::)?(RangeFrom|RangeTo|Range|RangeInclusive|RangeToInclusive|RangeFull)(<usize>)?>>::index$'), m_slice_index_range),
    (P(r'^<Vec<.*> as (std::ops::)?Index<(std::ops::)?(RangeFrom|RangeTo|Range|RangeInclusive|RangeToInclusive|RangeFull)(<usize>)?>>::index$'), m_slice_index_range),
    (P(r'Range(Inclusive)?::<usize>::contains::<usize>$'), m_range_contains_usize),
    (P(r'^<std::ops::Range<usize> as ExactSizeIterator>::len$|^std::ops::Range::<usize>::len$'), m_range_len),
    (P(r' as Itertools>::sorted_by_key::<'), m_sorted_by_key),
    (P(r' as Itertools>::sorted_by::<'), m_sorted_by),
    (P(r' as Itertools>::sorted$'), m_sorted),
    (P(r' as Itertools>::(chunk_by|group_by)::<'), m_chunk_by),
    (P(r'^<&itertools::(ChunkBy|GroupBy)<.*> as IntoIterator>::into_iter$'), m_chunk_by_into_iter),
    (P(r' as Itertools>::tuple_windows::<'), m_tuple_windows),
    (P(r' as Itertools>::tuple_combinations::<'), m_tuple_combinations),
    (P(r' as Itertools>::coalesce::<'), m_coalesce),
    (P(r' as Itertools>::dedup$'), m_dedup_iter),
    (P(r'^Vec::<.*>::splice::<'), m_vec_splice),
    (P(r'^Vec::<.*>::extend_from_slice$'), m_extend_from_slice),
    (P(r'^<Vec<.*> as Extend<.*>>::extend::<'), m_vec_extend),
    (P(r'^Vec::<.*>::insert$'), m_vec_insert),
    (P(r'^Vec::<.*>::clear$'), m_vec_clear),
    (P(r'^<(Vec<.*>|std::ops::Range<usize>|u32|usize|bool|char|\(.*\)) as Clone>::clone$'), m_plain_clone),
    (P(r'^<Vec<.*> as PartialEq>::eq$|^<\[.*\] as PartialEq>::eq$'), m_vec_eq),
    (P(r'^<Vec<.*> as PartialEq>::ne$'), m_vec_ne),
]


# --------------------------------------------------------------------------- petgraph StableGraph / sets (concrete shape)
def _graph_ref(st, r):
    while isinstance(st.load(r), RefV):
        r = st.load(r)
    g = st.load(r)
    if not (isinstance(g, TupV) and g.tag == 'StableGraph'):
        raise Inconclusive('expected a StableGraph, got %r' % (g,))
    return r, g


def _node_id(v):
    if isinstance(v, Opaque) and v.tag in ('node', 'edge'):
        return v.p[0]
    raise Inconclusive('expected a node/edge index, got %r' % (v,))


def m_graph_new(ex, st, fr, callee, a, depth):
    """petgraph StableGraph with a CONCRETE shape: node weights, edges as (source, target, weight) in insertion order"""
    return TupV((ListV(()), ListV(())), ('nodes', 'edges'), 'StableGraph')


def m_graph_add_node(ex, st, fr, callee, a, depth):
    r, g = _graph_ref(st, a[0])
    nodes = g.get('nodes').items + (a[1],)
    st.store(r, TupV((ListV(nodes), g.get('edges')), ('nodes', 'edges'), 'StableGraph'))
    return Opaque('node', len(nodes) - 1)


def m_graph_add_edge(ex, st, fr, callee, a, depth):
    r, g = _graph_ref(st, a[0])
    e = TupV((BV(_node_id(a[1]), 32), BV(_node_id(a[2]), 32), a[3]))
    edges = g.get('edges').items + (e,)
    st.store(r, TupV((g.get('nodes'), ListV(edges)), ('nodes', 'edges'), 'StableGraph'))
    return Opaque('edge', len(edges) - 1)


def m_graph_neighbors(ex, st, fr, callee, a, depth):
    """neighbors(a): targets of a's outgoing edges, most recently added edge first (petgraph's adjacency list order)"""
    r, g = _graph_ref(st, a[0])
    n = _node_id(a[1])
    outs = [Opaque('node', concrete(e.fields[1])) for e in g.get('edges').items if concrete(e.fields[0]) == n]
    return IterV('list', items=tuple(reversed(outs)))


def m_graph_find_edge(ex, st, fr, callee, a, depth):
    r, g = _graph_ref(st, a[0])
    s_, t_ = _node_id(a[1]), _node_id(a[2])
    hits = [i for i, e in enumerate(g.get('edges').items) if concrete(e.fields[0]) == s_ and concrete(e.fields[1]) == t_]
    return some(Opaque('edge', hits[-1])) if hits else NONE


def m_graph_edge_weight(ex, st, fr, callee, a, depth):
    r, g = _graph_ref(st, a[0])
    i = _node_id(a[1])
    if i >= len(g.get('edges').items):
        return NONE
    return some(RefV(r.addr, r.path + (1, i, 2)))


def m_graph_update_edge(ex, st, fr, callee, a, depth):
    r, g = _graph_ref(st, a[0])
    s_, t_ = _node_id(a[1]), _node_id(a[2])
    edges = list(g.get('edges').items)
    hits = [i for i, e in enumerate(edges) if concrete(e.fields[0]) == s_ and concrete(e.fields[1]) == t_]
    if hits:
        i = hits[-1]
        edges[i] = TupV((edges[i].fields[0], edges[i].fields[1], a[3]))
        st.store(r, TupV((g.get('nodes'), ListV(edges)), ('nodes', 'edges'), 'StableGraph'))
        return Opaque('edge', i)
    return m_graph_add_edge(ex, st, fr, callee, a, depth)


def m_node_index(ex, st, fr, callee, a, depth):
    return BV(_node_id(deref(st, a[0]) if isinstance(a[0], RefV) else a[0]), 64)


def m_set_new(ex, st, fr, callee, a, depth):
    return TupV((ListV(()),), ('items',), 'Set')


def m_set_insert(ex, st, fr, callee, a, depth):
    """HashSet / BTreeSet::insert on a set kept as a duplicate-free list (forks on equality with existing elements)"""
    r = a[0]
    while isinstance(st.load(r), RefV):
        r = st.load(r)
    sv = st.load(r)
    if not (isinstance(sv, TupV) and sv.tag == 'Set'):
        raise Inconclusive('expected a set, got %r' % (sv,))
    items = list(sv.get('items').items)
    outs = []
    work = [(st, 0)]
    while work:
        s, i = work.pop()
        if i == len(items):
            s.store(r, TupV((ListV(items + [a[1]]),), ('items',), 'Set'))
            outs.append((s, z3.BoolVal(True)))
            continue
        for s2, same in ex.branch(s, deep_eq(ex, s, items[i], a[1])):
            if same:
                outs.append((s2, z3.BoolVal(False)))
            else:
                work.append((s2, i + 1))
    return outs


def m_min_max(ex, st, fr, callee, a, depth):
    x, y = a[0], a[1]
    if not (is_z3(x) and is_z3(y)):
        raise Inconclusive('min/max of %r' % (x,))
    is_min = '::min::<' in callee or callee.endswith('::min')
    return z3.simplify(z3.If(z3.ULE(x, y), x, y) if is_min else z3.If(z3.UGE(x, y), x, y))


MODELS2 += [
    (P(r'^StableGraph::<.*>::new$'), m_graph_new),
    (P(r'^StableGraph::<.*>::add_node$'), m_graph_add_node),
    (P(r'^StableGraph::<.*>::add_edge$'), m_graph_add_edge),
    (P(r'^StableGraph::<.*>::neighbors$'), m_graph_neighbors),
    (P(r'^StableGraph::<.*>::find_edge$'), m_graph_find_edge),
    (P(r'^StableGraph::<.*>::edge_weight$'), m_graph_edge_weight),
    (P(r'^StableGraph::<.*>::update_edge$'), m_graph_update_edge),
    (P(r'^NodeIndex::index$|^NodeIndex::<.*>::index$'), m_node_index),
    (P(r'^(HashSet|BTreeSet)::<.*>::new$'), m_set_new),
    (P(r'^(HashSet|BTreeSet)::<.*>::insert$'), m_set_insert),
    (P(r'^std::cmp::(min|max)::<(u8|u16|u32|u64|usize)>$|^<(u8|u16|u32|u64|usize) as Ord>::(min|max)$'), m_min_max),
]


# --------------------------------------------------------------------------- more set / map / Vec / graph models (minimiser)
_deep_eq_base = deep_eq


def deep_eq(ex, st, p, q):      # noqa: F811  (extends the definition above with node / edge indices and sets)
    p0, q0 = deref(st, p), deref(st, q)
    if isinstance(p0, Opaque) and isinstance(q0, Opaque) and p0.tag == q0.tag and p0.tag in ('node', 'edge'):
        return z3.BoolVal(p0.p == q0.p)
    if isinstance(p0, TupV) and isinstance(q0, TupV) and p0.tag == 'Set' and q0.tag == 'Set':
        a, b = list(p0.get('items').items), list(q0.get('items').items)
        if len(a) != len(b):
            return z3.BoolVal(False)
        return z3.And(*[z3.Or(*[deep_eq(ex, st, x, y) for y in b]) for x in a]) if a else z3.BoolVal(True)
    return _deep_eq_base(ex, st, p0, q0)


def _set_ref(st, r):
    while isinstance(st.load(r), RefV):
        r = st.load(r)
    v = st.load(r)
    if not (isinstance(v, TupV) and v.tag == 'Set'):
        raise Inconclusive('expected a set, got %r' % (v,))
    return r, v


def _member(ex, st, items, x):
    return z3.Or(*[deep_eq(ex, st, y, x) for y in items]) if items else z3.BoolVal(False)


def m_set_contains(ex, st, fr, callee, a, depth):
    r, sv = _set_ref(st, a[0])
    return z3.simplify(_member(ex, st, sv.get('items').items, a[1]))


def m_set_iter(ex, st, fr, callee, a, depth):
    """HashSet iteration in the order of the hash-order policy (default: INSERTION order, one of the orders the real hash set may produce)"""
    r, sv = _set_ref(st, a[0])
    if getattr(ex, 'hash_order', 'insertion') != 'insertion' and 'HashSet' in callee:
        return IterV('list', items=tuple(RefV(r.addr, r.path + (0, i)) for i in hash_order(ex, len(sv.get('items').items))))
    return IterV('list', by_ref=RefV(r.addr, r.path + (0,)))


def m_set_into_iter_owned(ex, st, fr, callee, a, depth):
    """HashSet::into_iter (by value): the elements in the order of the hash-order policy"""
    sv = a[0] if isinstance(a[0], TupV) else deref(st, a[0])
    if not (isinstance(sv, TupV) and sv.tag == 'Set'):
        return NotImplemented
    items = list(sv.get('items').items)
    return IterV('list', items=tuple(items[i] for i in hash_order(ex, len(items))))


def _set_op(kind):
    def m(ex, st, fr, callee, a, depth):
        ra, sa = _set_ref(st, a[0])
        rb, sb = _set_ref(st, a[1])
        A, B = list(sa.get('items').items), list(sb.get('items').items)
        cur = [(st, [])]
        order = hash_order(ex, len(A)) if 'HashSet' in callee else list(range(len(A)))
        for i in order:
            x = A[i]
            nxt = []
            for s, acc in cur:
                for s2, inb in ex.branch(s, _member(ex, s, B, x)):
                    keep = inb if kind == 'intersection' else not inb
                    nxt.append((s2, acc + [RefV(ra.addr, ra.path + (0, i))] if keep else acc))
            cur = nxt
        return [(s, IterV('list', items=tuple(acc))) for s, acc in cur]
    m.__name__ = 'm_set_' + kind
    return m


def m_set_len(ex, st, fr, callee, a, depth):
    r, sv = _set_ref(st, a[0])
    return BV(len(sv.get('items').items), 64)


def m_set_is_empty(ex, st, fr, callee, a, depth):
    r, sv = _set_ref(st, a[0])
    return z3.BoolVal(len(sv.get('items').items) == 0)


def collect_set(ex, st, xs):
    """duplicate-free list from items (forks on undecided equalities) -> [(state, Set value)]"""
    cur = [(st, [])]
    for x in xs:
        x = deref(st, x) if isinstance(x, RefV) and isinstance(st.load(x), Opaque) else x
        nxt = []
        for s, acc in cur:
            for s2, dup in ex.branch(s, _member(ex, s, acc, x)):
                nxt.append((s2, acc if dup else acc + [x]))
        cur = nxt
    return [(s, TupV((ListV(acc),), ('items',), 'Set')) for s, acc in cur]


def m_collect_set(ex, st, fr, callee, a, depth):
    outs = []
    for s, xs in elems(ex, st, a[0], depth):
        outs += collect_set(ex, s, xs)
    return outs


def m_partition(ex, st, fr, callee, a, depth):
    """Iterator::partition into two sets"""
    if 'HashSet' not in callee and 'BTreeSet' not in callee:
        raise Inconclusive('partition into ' + callee)
    outs = []
    for s, xs in elems(ex, st, a[0], depth):
        for s1, flags in call_seq(ex, s, a[1], xs, depth, by_ref=True):
            cur = [(s1, [], [])]
            for x, f in zip(xs, flags):
                nxt = []
                for s2, t_, f_ in cur:
                    for s3, tv in truth_forks(ex, s2, f):
                        nxt.append((s3, t_ + [x], f_) if tv else (s3, t_, f_ + [x]))
                cur = nxt
            for s2, t_, f_ in cur:
                outs.append((s2, TupV((TupV((ListV(t_),), ('items',), 'Set'), TupV((ListV(f_),), ('items',), 'Set')))))
    return outs


def m_vec_drain(ex, st, fr, callee, a, depth):
    """Vec::drain(range): the range is removed (as it is once the Drain is dropped) and its elements are yielded"""
    r = _list_ref(st, a[0])
    v = st.load(r)
    lo, hi = _bounds(st, a[1], len(v.items))
    if lo > hi or hi > len(v.items):
        return Outcome(st, None, panic='drain range out of bounds')
    st.store(r, ListV(v.items[:lo] + v.items[hi:]))
    return IterV('list', items=tuple(v.items[lo:hi]))


def m_vec_remove(ex, st, fr, callee, a, depth):
    r = _list_ref(st, a[0])
    v = st.load(r)
    i = concrete(a[1])
    if i is None:
        raise Inconclusive('Vec::remove at a symbolic index')
    if i >= len(v.items):
        return Outcome(st, None, panic='removal index out of bounds')
    st.store(r, ListV(v.items[:i] + v.items[i + 1:]))
    return v.items[i]


def m_slice_contains_deep(ex, st, fr, callee, a, depth):
    v = deref(st, a[0])
    if not isinstance(v, ListV):
        return NotImplemented
    x = a[1]
    try:
        return z3.simplify(_member(ex, st, v.items, x))
    except Inconclusive:
        return NotImplemented


def m_node_indices(ex, st, fr, callee, a, depth):
    r, g = _graph_ref(st, a[0])
    return IterV('list', items=tuple(Opaque('node', i) for i in range(len(g.get('nodes').items))))


def m_graph_neighbors_directed(ex, st, fr, callee, a, depth):
    r, g = _graph_ref(st, a[0])
    n = _node_id(a[1])
    d = a[2]
    incoming = isinstance(d, EnumV) and d.variant == 'Incoming' or (isinstance(d, FnItem) and 'Incoming' in d.path) or \
        (isinstance(d, Opaque) and 'Incoming' in str(d.p))
    outgoing = isinstance(d, EnumV) and d.variant == 'Outgoing' or (isinstance(d, FnItem) and 'Outgoing' in d.path)
    if not (incoming or outgoing):
        raise Inconclusive('direction %r' % (d,))
    if incoming:
        outs = [Opaque('node', concrete(e.fields[0])) for e in g.get('edges').items if concrete(e.fields[1]) == n]
    else:
        outs = [Opaque('node', concrete(e.fields[1])) for e in g.get('edges').items if concrete(e.fields[0]) == n]
    return IterV('list', items=tuple(reversed(outs)))


def m_graph_node_count(ex, st, fr, callee, a, depth):
    r, g = _graph_ref(st, a[0])
    return BV(len(g.get('nodes').items), 64)


def m_node_eq(ex, st, fr, callee, a, depth):
    return deep_eq(ex, st, a[0], a[1])


def m_hashmap_insert(ex, st, fr, callee, a, depth):
    r, mp = _map_ref(st, a[0])
    entries = list(mp.get('entries').items)
    outs = []
    work = [(st, 0)]
    while work:
        s, i = work.pop()
        if i == len(entries):
            ents = list(s.load(r).get('entries').items) + [TupV((a[1], a[2]))]
            s.store(r, TupV((ListV(ents),), ('entries',), 'HashMap'))
            outs.append((s, NONE))
            continue
        for s2, same in ex.branch(s, deep_eq(ex, s, entries[i].fields[0], a[1])):
            if same:
                ents = list(s2.load(r).get('entries').items)
                old = ents[i].fields[1]
                ents[i] = TupV((ents[i].fields[0], a[2]))
                s2.store(r, TupV((ListV(ents),), ('entries',), 'HashMap'))
                outs.append((s2, some(old)))
            else:
                work.append((s2, i + 1))
    return outs


def m_hashmap_get(ex, st, fr, callee, a, depth):
    r, mp = _map_ref(st, a[0])
    entries = list(mp.get('entries').items)
    outs = []
    work = [(st, 0)]
    while work:
        s, i = work.pop()
        if i == len(entries):
            outs.append((s, NONE))
            continue
        for s2, same in ex.branch(s, deep_eq(ex, s, entries[i].fields[0], a[1])):
            if same:
                outs.append((s2, some(RefV(r.addr, r.path + (0, i, 1)))))
            else:
                work.append((s2, i + 1))
    return outs


MODELS2 = [
    (P(r'^(HashSet|BTreeSet)::<.*>::contains::<'), m_set_contains),
    (P(r'^(HashSet|BTreeSet)::<.*>::iter$|^<&(HashSet|BTreeSet)<.*> as IntoIterator>::into_iter$'), m_set_iter),
    (P(r'^<HashSet<.*> as IntoIterator>::into_iter$'), m_set_into_iter_owned),
    (P(r'^HashSet::<.*>::intersection$'), _set_op('intersection')),
    (P(r'^HashSet::<.*>::difference$'), _set_op('difference')),
    (P(r'^(HashSet|BTreeSet)::<.*>::len$'), m_set_len),
    (P(r'^(HashSet|BTreeSet)::<.*>::is_empty$'), m_set_is_empty),
    (P(r' as Iterator>::collect::<(HashSet|BTreeSet)<'), m_collect_set),
    (P(r' as Iterator>::partition::<'), m_partition),
    (P(r'^Vec::<.*>::drain::<'), m_vec_drain),
    (P(r'^Vec::<.*>::remove$'), m_vec_remove),
    (P(r'^core::slice::<impl \[.*(HashSet|NodeIndex).*\]>::contains$|^core::slice::<impl \[\(.*\)\]>::contains$'), m_slice_contains_deep),
    (P(r'^StableGraph::<.*>::node_indices$'), m_node_indices),
    (P(r'^StableGraph::<.*>::neighbors_directed$'), m_graph_neighbors_directed),
    (P(r'^StableGraph::<.*>::node_count$'), m_graph_node_count),
    (P(r'^<&*(NodeIndex|HashSet<.*>) as PartialEq>::eq$'), m_node_eq),
    (P(r'^HashMap::<.*>::insert$'), m_hashmap_insert),
    (P(r'^HashMap::<.*>::get::<'), m_hashmap_get),
    (P(r'^<(HashSet|BTreeSet|HashMap)<.*> as Clone>::clone$'), m_plain_clone),
] + MODELS2


# --------------------------------------------------------------------------- petgraph Dfs / edge references, ndarray, Box (state elimination)
def m_dfs_new(ex, st, fr, callee, a, depth):
    """petgraph Dfs: explicit stack + discovered set (concrete)"""
    return TupV((ListV((a[1],)), ListV(())), ('stack', 'discovered'), 'Dfs')


def m_dfs_next(ex, st, fr, callee, a, depth):
    r = a[0]
    while isinstance(st.load(r), RefV):
        r = st.load(r)
    d = st.load(r)
    rg, g = _graph_ref(st, a[1])
    stack = [_node_id(x) for x in d.get('stack').items]
    disc = [_node_id(x) for x in d.get('discovered').items]
    edges = g.get('edges').items
    while stack:
        node = stack.pop()
        if node in disc:
            continue
        disc.append(node)
        succ = [concrete(e.fields[1]) for e in edges if concrete(e.fields[0]) == node]
        for s_ in reversed(succ):            # neighbors(): newest edge first
            if s_ not in disc:
                stack.append(s_)
        st.store(r, TupV((ListV([Opaque('node', x) for x in stack]), ListV([Opaque('node', x) for x in disc])), ('stack', 'discovered'), 'Dfs'))
        return some(Opaque('node', node))
    st.store(r, TupV((ListV(()), ListV([Opaque('node', x) for x in disc])), ('stack', 'discovered'), 'Dfs'))
    return NONE


def m_edges_directed(ex, st, fr, callee, a, depth):
    r, g = _graph_ref(st, a[0])
    n = _node_id(a[1])
    d = a[2]
    incoming = 'Incoming' in (d.path if isinstance(d, FnItem) else getattr(d, 'variant', ''))
    idx = [i for i, e in enumerate(g.get('edges').items) if concrete(e.fields[1 if incoming else 0]) == n]
    return IterV('list', items=tuple(Opaque('edgeref', r, i) for i in reversed(idx)))


def m_edgeref_weight(ex, st, fr, callee, a, depth):
    e = deref(st, a[0]) if isinstance(a[0], RefV) else a[0]
    r, i = e.p
    return RefV(r.addr, r.path + (1, i, 2))


def m_edgeref_target(ex, st, fr, callee, a, depth):
    e = deref(st, a[0]) if isinstance(a[0], RefV) else a[0]
    r, i = e.p
    return Opaque('node', concrete(st.load(r).get('edges').items[i].fields[1]))


def m_edgeref_source(ex, st, fr, callee, a, depth):
    e = deref(st, a[0]) if isinstance(a[0], RefV) else a[0]
    r, i = e.p
    return Opaque('node', concrete(st.load(r).get('edges').items[i].fields[0]))


def m_array_default(ex, st, fr, callee, a, depth):
    """ndarray Array1 / Array2::<Option<T>>::default(shape): all None"""
    sh = a[0]
    if isinstance(sh, TupV):
        rws, cls = concrete(sh.fields[0]), concrete(sh.fields[1])
        if rws is None or cls is None:
            raise Inconclusive('array with a symbolic shape')
        return TupV((ListV([ListV([NONE] * cls) for _ in range(rws)]),), ('data',), 'Array2')
    n = concrete(sh)
    if n is None:
        raise Inconclusive('array with a symbolic shape')
    return TupV((ListV([NONE] * n),), ('data',), 'Array1')


def m_array_index(ex, st, fr, callee, a, depth):
    r = a[0]
    while isinstance(st.load(r), RefV):
        r = st.load(r)
    arr = st.load(r)
    if not (isinstance(arr, TupV) and arr.tag in ('Array1', 'Array2')):
        raise Inconclusive('index into %r' % (arr,))
    if arr.tag == 'Array2':
        i, j = concrete(a[1].fields[0]), concrete(a[1].fields[1])
        rows = arr.get('data').items
        if i is None or j is None:
            raise Inconclusive('symbolic array index')
        if i >= len(rows) or j >= len(rows[i].items):
            return Outcome(st, None, panic='ndarray: index out of bounds')
        return RefV(r.addr, r.path + (0, i, j))
    i = concrete(a[1])
    if i is None:
        raise Inconclusive('symbolic array index')
    if i >= len(arr.get('data').items):
        return Outcome(st, None, panic='ndarray: index out of bounds')
    return RefV(r.addr, r.path + (0, i))


def m_array_is_empty(ex, st, fr, callee, a, depth):
    arr = deref(st, a[0])
    return z3.BoolVal(len(arr.get('data').items) == 0)


def m_box_from(ex, st, fr, callee, a, depth):
    return st.ref(a[0])


def m_box_clone(ex, st, fr, callee, a, depth):
    b = a[0]
    while isinstance(st.load(b), RefV) and isinstance(st.load(st.load(b)), RefV):
        b = st.load(b)
    inner = st.load(b)              # the Box itself (a RefV) or, for &Box, a ref to it
    val = st.load(inner) if isinstance(inner, RefV) else inner
    return st.ref(val)


def m_noop_unit(ex, st, fr, callee, a, depth):
    return UNIT


def m_deep_eq(ex, st, fr, callee, a, depth):
    r = deep_eq_full(ex, st, a[0], a[1])
    return z3.Not(r) if callee.endswith('::ne') else r


def deep_eq_full(ex, st, p, q):
    """deep_eq extended to enum values (variant + fields)"""
    p0, q0 = deref(st, p), deref(st, q)
    if isinstance(p0, EnumV) and isinstance(q0, EnumV):
        if p0.enum != q0.enum or p0.variant != q0.variant or len(p0.fields) != len(q0.fields):
            return z3.BoolVal(False)
        parts = [deep_eq_full(ex, st, x, y) for x, y in zip(p0.fields, q0.fields)]
        return z3.And(*parts) if parts else z3.BoolVal(True)
    if isinstance(p0, ListV) and isinstance(q0, ListV):
        if len(p0.items) != len(q0.items):
            return z3.BoolVal(False)
        parts = [deep_eq_full(ex, st, x, y) for x, y in zip(p0.items, q0.items)]
        return z3.And(*parts) if parts else z3.BoolVal(True)
    if isinstance(p0, TupV) and isinstance(q0, TupV) and p0.tag not in ('Set',):
        if len(p0.fields) != len(q0.fields):
            return z3.BoolVal(False)
        parts = [deep_eq_full(ex, st, x, y) for x, y in zip(p0.fields, q0.fields)]
        return z3.And(*parts) if parts else z3.BoolVal(True)
    if z3.is_bool(p0) if is_z3(p0) else False:
        return p0 == q0
    return deep_eq(ex, st, p0, q0)


def m_slice_reverse(ex, st, fr, callee, a, depth):
    r = _list_ref(st, a[0])
    st.store(r, ListV(tuple(reversed(st.load(r).items))))
    return UNIT


def m_sort_by_key(ex, st, fr, callee, a, depth):
    """<[T]>::sort_by_key with an unsigned or Reverse<unsigned> key (stable)"""
    r = _list_ref(st, a[0])
    items = list(st.load(r).items)
    outs = []
    refs = [RefV(r.addr, r.path + (i,)) for i in range(len(items))]
    for s1, keys in call_seq(ex, st, a[1], refs, depth):
        def keyval(k):
            k = deref(s1, k)
            rev = False
            while isinstance(k, TupV) and len(k.fields) == 1:
                rev = rev or k.tag == 'Reverse'
                k = k.fields[0]
            return k, rev
        pairs = [TupV((keyval(k)[0], x)) for k, x in zip(keys, items)]
        rev = any(keyval(k)[1] for k in keys)

        def cmp(ss, p, q):
            res = cmp_scalar_forks(ex, ss, p.fields[0], q.fields[0])
            if rev:
                res = [(s_, {'Less': 'Greater', 'Greater': 'Less', 'Equal': 'Equal'}[c]) for s_, c in res]
            return res
        for s2, srt in _stable_sort(ex, s1, pairs, cmp):
            s2.store(r, ListV([p.fields[1] for p in srt]))
            outs.append((s2, UNIT))
    return outs


def m_set_union(ex, st, fr, callee, a, depth):
    ra, sa = _set_ref(st, a[0])
    rb, sb = _set_ref(st, a[1])
    A, B = list(sa.get('items').items), list(sb.get('items').items)
    cur = [(st, [RefV(ra.addr, ra.path + (0, i)) for i in range(len(A))])]
    for j, y in enumerate(B):
        nxt = []
        for s, acc in cur:
            for s2, ina in ex.branch(s, _member(ex, s, A, y)):
                nxt.append((s2, acc if ina else acc + [RefV(rb.addr, rb.path + (0, j))]))
        cur = nxt
    return [(s, IterV('list', items=tuple(acc))) for s, acc in cur]


def m_zip_longest(ex, st, fr, callee, a, depth):
    outs = []
    for s, xs in elems(ex, st, a[0], depth):
        for s2, ys in elems(ex, s, a[1], depth):
            items = []
            for i in range(max(len(xs), len(ys))):
                if i < len(xs) and i < len(ys):
                    items.append(EnumV('EitherOrBoth', 'Both', 0, (xs[i], ys[i])))
                elif i < len(xs):
                    items.append(EnumV('EitherOrBoth', 'Left', 1, (xs[i],)))
                else:
                    items.append(EnumV('EitherOrBoth', 'Right', 2, (ys[i],)))
            outs.append((s2, IterV('list', items=tuple(items))))
    return outs


def m_unwrap_or_default(ex, st, fr, callee, a, depth):
    o = a[0]
    if isinstance(o, EnumV) and o.variant == 'Some':
        return o.fields[0]
    if 'Vec<' in callee:
        return ListV(())
    if 'String' in callee:
        return SymStr(())
    raise Inconclusive('unwrap_or_default of ' + callee)


MODELS2 = [
    (P(r'^Dfs::<.*>::new::<'), m_dfs_new),
    (P(r'^Dfs::<.*>::next::<'), m_dfs_next),
    (P(r'^StableGraph::<.*>::edges_directed$'), m_edges_directed),
    (P(r'EdgeReference::<.*>::weight$|EdgeReference<.*> as EdgeRef>::weight$'), m_edgeref_weight),
    (P(r'EdgeReference<.*> as EdgeRef>::target$'), m_edgeref_target),
    (P(r'EdgeReference<.*> as EdgeRef>::source$'), m_edgeref_source),
    (P(r'^ndarray::impl_constructors::<impl ArrayBase<.*>>::default::<'), m_array_default),
    (P(r'^<ArrayBase<.*> as (std::ops::)?Index(Mut)?<.*>>::index(_mut)?$'), m_array_index),
    (P(r'^ndarray::impl_methods::<impl ArrayBase<.*>>::is_empty$'), m_array_is_empty),
    (P(r'^<Box<.*> as From<.*>>::from$|^Box::<.*>::new$'), m_box_from),
    (P(r'^<Box<.*> as Clone>::clone$'), m_box_clone),
    (P(r'^<Box<.*> as Drop>::drop$'), m_noop_unit),
    (P(r"^<&*(Box<.*>|Quantifier|bool|char|u8|u16|u32|u64|usize|Grapheme|GraphemeCluster<'_>|BTreeSet<.*>|Vec<Expression<'_>>|Expression<'_>) as PartialEq(<.*>)?>::(eq|ne)$"), m_deep_eq),
    (P(r'^core::slice::<impl \[.*\]>::reverse$'), m_slice_reverse),
    (P(r'^(std::)?slice::<impl \[.*\]>::sort_by_key::<'), m_sort_by_key),
    (P(r'^BTreeSet::<.*>::union$|^HashSet::<.*>::union$'), m_set_union),
    (P(r' as Itertools>::zip_longest::<'), m_zip_longest),
    (P(r'^Option::<.*>::unwrap_or_default$'), m_unwrap_or_default),
    (P(r"^<(Expression<'_>|Option<Expression<'_>>|GraphemeCluster<'_>|Grapheme|Quantifier|Vec<.*>) as Clone>::clone$"), m_plain_clone),
] + MODELS2


# --------------------------------------------------------------------------- unic-char-range iteration, sorted BTreeSet<char>, scalar slice::contains
def m_charrange_all(ex, st, fr, callee, a, depth):
    return TupV((BV(0, 32), BV(0x10FFFF, 32)), ('low', 'high'), 'CharRange')


def m_charrange_iter(ex, st, fr, callee, a, depth):
    r = deref(st, a[0])
    return IterV('charrange', items=(r.get('low'), r.get('high')))


def m_chariter_position(ex, st, fr, callee, a, depth):
    """CharIter::position(|it| it == c) over CharRange::all(): the index of c among all scalar values in code-point order
    (surrogates are skipped).  The closure is run once on a fresh symbolic element and must reduce to `x == t`."""
    it = deref(st, a[0])
    if not (isinstance(it, IterV) and it.kind == 'charrange') or concrete(it.items[0]) != 0 or concrete(it.items[1]) != 0x10FFFF:
        raise Inconclusive('CharIter::position on a range other than CharRange::all()')
    x = z3.BitVec('pos_probe!%d' % ex.steps, 32)
    outs = ex.call_merged(st.fork(), a[1], [x], depth)
    if len(outs) != 1 or outs[0].panic or not z3.is_bool(outs[0].val):
        raise Inconclusive('position closure did not reduce to one Boolean')
    t = z3.simplify(outs[0].val)
    target = None
    if z3.is_eq(t):
        l, r_ = t.arg(0), t.arg(1)
        if l.eq(x):
            target = r_
        elif r_.eq(x):
            target = l
    if target is None:
        raise Inconclusive('position closure is not an equality test: %s' % t)
    idx = z3.If(z3.ULT(target, BV(0xD800, 32)), target, target - BV(0x800, 32))
    return some(z3.ZeroExt(32, idx))


def m_btreeset_char_iter(ex, st, fr, callee, a, depth):
    """BTreeSet<char> iterates in ascending order: the elements are sorted (forks on undecided comparisons)"""
    r, sv = _set_ref(st, a[0])
    items = list(sv.get('items').items)
    outs = []
    for s, srt in _stable_sort(ex, st, [RefV(r.addr, r.path + (0, i)) for i in range(len(items))],
                               lambda ss, p, q: cmp_scalar_forks(ex, ss, deref(ss, p), deref(ss, q))):
        outs.append((s, IterV('list', items=tuple(srt))))
    return outs


def m_slice_contains_scalar(ex, st, fr, callee, a, depth):
    v = deref(st, a[0])
    x = deref(st, a[1])
    if isinstance(v, ListV) and is_z3(x) and all(is_z3(deref(st, y)) for y in v.items):
        return z3.Or(*[deref(st, y) == x for y in v.items]) if v.items else z3.BoolVal(False)
    return NotImplemented


def ord_cmp_value(ex, st, x, y, depth):
    """<T as Ord>::cmp for plain data, as #[derive(Ord)] defines it: scalars, strings, Vec (lexicographic), structs field by field
    (the type's own `cmp` body is run from MIR when the crate has one), enums by variant then fields -> [(state, ordering name)]"""
    x, y = deref(st, x), deref(st, y)
    if isinstance(x, SymStr) and isinstance(y, SymStr):
        return cmp_str_forks(ex, st, list(x.items), list(y.items))
    if is_z3(x) and is_z3(y):
        if z3.is_bool(x):
            outs = []
            for s1, eq in ex.branch(st, x == y):
                if eq:
                    outs.append((s1, 'Equal'))
                else:
                    for s2, t in ex.branch(s1, y):
                        outs.append((s2, 'Less' if t else 'Greater'))
            return outs
        return cmp_scalar_forks(ex, st, x, y)
    if isinstance(x, ListV) and isinstance(y, ListV):
        xs, ys = list(x.items), list(y.items)
        outs, work = [], [(st, 0)]
        while work:
            s, i = work.pop()
            if i == len(xs) or i == len(ys):
                outs.append((s, 'Equal' if len(xs) == len(ys) else ('Less' if len(xs) < len(ys) else 'Greater')))
                continue
            for s2, c in ord_cmp_value(ex, s, xs[i], ys[i], depth):
                if c == 'Equal':
                    work.append((s2, i + 1))
                else:
                    outs.append((s2, c))
        return outs
    if isinstance(x, TupV) and isinstance(y, TupV) and x.tag and x.tag == y.tag:
        own = [n for n in ex.mir.fns if re.search(r'<impl at [^>]*>::cmp$', n) and ex.mir.fns[n].params and
               ex.mir.fns[n].params[0][1].strip() in ('&' + x.tag, '&%s<\'_>' % x.tag)]
        if len(own) == 1:
            res = []
            for o in ex.run_fn(st, own[0], [st.ref(x), st.ref(y)], depth + 1):
                if o.panic or not (isinstance(o.val, EnumV) and o.val.enum == 'Ordering'):
                    raise Inconclusive('%s::cmp returned %r' % (x.tag, o.val))
                res.append((o.st, o.val.variant))
            return res
    if isinstance(x, TupV) and isinstance(y, TupV) and len(x.fields) == len(y.fields):
        return ord_cmp_value(ex, st, ListV(x.fields), ListV(y.fields), depth)
    if isinstance(x, EnumV) and isinstance(y, EnumV) and x.enum == y.enum:
        if x.disc != y.disc:
            return [(st, 'Less' if x.disc < y.disc else 'Greater')]
        return ord_cmp_value(ex, st, ListV(x.fields), ListV(y.fields), depth)
    raise Inconclusive('Ord::cmp on %r, %r' % (x, y))


def m_iter_min_max(ex, st, fr, callee, a, depth):
    """Iterator::min / max over plain data (Ord as derive defines it; node indices by their index): the last maximum / first minimum as std specifies"""
    want_max = callee.endswith('::max')
    outs = []
    for s, xs in elems(ex, st, a[0], depth):
        if not xs:
            outs.append((s, NONE))
            continue
        cur = [(s, xs[0])]
        for x in xs[1:]:
            nxt = []
            for s1, best in cur:
                b0, x0 = deref(s1, best), deref(s1, x)
                if isinstance(b0, Opaque) and isinstance(x0, Opaque) and b0.tag == x0.tag and b0.tag in ('node', 'edge'):
                    cs_ = [(s1, 'Less' if b0.p < x0.p else ('Equal' if b0.p == x0.p else 'Greater'))]
                else:
                    cs_ = ord_cmp_value(ex, s1, best, x, depth)
                for s2, c in cs_:
                    if want_max:
                        nxt.append((s2, x if c in ('Less', 'Equal') else best))      # max returns the LAST maximal element
                    else:
                        nxt.append((s2, x if c == 'Greater' else best))              # min returns the FIRST minimal element
            cur = nxt
        outs += [(s1, some(best)) for s1, best in cur]
    return outs


def m_fn_trait_call(ex, st, fr, callee, a, depth):
    """<F as Fn / FnMut / FnOnce<Args>>::call(_mut / _once)(f, (args..)): the closure or fn item value f applied to the unpacked argument tuple"""
    f = a[0]
    while isinstance(f, RefV) and isinstance(st.heap.get(f.addr), RefV):
        f = st.load(f)
    if f is None or (isinstance(f, RefV) and st.heap.get(f.addr) is None):
        # a capture-less closure kept in a local is a zero-sized value: the callee text names it
        m_ = re.match(r'^<(\{closure@[^}]*\}) as Fn', callee)
        if not m_:
            raise Inconclusive('Fn::call on an unknown callable (%s)' % callee)
        f = ClosV(ex.closure_name(m_.group(1)), TupV(()))
    args = a[1] if len(a) > 1 else TupV(())
    if isinstance(args, RefV):
        args = st.load(args)
    if not isinstance(args, TupV):
        raise Inconclusive('Fn::call with argument pack %r' % (args,))
    return ex.call_value(st, f, list(args.fields), depth)


def m_opt_is_some_and(ex, st, fr, callee, a, depth):
    """Option::is_some_and(f) / is_none_or(f)"""
    o = a[0]
    if not (isinstance(o, EnumV) and o.enum == 'Option'):
        raise Inconclusive('is_some_and on %r' % (o,))
    none_result = callee.startswith('Option') and '::is_none_or::' in callee
    if o.variant == 'None':
        return z3.BoolVal(none_result)
    return ex.call_value(st, a[1], [o.fields[0]], depth)


def m_ord_cmp_generic(ex, st, fr, callee, a, depth):
    """<Vec<T> / bool / plain struct as Ord>::cmp: lexicographic, false < true, field by field"""
    return [(s, ordering(c)) for s, c in ord_cmp_value(ex, st, a[0], a[1], depth)]


def m_btreeset_iter_sorted(ex, st, fr, callee, a, depth):
    """BTreeSet<T> iterates in ascending order of T's Ord: the elements are sorted with T::cmp (the crate's own body from MIR for its
    types; forks on undecided comparisons)"""
    r, sv = _set_ref(st, a[0])
    items = list(sv.get('items').items)
    outs = []
    for s, srt in _stable_sort(ex, st, [RefV(r.addr, r.path + (0, i)) for i in range(len(items))],
                               lambda ss, p, q: ord_cmp_value(ex, ss, p, q, depth)):
        outs.append((s, IterV('list', items=tuple(srt))))
    return outs


MODELS2 = [
    (P(r'^BTreeSet::<(?!char>).*>::iter$|^<&BTreeSet<(?!char>).*> as IntoIterator>::into_iter$'), m_btreeset_iter_sorted),
    (P(r'^<(Vec<.*>|bool) as (Partial)?Ord>::cmp$'), m_ord_cmp_generic),
    (P(r' as Iterator>::(min|max)$'), m_iter_min_max),
    (P(r'^<.* as Fn(Mut|Once)?<\(.*\)>>::call(_mut|_once)?$'), m_fn_trait_call),
    (P(r'^Option::<.*>::(is_some_and|is_none_or)::<'), m_opt_is_some_and),
    (P(r'^CharRange::all$'), m_charrange_all),
    (P(r'^CharRange::iter$'), m_charrange_iter),
    (P(r'^<CharIter as Iterator>::position::<'), m_chariter_position),
    (P(r'^BTreeSet::<char>::iter$|^<&BTreeSet<char> as IntoIterator>::into_iter$'), m_btreeset_char_iter),
    (P(r'^core::slice::<impl \[(char|u8|u16|u32|usize)\]>::contains$'), m_slice_contains_scalar),
] + MODELS2
