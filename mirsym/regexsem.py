"""Leftmost-first search semantics for the pattern syntax grex prints, over texts of symbolic code points.

The printed pattern (concrete syntax characters, symbolic literal characters) is parsed into an AST; because grex never emits
an unbounded quantifier the AST denotes finitely many words, and a backtracking (Perl-like, "leftmost-first") engine -- the
semantics the regex crate documents for Regex::find -- tries them in a fixed priority order: alternatives left to right, `?` and
{m,n} greedy (one more iteration before stopping), earlier atoms more significant than later ones.  `ordered_words` returns the
words in exactly that order; a search then is "the first start position, and for it the first word in priority order, that
matches", which is a quantifier-free term over the code points of the text.
"""
import z3
from .sym import Inconclusive, InfiniteLanguage, concrete, BV
from .smt import in_ranges


class Cls:
    """a shorthand class \\d \\w \\s or its negation as one position of a word"""
    __slots__ = ('name', 'neg')

    def __init__(self, name, neg):
        self.name, self.neg = name, neg

    def __repr__(self):
        return '\\' + (self.name.upper() if self.neg else self.name)


class AnyOf:
    """a bracketed character class: the position matches any of the members"""
    __slots__ = ('members',)

    def __init__(self, members):
        self.members = list(members)

    def __repr__(self):
        return '[%s]' % ','.join(map(str, self.members))


class Range:
    """a range lo-hi inside a bracketed class whose width the path condition does not fix"""
    __slots__ = ('lo', 'hi')

    def __init__(self, lo, hi):
        self.lo, self.hi = lo, hi

    def __repr__(self):
        return '%s-%s' % (self.lo, self.hi)


def pm_match(pm, x, oracle, fold=None):
    """does position matcher pm accept code point x; fold: under (?i) a literal matches every member of its simple-case-folding
    orbit -- fold maps a code point to its orbit representative"""
    if isinstance(pm, Cls):
        if oracle is None:
            raise Inconclusive('shorthand class without oracle')
        # under (?i) a shorthand class is unchanged: \d \s have no cased members and \w is closed under simple case folding
        t = in_ranges(x, oracle[pm.name])
        return z3.Not(t) if pm.neg else t
    if isinstance(pm, Range):
        if fold is not None:
            raise Inconclusive('class range under (?i)')
        return z3.And(z3.ULE(pm.lo, x), z3.ULE(x, pm.hi))
    if isinstance(pm, AnyOf):
        return z3.Or(*[pm_match(m, x, oracle, fold) for m in pm.members]) if pm.members else z3.BoolVal(False)
    return (x == pm) if fold is None else (fold(x) == fold(pm))


def parse_ast(parser):
    """parser: a queries.PatternParser positioned after an optional ^; -> AST
    ('alt', [n..]) | ('cat', [n..]) | ('opt', n) | ('rep', n, lo, hi) | ('pos', position matcher)"""
    P = parser

    def alternation():
        out = [concatenation()]
        while P.at('|'):
            P.i += 1
            out.append(concatenation())
        return out[0] if len(out) == 1 else ('alt', out)

    def concatenation():
        parts = []
        while P.i < len(P.items):
            c = P.peek()
            if c in (ord('|'), ord(')')) or (c == ord('$') and P.i == len(P.items) - 1):
                break
            parts.append(quantified())
        return ('cat', parts)

    def quantified():
        a = atom()
        if P.at('?'):
            P.i += 1
            if P.at('?'):
                raise Inconclusive('lazy quantifier in the printed pattern (search order not modelled)')
            return ('opt', a)
        if P.at('*') or P.at('+'):
            raise InfiniteLanguage('unbounded quantifier in the printed pattern')
        if P.at('{'):
            j = P.i + 1
            txt = ''
            while j < len(P.items) and concrete(P.items[j]) is not None and chr(concrete(P.items[j])) in '0123456789,':
                txt += chr(concrete(P.items[j]))
                j += 1
            if j < len(P.items) and concrete(P.items[j]) == ord('}') and txt:
                P.i = j + 1
                lo, hi = (int(txt), int(txt)) if ',' not in txt else tuple(int(x) for x in txt.split(','))
                if P.at('?'):
                    # X{n}? is a LAZY quantifier, not an optional group: for an exact count the language and the order are those of X{n}
                    P.i += 1
                    if lo != hi:
                        raise Inconclusive('lazy range quantifier in the printed pattern (search order not modelled)')
                return ('rep', a, lo, hi)
        return a

    def atom():
        c = P.peek()
        if P.at('(?:') or c == ord('('):
            P.i += 3 if P.at('(?:') else 1
            w = alternation()
            if not P.at(')'):
                raise Inconclusive('unbalanced group in the printed pattern')
            P.i += 1
            return w
        if c == ord('['):
            words = P.atom()            # the bracket expression, expanded to its members by the word parser
            return ('pos', AnyOf([w[0] for w in words]))
        if c == 92 and P.i + 1 < len(P.items) and concrete(P.items[P.i + 1]) is not None and chr(concrete(P.items[P.i + 1])) in 'dDsSwW':
            ch = chr(concrete(P.items[P.i + 1]))
            P.i += 2
            return ('pos', Cls(ch.lower(), ch.isupper()))
        words = P.atom()
        return ('pos', words[0][0])
    return alternation()


def ordered_words(ast, limit=4000):
    """the words of the AST in the priority order of a backtracking matcher"""
    kind = ast[0]
    if kind == 'pos':
        return [[ast[1]]]
    if kind == 'alt':
        out = []
        for n in ast[1]:
            out += ordered_words(n, limit)
        return out
    if kind == 'cat':
        words = [[]]
        for n in ast[1]:
            a = ordered_words(n, limit)
            if len(words) * len(a) > limit:
                raise Inconclusive('pattern language too large')
            words = [w + x for w in words for x in a]
        return words
    if kind == 'opt':
        return ordered_words(ast[1], limit) + [[]]
    if kind == 'rep':
        a = ordered_words(ast[1], limit)
        lo, hi = ast[2], ast[3]

        def go(k):
            # words for the iterations after the k-th: greedy, i.e. another iteration is tried before stopping
            if k == hi:
                return [[]]
            out = []
            for x in a:
                for rest in go(k + 1):
                    out.append(x + rest)
                    if len(out) > limit:
                        raise Inconclusive('pattern language too large')
            if k >= lo:
                out.append([])
            return out
        return go(0)
    raise Inconclusive('unknown AST node %r' % (kind,))


def word_match(word, text, s, oracle, fold=None):
    """word matches text[s : s+len(word)] (False if it does not fit)"""
    if s + len(word) > len(text):
        return z3.BoolVal(False)
    return z3.And(*[pm_match(pm, text[s + i], oracle, fold) for i, pm in enumerate(word)]) if word else z3.BoolVal(True)


def candidates(words, text, oracle, start_anchor=False, end_anchor=False, from_pos=0):
    """[(guard, s, e)] in the order a leftmost-first search considers them; the match is the first whose guard holds"""
    out = []
    n = len(text)
    for s in range(from_pos, n + 1):
        if start_anchor and s != 0:
            break
        for w in words:
            e = s + len(w)
            if e > n or (end_anchor and e != n):
                continue
            g = z3.simplify(word_match(w, text, s, oracle))
            if z3.is_false(g):
                continue
            out.append((g, s, e))
    return out


def search_is_full(words, text, oracle, start_anchor=False, end_anchor=False):
    """Bool: the leftmost-first search of `text` finds a match and it spans the entire text"""
    n = len(text)
    alts, earlier = [], []
    for g, s, e in candidates(words, text, oracle, start_anchor, end_anchor):
        if s != 0:
            break
        if e == n:
            alts.append(z3.And(g, *[z3.Not(h) for h in earlier]))
        else:
            earlier.append(g)
    return z3.Or(*alts) if alts else z3.BoolVal(False)


def find_terms(words, text, oracle, byte_off, from_pos=0):
    """-> (found: Bool, start, end: 64-bit byte offsets as If-chains) of the leftmost-first match at or after from_pos"""
    cs = candidates(words, text, oracle, from_pos=from_pos)
    found = z3.Or(*[g for g, _, _ in cs]) if cs else z3.BoolVal(False)
    start = end = z3.BitVecVal(0, 64)
    for g, s, e in reversed(cs):
        start = z3.If(g, byte_off[s], start)
        end = z3.If(g, byte_off[e], end)
    return found, start, end


def count_matches(words, text, oracle):
    """64-bit term: the number of successive non-overlapping leftmost-first matches (Regex::find_iter(text).count()).
    Patterns that can match the empty string are not handled (the iterator's empty-match rules are not modelled)."""
    if any(len(w) == 0 for w in words):
        raise Inconclusive('find_iter on a pattern that matches the empty string')
    n = len(text)
    memo = {}

    def f(pos):
        if pos in memo:
            return memo[pos]
        t = z3.BitVecVal(0, 64)
        for g, s, e in reversed(candidates(words, text, oracle, from_pos=pos)):
            t = z3.If(g, z3.BitVecVal(1, 64) + f(e), t)
        memo[pos] = z3.simplify(t)
        return memo[pos]
    return f(0)
