"""Running Kani harnesses and reading their verdicts."""
import json
import os
import re
import shutil
import subprocess
import time
from . import prep

VERIF = prep.VERIF
WORK = prep.WORK


class KaniResult:
    def __init__(self, harness):
        self.harness = harness
        self.status = 'inconclusive'    # 'successful' | 'failed' | 'inconclusive'
        self.reason = ''
        self.failed_checks = []
        self.covers = (0, 0)
        self.verif_time = None
        self.wall = 0.0
        self.stats = {}
        self.log = ''
        self.playback = None
        self.should_panic = False

    def as_dict(self):
        d = {'id': self.harness, 'engine': 'Kani 0.68 / CBMC 6.11 (CaDiCaL)', 'result': self.status,
             'cover_properties_satisfied': '%d of %d' % self.covers, 'verification_time_s': self.verif_time,
             'wall_s': round(self.wall, 1), 'log': self.log}
        if self.reason:
            d['inconclusive_reason' if self.status == 'inconclusive' else 'note'] = self.reason
        if self.failed_checks:
            d['failed_checks'] = self.failed_checks[:6]
        if self.stats:
            d.update(self.stats)
        if self.playback:
            d['concrete_playback'] = self.playback
        return d


def gen_oracle_rs(oracle):
    d = os.path.join(WORK, 'gen')
    os.makedirs(d, exist_ok=True)
    p = os.path.join(d, 'oracle_tables.rs')
    txt = ''
    for k, n in (('d', 'ORACLE_D'), ('w', 'ORACLE_W'), ('s', 'ORACLE_S')):
        txt += 'pub const %s: &[(u32, u32)] = &[%s];\n' % (n, ', '.join('(%d, %d)' % (a, b) for a, b in oracle[k]))
    old = None
    try:
        old = open(p).read()
    except OSError:
        pass
    if old != txt:
        with open(p, 'w') as f:
            f.write(txt)
    return p


def prepare_lib_crate():
    r = prep.repo()
    d = prep.crate_copy('kani-lib')
    tmpl = open(os.path.join(d, 'Cargo.toml.in')).read().replace('@GREX_REPO@', r)
    cur = None
    try:
        cur = open(os.path.join(d, 'Cargo.toml')).read()
    except OSError:
        pass
    if cur != tmpl:
        with open(os.path.join(d, 'Cargo.toml'), 'w') as f:
            f.write(tmpl)
    shutil.copyfile(os.path.join(r, 'Cargo.lock'), os.path.join(d, 'Cargo.lock'))
    return d


def parse(out, res):
    m = re.search(r'VERIFICATION:- (SUCCESSFUL|FAILED)', out)
    if 'Status: ERROR' in out or 'CBMC failed' in out or 'out of memory' in out.lower():
        res.status, res.reason = 'inconclusive', 'CBMC error / out of memory'
    elif m:
        res.status = 'successful' if m.group(1) == 'SUCCESSFUL' else 'failed'
    else:
        res.status, res.reason = 'inconclusive', 'no verdict line in the Kani output'
    res.failed_checks = [x.strip() for x in re.findall(r'^Failed Checks: (.*)$', out, re.M)]
    m = re.search(r'\*\* (\d+) of (\d+) cover properties satisfied', out)
    if m:
        res.covers = (int(m.group(1)), int(m.group(2)))
    m = re.search(r'Verification Time: ([\d.]+)s', out)
    if m:
        res.verif_time = round(float(m.group(1)), 2)
    m = re.search(r'(\d+) variables, (\d+) clauses', out)
    if m:
        res.stats = {'sat_variables': int(m.group(1)), 'sat_clauses': int(m.group(2))}
    if res.status == 'failed' and any('unwinding assertion' in c for c in res.failed_checks):
        # a bound that is too small is not a property violation
        if all('unwinding assertion' in c for c in res.failed_checks):
            res.status, res.reason = 'inconclusive', 'unwinding assertion failed: the loop bound of the harness is too small for this tree'


def run_harness(harness, where, target, timeout_s, mem_kb=16_000_000, extra_args=(), extra_env=None, tag=None):
    """where: 'lib' (external crate /verif/kani-lib) or 'cli' (bin crate of the tree under check)"""
    res = KaniResult(harness)
    logdir = os.path.join(WORK, 'kani-logs')
    os.makedirs(logdir, exist_ok=True)
    res.log = os.path.join(logdir, '%s%s.log' % (harness, '.' + tag if tag else ''))
    env = {}
    if extra_env:
        env.update(extra_env)
    if where == 'lib':
        cwd = prep.crate_copy('kani-lib')
        cmd = ['cargo', 'kani', '--target-dir', target, '--harness', harness]
    else:
        cwd = prep.repo()
        env['GREX_VERIF_CLI_HARNESS'] = os.path.join(VERIF, 'kani-cli', 'harness.rs')
        cmd = ['cargo', 'kani', '--target-dir', target, '--bin', 'grex', '-Z', 'stubbing', '--harness', harness]
    cmd += list(extra_args)
    sh = 'ulimit -v %d; exec timeout %d %s' % (mem_kb, timeout_s, ' '.join("'%s'" % c for c in cmd))
    t0 = time.time()
    try:
        p = subprocess.run(['bash', '-c', sh], cwd=cwd, env=prep.env(env), capture_output=True, text=True,
                           timeout=timeout_s + 60)
        out = p.stdout + p.stderr
        rc = p.returncode
    except subprocess.TimeoutExpired as e:
        out = (e.stdout or '') + (e.stderr or '') if isinstance(e.stdout, str) else ''
        rc = 124
    res.wall = time.time() - t0
    with open(res.log, 'w') as f:
        f.write('$ cd %s && %s\n' % (cwd, sh))
        f.write(out)
    if rc == 124:
        res.status, res.reason = 'inconclusive', 'timeout after %d s' % timeout_s
        return res, out
    if 'error: could not compile' in out or 'error[E' in out:
        res.status, res.reason = 'inconclusive', 'harness does not compile against this tree: ' + \
            ' | '.join(re.findall(r'^error[^\n]*', out, re.M)[:3])
        return res, out
    parse(out, res)
    return res, out


def playback_values(harness, where, target, timeout_s):
    """re-run a failed harness with concrete playback and return the printed byte vectors"""
    res, out = run_harness(harness, where, target, timeout_s, tag='playback',
                           extra_args=['-Z', 'concrete-playback', '--concrete-playback=print'])
    vals = []
    for m in re.finditer(r'^\s*//\s*(-?[\w.\']+)\s*\n\s*vec!\[([\d,\s]*)\]', out, re.M):
        vals.append({'value': m.group(1), 'bytes': [int(x) for x in m.group(2).replace(' ', '').split(',') if x]})
    return vals
