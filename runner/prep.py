"""Build steps shared by all checks.  Everything is rebuilt from $GREX_REPO's current working tree on
every run (cargo's own incremental logic decides what is recompiled; the MIR dump is forced)."""
import fcntl
import glob
import json
import os
import shutil
import subprocess
import time

VERIF = os.path.dirname(os.path.dirname(os.path.abspath(__file__)))


def repo():
    return os.path.abspath(os.environ.get('GREX_REPO', '/repo'))


def is_default_repo():
    return repo() == '/repo'


def _work():
    # one build/cache area per tree under check, so that concurrent runs on different trees never share a binary
    if is_default_repo():
        return os.path.join(VERIF, '.work', 'main')
    import hashlib
    return os.path.join(VERIF, '.work', 'alt-' + hashlib.sha1(repo().encode()).hexdigest()[:10])


WORK = _work()
OUT = VERIF if is_default_repo() else WORK     # where evidence/ and replays/ are written


def env(extra=None):
    e = dict(os.environ)
    e['CARGO_NET_OFFLINE'] = 'true'
    e.pop('RUSTFLAGS', None)
    if extra:
        e.update(extra)
    return e


class Lock:
    """serialises the build steps between concurrently running checks"""

    def __init__(self, name='build'):
        os.makedirs(WORK, exist_ok=True)
        self.path = os.path.join(WORK, name + '.lock')

    def __enter__(self):
        self.f = open(self.path, 'w')
        fcntl.flock(self.f, fcntl.LOCK_EX)
        return self

    def __exit__(self, *a):
        fcntl.flock(self.f, fcntl.LOCK_UN)
        self.f.close()


class PrepError(Exception):
    pass


def run(cmd, cwd=None, extra_env=None, timeout=1800, log=None):
    t0 = time.time()
    p = subprocess.run(cmd, cwd=cwd, env=env(extra_env), capture_output=True, text=True, timeout=timeout)
    if log:
        with open(log, 'w') as f:
            f.write('$ %s\n' % ' '.join(cmd))
            f.write(p.stdout)
            f.write(p.stderr)
    return p, time.time() - t0


def mir_dump(which='lib'):
    """-> (MIR text, info).  `cargo +nightly rustc -- -Zunpretty=mir` on the tree under check; /repo is not written to."""
    r = repo()
    tgt = os.path.join(WORK, 'mirtgt')
    out_dir = os.path.join(WORK, 'mir')
    os.makedirs(out_dir, exist_ok=True)
    with Lock('mir'):
        for d in glob.glob(os.path.join(tgt, 'debug', '.fingerprint', 'grex-*')):
            shutil.rmtree(d, ignore_errors=True)
        sel = ['--lib'] if which == 'lib' else ['--bin', 'grex']
        cmd = ['cargo', '+nightly', 'rustc', '--offline', '--manifest-path', os.path.join(r, 'Cargo.toml'),
               '--target-dir', tgt] + sel + ['--', '-Zunpretty=mir', '-C', 'debug-assertions=off', '-C', 'overflow-checks=on']
        p, dt = run(cmd, cwd=r, log=os.path.join(out_dir, which + '.log'))
        if p.returncode != 0 or 'fn ' not in p.stdout:
            raise PrepError('MIR dump failed (see %s): %s' % (os.path.join(out_dir, which + '.log'), p.stderr[-400:]))
        with open(os.path.join(out_dir, which + '.mir'), 'w') as f:
            f.write(p.stdout)
    v, _ = run(['rustc', '+nightly', '--version'])
    return p.stdout, {'mir_toolchain': v.stdout.strip(), 'mir_lines': p.stdout.count('\n'), 'mir_dump_s': round(dt, 1)}


def native_build(profile='release'):
    """build /verif/native against the tree under check with --cfg grex_verif; -> path of the binary"""
    r = repo()
    nd = crate_copy('native')
    with Lock('native'):
        tmpl = open(os.path.join(nd, 'Cargo.toml.in')).read().replace('@GREX_REPO@', r)
        cur = None
        try:
            cur = open(os.path.join(nd, 'Cargo.toml')).read()
        except OSError:
            pass
        if cur != tmpl:
            with open(os.path.join(nd, 'Cargo.toml'), 'w') as f:
                f.write(tmpl)
        shutil.copyfile(os.path.join(r, 'Cargo.lock'), os.path.join(nd, 'Cargo.lock'))
        tgt = os.path.join(WORK, 'native')
        cmd = ['cargo', 'build', '--offline', '--target-dir', tgt] + (['--release'] if profile == 'release' else [])
        p, dt = run(cmd, cwd=nd, extra_env={'RUSTFLAGS': '--cfg grex_verif'}, log=os.path.join(WORK, 'native-build-%s.log' % profile))
        if p.returncode != 0:
            raise PrepError('native harness build failed (hooks do not compile against this tree?): ' + p.stderr[-600:])
    return os.path.join(tgt, profile if profile == 'release' else 'debug', 'grexverif-native'), round(dt, 1)


def crate_copy(name):
    """the harness crates are generated per tree: /verif/<name> for /repo, a copy under WORK for any other tree"""
    src = os.path.join(VERIF, name)
    if is_default_repo():
        return src
    dst = os.path.join(WORK, 'crates', name)
    os.makedirs(dst, exist_ok=True)
    for root, dirs, files in os.walk(src):
        rel = os.path.relpath(root, src)
        if rel.startswith('target'):
            continue
        os.makedirs(os.path.join(dst, rel), exist_ok=True)
        for fn in files:
            if fn in ('Cargo.toml', 'Cargo.lock'):
                continue
            sp, dp = os.path.join(root, fn), os.path.join(dst, rel, fn)
            try:
                same = open(sp, 'rb').read() == open(dp, 'rb').read()
            except OSError:
                same = False
            if not same:
                shutil.copyfile(sp, dp)
    return dst


def oracle(native_bin):
    out = os.path.join(WORK, 'oracle.%d.json' % os.getpid())
    p, dt = run([native_bin, 'oracle', out])
    if p.returncode != 0:
        raise PrepError('oracle generation failed: ' + p.stderr[-400:])
    o = json.load(open(out))
    os.unlink(out)
    lock = open(os.path.join(repo(), 'Cargo.lock')).read()
    import re
    vers = {}
    for name in ('regex', 'regex-syntax', 'unicode-segmentation', 'unic-ucd-category', 'lazy_static', 'itertools'):
        m = re.search(r'name = "%s"\nversion = "([^"]+)"' % re.escape(name), lock)
        vers[name] = m.group(1) if m else '?'
    o['versions'] = vers
    o['oracle_gen_s'] = round(dt, 1)
    return o


def native_eval(native_bin, ops, timeout=600):
    p = subprocess.run([native_bin, 'eval'], input=json.dumps(ops), capture_output=True, text=True, timeout=timeout,
                       env=env())
    if p.returncode != 0:
        raise PrepError('native eval failed: ' + p.stderr[-400:])
    return json.loads(p.stdout)


def cli_build():
    """the real grex binary of the tree under check (for C12 replays)"""
    r = repo()
    tgt = os.path.join(WORK, 'cli')
    with Lock('cli'):
        p, dt = run(['cargo', 'build', '--offline', '--release', '--manifest-path', os.path.join(r, 'Cargo.toml'),
                     '--target-dir', tgt, '--bin', 'grex'], cwd=r, log=os.path.join(WORK, 'cli-build.log'))
        if p.returncode != 0:
            raise PrepError('grex binary build failed: ' + p.stderr[-400:])
    return os.path.join(tgt, 'release', 'grex')


def tree_id():
    r = repo()
    try:
        h = subprocess.run(['git', '-C', r, 'rev-parse', 'HEAD'], capture_output=True, text=True).stdout.strip()
        d = subprocess.run(['git', '-C', r, 'status', '--porcelain'], capture_output=True, text=True).stdout.strip()
        return {'repo': r, 'head': h, 'dirty_files': [l[3:] for l in d.split('\n') if l][:20]}
    except OSError:
        return {'repo': r}
