"""bin/check <property> [--tier quick|thorough] [--replay file]

Decides one property of /verif/properties.jsonl for the tree in $GREX_REPO (default /repo) by
solver-based checking of the real code: mirsym (MIR -> SMT) and Kani.  See DESIGN.md.
Exit 0: every obligation explored held (KNOWN-FINDING lines for listed findings); exit 1: a VIOLATION
line per reproduced, unlisted counterexample; exit 2: nothing could be decided / a counterexample
did not reproduce natively (machinery problem, never reported as a violation).
"""
import concurrent.futures as cf
import hashlib
import json
import os
import random
import re
import subprocess
import sys
import time

from . import prep, kani
from .prep import VERIF, WORK, OUT

sys.path.insert(0, VERIF)
from mirsym import queries as Q          # noqa: E402
from mirsym.sym import Inconclusive       # noqa: E402


# --------------------------------------------------------------------------- report
class Report:
    def __init__(self, prop, tier, seed):
        self.prop, self.tier, self.seed = prop, tier, seed
        self.t0 = time.time()
        self.obligations = []     # dicts
        self.violations = []      # (key, what, replay_path)
        self.known = []           # (key, what)
        self.nonrepro = []        # strings
        self.inconclusive = []    # strings
        self.validation = {'cases': 0, 'mismatches': []}
        self.replayed = 0
        self.info = {}
        self.outside = []
        self.statement = ''
        self.assumptions = []
        self.trusted = []

    def add(self, d):
        self.obligations.append(d)
        if d.get('result') == 'inconclusive':
            self.inconclusive.append('%s: %s' % (d.get('id'), d.get('inconclusive_reason') or d.get('note') or ''))


def u(cp):
    return 'U+%04X' % cp


def load_known():
    known, fixed = {}, []
    p = os.path.join(VERIF, 'known_findings.txt')
    if os.path.exists(p):
        for line in open(p, encoding='utf-8'):
            line = line.strip()
            m = re.match(r'^known: property=(\S+) obligation=(\S+) input=(\S+) :: (.*)$', line)
            if m:
                known[(m.group(1), m.group(2), m.group(3))] = m.group(4)
            elif line.startswith('fixed:'):
                fixed.append(line)
    return known, fixed


def save_replay(rep, prop, record):
    os.makedirs(os.path.join(OUT, 'replays'), exist_ok=True)
    blob = json.dumps(record, sort_keys=True)
    path = os.path.join(OUT, 'replays', '%s-%s.json' % (prop, hashlib.sha1(blob.encode()).hexdigest()[:12]))
    with open(path, 'w') as f:
        json.dump(record, f, indent=1, sort_keys=True)
    return path


def classify(rep, known, obligation, key, what, record, reproduced):
    """one solver counterexample after native replay"""
    rep.replayed += 1
    seen = rep.info.setdefault('_seen_keys', set())
    if reproduced and (obligation.split('[')[0], key) in seen:
        rep.info['duplicate_models_of_reported_keys'] = rep.info.get('duplicate_models_of_reported_keys', 0) + 1
        return
    if reproduced:
        seen.add((obligation.split('[')[0], key))
    if not reproduced:
        rep.nonrepro.append('%s %s: solver model did not reproduce on the real build (%s)' % (obligation, key, what))
        return
    k = (rep.prop, obligation.split('[')[0], key)
    if k in known:
        rep.known.append((key, known[k]))
        return
    record = dict(record)
    record.update({'property': rep.prop, 'obligation': obligation, 'key': key, 'what': what})
    rep.violations.append((key, what, save_replay(rep, rep.prop, record)))


# --------------------------------------------------------------------------- shared context
class Env:
    def __init__(self, rep, need_mir=True, need_native=True):
        self.rep = rep
        t = time.time()
        self.native = None
        self.oracle = None
        self.ctx = None
        info = rep.info
        info['tree'] = prep.tree_id()
        if need_native:
            self.native, dt = prep.native_build('release')
            info['native_build_s'] = dt
            self.oracle = prep.oracle(self.native)
            info['oracle'] = {'versions': self.oracle['versions'], 'std_unicode_version': self.oracle['unicode_version'],
                              'ranges': {k: len(self.oracle[k]) for k in ('d', 'w', 's')},
                              'orbit_entries': len(self.oracle['orbit']), 'lower1_entries': len(self.oracle['lower1'])}
        if need_mir:
            mir_text, mi = prep.mir_dump('lib')
            info.update(mi)
            second = ('z3-4.8.12', 'cvc5-1.0')
            self.ctx = Q.Ctx(mir_text, prep.repo(), self.oracle, os.path.join(WORK, 'smt'), second=second, tier=rep.tier)
            self.ctx.second_timeout = 20 if rep.tier == 'quick' else 600
            self.ctx.max_steps = 2_000_000 if rep.tier == 'quick' else 16_000_000
            for (pr, obl, _k) in load_known()[0]:
                if pr == rep.prop:
                    self.ctx.known_counts[obl] = self.ctx.known_counts.get(obl, 0) + 1
        info['prep_s'] = round(time.time() - t, 1)

    def eval(self, ops):
        return prep.native_eval(self.native, ops)

    @staticmethod
    def _key(fname, args, kw):
        return (fname, repr(args), repr(sorted(kw.items())))

    def prefetch(self, jobs):
        """decide the listed obligations in parallel worker processes now; run() then returns them from the cache"""
        if not hasattr(self, 'cache'):
            self.cache = {}
        jobs = [(f, tuple(a), dict(k)) for f, a, k in jobs if self._key(f, tuple(a), dict(k)) not in self.cache]
        if len(jobs) < 2 or os.environ.get('VERIF_WORKERS', '') == '1':
            return
        for j, r in zip(jobs, par_map(self, jobs, workers=int(os.environ.get('VERIF_WORKERS', '8' if self.rep.tier == 'quick' else '12')))):
            self.cache[self._key(*j)] = r

    def run(self, fname, *args, **kw):
        hit = getattr(self, 'cache', {}).pop(self._key(fname, tuple(args), kw), None)
        if hit is not None:
            return hit
        t0 = time.time()
        r = getattr(Q, fname)(self.ctx, *args, **kw)
        if os.environ.get('VERIF_TRACE'):
            sys.stderr.write('[trace] %s%r %s: %s in %.1fs\n' % (fname, args, kw or '', r.result, time.time() - t0))
            sys.stderr.flush()
        return r


class ObResult:
    """what a worker process returns for one obligation (z3 objects do not cross process boundaries)"""

    def __init__(self, d, qid, result, models, extra, classes_seen, note=''):
        self._d, self.qid, self.result, self.extra, self.classes_seen = d, qid, result, extra, classes_seen
        self.inconclusive = d.get('inconclusive_reason')

        class _V:
            pass
        self.verdict = _V()
        self.verdict.models = models
        self.verdict.note = note

    def as_dict(self):
        return self._d


def _par_worker(job):
    fname, args, kw = job
    try:
        o = getattr(Q, fname)(_PAR_CTX[0], *args, **kw)
        d = o.as_dict()
        models = list(o.verdict.models) if o.verdict is not None else []
        return (d, o.qid, o.result, models, {k: v for k, v in o.extra.items()}, dict(o.classes_seen), (o.verdict.note if o.verdict is not None else ''))
    except Exception as e:     # a crash of the encoder is an inconclusive obligation, never a pass
        import traceback
        return ({'id': fname, 'title': '', 'result': 'inconclusive', 'inconclusive_reason': 'worker crashed: %s' % traceback.format_exc()[-400:]},
                fname, 'inconclusive', [], {}, {}, '')


_PAR_CTX = [None]


def par_map(env, jobs, workers=None):
    """decide independent obligations in parallel worker processes (fork: the MIR, the oracle and the code are shared copy-on-write);
    jobs: [(name of a Q function, args, kwargs)] -> [ObResult] in the same order"""
    import multiprocessing as mp
    workers = workers or int(os.environ.get('VERIF_WORKERS', '12'))
    if len(jobs) <= 1 or workers <= 1:
        return [ObResult(*_par_worker_local(env, j)) for j in jobs]
    _PAR_CTX[0] = env.ctx
    with mp.get_context('fork').Pool(min(workers, len(jobs))) as pool:
        res = pool.map(_par_worker, jobs, chunksize=1)
    return [ObResult(*r) for r in res]


def _par_worker_local(env, job):
    _PAR_CTX[0] = env.ctx
    return _par_worker(job)


def ob_add(rep, ob):
    d = ob.as_dict()
    rep.add(d)
    return ob


def decide_unit_obligation(rep, qfun, ctx, *args, **kw):
    """obligations over units of >= 2 code points: first for ARBITRARY code points (strongest; unsat on a correct tree);
    if that is sat, ask again for units the public API can produce, so that a reported counterexample is reachable"""
    t0 = time.time()
    o = qfun(ctx, *args, **kw)
    if os.environ.get('VERIF_TRACE'):
        sys.stderr.write('[trace] %s%r %s: %s in %.1fs\n' % (qfun.__name__, args, kw or '', o.result, time.time() - t0))
        sys.stderr.flush()
    if o.result == 'inconclusive' and 'grapheme clusters of arbitrary code points' in str(o.inconclusive):
        # the code under check asks for grapheme clusters of the unit: decidable only for units that ARE one cluster
        d = o.as_dict()
        d['result'] = 'superseded'
        d['note'] = 'not decidable for arbitrary code points (the code segments the unit); decided for units that are one grapheme cluster (next entry)'
        rep.obligations.append(d)
        return ob_add(rep, qfun(ctx, *args, realisable=True, **kw))
    if o.result == 'sat':
        d = o.as_dict()
        d['result'] = 'superseded'
        d['note'] = 'sat for arbitrary code points; re-decided for units that are one grapheme cluster (next entry)'
        rep.obligations.append(d)
        o2 = qfun(ctx, *args, realisable=True, **kw)
        if o2.qid.endswith('[realisable]'):
            if o2.result == 'unsat':
                o2.extra['note_unreachable'] = 'the code deviates only on units the grapheme splitter never produces; nothing is reported'
            o = o2
    return ob_add(rep, o)


# --------------------------------------------------------------------------- translator validation
BOUNDARY = [0x0, 0x9, 0xA, 0x20, 0x24, 0x28, 0x30, 0x39, 0x3A, 0x41, 0x5C, 0x5F, 0x61, 0x7A, 0x7F, 0x80, 0x85, 0xA0, 0xB5,
            0xDF, 0xE4, 0x130, 0x131, 0x17F, 0x1C4, 0x1C5, 0x345, 0x3A3, 0x3C2, 0x660, 0x669, 0x7FF, 0x800, 0xE33, 0x1680,
            0x1C89, 0x1E9E, 0x2000, 0x200A, 0x200B, 0x2028, 0x212A, 0x2665, 0x3000, 0xA7DC, 0xD7FF, 0xE000, 0xFB05, 0xFF10,
            0xFF9E, 0xFFFD, 0xFFFF, 0x10000, 0x10400, 0x10D50, 0x111C9, 0x16EA0, 0x1D7CE, 0x1F3FB, 0x1F4A9, 0xE0100, 0xE01EF,
            0x10FFFE, 0x10FFFF]


def sample_cps(rep, k=24):
    rnd = random.Random(rep.seed)
    out = list(BOUNDARY)
    while len(out) < len(BOUNDARY) + k:
        x = rnd.randrange(0x110000)
        if not 0xD800 <= x <= 0xDFFF:
            out.append(x)
    return out


def validate(env, rep, cases):
    """cases: [(kind, inputs, native op)] -- run the encoding and the real function on the same concrete inputs"""
    native = env.eval([c[2] for c in cases])
    for (kind, inp, _op), nat in zip(cases, native):
        rep.validation['cases'] += 1
        try:
            enc = Q.concrete_eval(env.ctx, kind, inp)
        except Inconclusive as e:
            rep.validation['mismatches'].append({'kind': kind, 'input': inp, 'encoder': 'inconclusive: %s' % e})
            continue
        if 'ok' not in nat or nat['ok'] != enc:
            rep.validation['mismatches'].append({'kind': kind, 'input': inp, 'encoding': enc, 'real_code': nat})
    if rep.validation['mismatches']:
        rep.inconclusive.append('translator validation: %d mismatch(es) between the MIR encoding and the real code, e.g. %s'
                                % (len(rep.validation['mismatches']), json.dumps(rep.validation['mismatches'][0])[:300]))


# --------------------------------------------------------------------------- Kani helpers
def run_kani_set(rep, harnesses, tier):
    """harnesses: [(name, where, timeout_s, mem_kb)] run concurrently, one target dir each"""
    results = {}
    with cf.ThreadPoolExecutor(max_workers=min(6, len(harnesses))) as pool:
        futs = {}
        for name, where, to, mem in harnesses:
            tgt = os.path.join(WORK, 'kani-tgt', ('cli' if where == 'cli' else 'lib') + '-' + name.split('_')[0])
            futs[pool.submit(kani.run_harness, name, where, tgt, to, mem)] = (name, where, tgt, to)
        for f in cf.as_completed(futs):
            name, where, tgt, to = futs[f]
            res, out = f.result()
            results[name] = (res, where, tgt, to)
    return results


def kani_obligation(rep, res, expect_covers=True, functions=(), domain='', bound='', stubs=()):
    d = res.as_dict()
    d.update({'functions_encoded': list(functions), 'input_domain': domain, 'bound': bound, 'stubs_and_models': list(stubs)})
    if res.status == 'successful' and expect_covers and res.covers[1] and res.covers[0] != res.covers[1]:
        d['result'] = 'inconclusive'
        d['inconclusive_reason'] = 'vacuity guard: only %d of %d cover properties satisfied' % res.covers
    d['result'] = {'successful': 'unsat', 'failed': 'sat'}.get(d['result'], d['result'])
    rep.add(d)
    return d


# =========================================================================== C11
def py_escape_ref(c, surr):
    if c < 0x80:
        return [c]
    if surr and c >= 0x10000:
        v = c - 0x10000
        hi, lo = 0xD800 + (v >> 10), 0xDC00 + (v & 0x3FF)
        return [ord(x) for x in '\\u{%x}\\u{%x}' % (hi, lo)]
    return [ord(x) for x in '\\u{%x}' % c]


def decode_escapes(text):
    """inverse of grex's escaping on the text of ONE unit: \\u{h} (surrogate pairs re-paired), \\n \\r \\t, \\x -> x; None if malformed"""
    out, i, s = [], 0, ''.join(map(chr, text))
    while i < len(s):
        if s.startswith('\\u{', i):
            j = s.find('}', i)
            if j < 0:
                return None
            try:
                v = int(s[i + 3:j], 16)
            except ValueError:
                return None
            if 0xD800 <= v <= 0xDBFF and s.startswith('\\u{', j + 1):
                k = s.find('}', j + 1)
                try:
                    lo = int(s[j + 4:k], 16)
                except ValueError:
                    return None
                if 0xDC00 <= lo <= 0xDFFF:
                    out.append(0x10000 + ((v - 0xD800) << 10) + (lo - 0xDC00))
                    i = k + 1
                    continue
            out.append(v)
            i = j + 1
        elif s[i] == '\\' and i + 1 < len(s):
            out.append({'n': 10, 'r': 13, 't': 9}.get(s[i + 1], ord(s[i + 1])))
            i += 2
        else:
            out.append(ord(s[i]))
            i += 1
    return out


def escaped_unit_bad(text, seq):
    """C11 at unit level: the escaped text must be pure ASCII and decode back to the unit"""
    return any(x > 127 for x in text) or decode_escapes(text) != list(seq)


def check_c11(rep):
    rep.statement = ('for every scalar value c and both values of the surrogate flag, Grapheme::escape returns: c itself if '
                     'c < U+0080; "\\u{hex}" otherwise; the UTF-16 high and low surrogate escapes for EVERY c in '
                     'U+10000..=U+10FFFF when surrogate pairs are requested; all non-ASCII cases are pure ASCII text whose '
                     'decoding is c.  Also decided for strings of n code points through escape_non_ascii_chars\' closure '
                     '(output = concatenation of the per-code-point escapes).')
    rep.statement += ('  END TO END (Q02t with escaping, build() from MIR): for 1-2 (3) test cases of 1-2 characters from U+00C0..U+00FF, and for 2 test cases of one astral '
                      'character from U+1F600..U+1F64F with and without surrogate pairs, the printed pattern is pure ASCII, and decoding its \\u{..} escapes (hexadecimal '
                      'digits that are symbolic terms of the test-case characters; surrogate escapes re-paired) gives a pattern whose language is exactly the set of test cases.')
    rep.outside = ['grouping decision for quantified escaped units (C05 Q05g)', 'end to end: non-ASCII characters outside the two stated ranges',
                   'the compiled core::fmt code itself (modelled from the template bytes)']
    env = Env(rep)
    known, _ = load_known()
    E_ = {'escape': True}
    ES_ = {'escape': True, 'surrogates': True}
    tspecs = [((1,), 'latin1', E_), ((1, 1), 'latin1', E_), ((2, 1), 'latin1', E_), ((1, 1), 'emoticons', E_), ((1, 1), 'emoticons', ES_), ((1, 1), 'latin1', {})]
    if rep.tier == 'thorough':
        tspecs += [((2, 2), 'latin1', E_), ((1, 1, 1), 'latin1', E_), ((2, 1), 'emoticons', ES_), ((2, 1), 'latin1', dict(E_, verbose=True)), ((2, 1), 'latin1', dict(E_, capture=True)),
                   ((2, 1), 'latin1', ES_), ((2,), 'latin1', dict(E_, repetitions=True))]
    run_text_obligations(rep, env, known, tspecs)
    ob = ob_add(rep, env.run('q11'))
    nmax = 2 if rep.tier == 'quick' else 3
    obs = [ob]
    single = ob.verdict.models if (ob.verdict and ob.result == 'sat') else []
    for n in range(2, nmax + 1):
        if len(single) >= env.ctx.cap('Q11'):
            break
        obs.append(decide_unit_obligation(rep, Q.q11s, env.ctx, n, exclude=single))
    # the single-character test on the escaped form (decides whether a unit may enter a character class unescaped)
    kobs = [decide_unit_obligation(rep, Q.q11k, env.ctx, n) for n in ((1, 2) if rep.tier == 'quick' else (1, 2, 3))]
    for o in kobs:
        if o.result != 'sat':
            continue
        for m in o.verdict.models:
            seq = [m[k] for k in sorted((k for k in m if re.fullmatch(r'c\d+', k)), key=lambda s_: int(s_[1:]))]
            esc = m['esc']
            want = sum(len(py_escape_ref(x, False)) for x in seq) if esc else len(seq)
            got = env.eval([{'op': 'char_count', 'units': [seq], 'escaped': esc},
                            {'op': 'build', 'cases': [[seq[0]], [0x78]], 'settings': {'escape': True}}])
            key = 'unit=%s,escaped=%s' % ('+'.join(u(x) for x in seq), str(esc).lower())
            pat = ''.join(map(chr, got[1].get('ok') or []))
            what = 'char_count(%s) = %s, but the %s text has %d characters; build([c, "x"]) with escaping gives %s%s' % (
                key, got[0].get('ok'), 'escaped' if esc else 'plain', want, json.dumps(pat),
                ' (not pure ASCII)' if any(ord(ch) > 127 for ch in pat) else '')
            classify(rep, known, o.qid, key, what, {'inputs': {'units': [seq], 'escaped': esc}, 'expected': want, 'observed': got},
                     got[0].get('ok') != want)
    # translator validation
    cases = []
    for c in sample_cps(rep):
        for s in (False, True):
            cases.append(('escape_char', {'c': c, 'surrogates': s}, {'op': 'escape_char', 'c': c, 'surrogates': s}))
    validate(env, rep, cases)
    # replay of solver models
    for o in obs:
        if o.result != 'sat':
            continue
        for m in o.verdict.models:
            if o.qid == 'Q11':
                c, s = m['c'], m['surr']
                seq = [c]
            else:
                seq = [m['c%d' % i] for i in range(len([k for k in m if re.fullmatch(r'c\d+', k)]))]
                s = m['surr']
            want = sum((py_escape_ref(x, s) for x in seq), [])
            got = env.eval([{'op': 'escape_regexp_symbols', 's': seq, 'escape': True, 'surrogates': s},
                            {'op': 'split', 's': seq},
                            {'op': 'build', 'cases': [seq], 'settings': {'escape': True, 'surrogates': s}}])
            kernel = got[0].get('ok') or []
            bad = escaped_unit_bad(kernel, seq) or (len(seq) == 1 and seq[0] >= 0x80 and kernel != want)
            if len(seq) > 1 and got[1].get('ok') != [seq]:
                bad = False         # not a unit the splitter produces: unreachable through the public API
            key = 'c=%s,surrogates=%s' % ('+'.join(u(x) for x in seq), str(s).lower())
            what = 'escape gives "%s", expected "%s"; build() gives %s' % (
                ''.join(map(chr, kernel)), ''.join(map(chr, want)), json.dumps(''.join(map(chr, got[-1].get('ok') or []))))
            classify(rep, known, o.qid, key, what, {'inputs': {'cps': seq, 'surrogates': s}, 'expected': want,
                                                     'observed_kernel': kernel, 'observed_build': got[-1]}, bad)


def replay_c11(env, rec):
    if 'pipeline' in rec['inputs']:
        return replay_c02(env, rec)
    if 'units' in rec['inputs']:
        got = env.eval([{'op': 'char_count', 'units': rec['inputs']['units'], 'escaped': rec['inputs']['escaped']}])
        return got[0].get('ok') != rec['expected'], 'char_count = %s, expected %s' % (got[0].get('ok'), rec['expected'])
    seq, s = rec['inputs']['cps'], rec['inputs']['surrogates']
    got = env.eval([{'op': 'escape_regexp_symbols', 's': seq, 'escape': True, 'surrogates': s}])
    kernel = got[0].get('ok') or []
    want = sum((py_escape_ref(x, s) for x in seq), [])
    return escaped_unit_bad(kernel, seq) or (len(seq) == 1 and seq[0] >= 0x80 and kernel != want), 'escape gives "%s", expected "%s"' % (''.join(map(chr, kernel)), ''.join(map(chr, want)))


# =========================================================================== C09
CLASS_PAT = {'d': '^\\d$', 'w': '^\\w$', 's': '^\\s$'}
FLAG_OF = {'d': 'digits', 'w': 'words', 's': 'spaces'}


def check_c09(rep):
    rep.statement = ('for every scalar value c, is_digit(c) / is_word(c) / is_space(c) (including the lazy_static table '
                     'initialiser) equal membership in the regex crate\'s \\d / \\w / \\s; together with the C03 ladder obligation '
                     '(Q03a, re-decided here) the token substituted under each single conversion flag is the class iff the regex '
                     'class contains c and the negated class iff it does not.')
    rep.outside = []
    env = Env(rep)
    known, _ = load_known()
    env.prefetch([('q09', (w,), {}) for w in 'dws'] + [('q03a', (1,), {})])
    obs = {w: ob_add(rep, env.run('q09', w)) for w in 'dws'}
    lad = ob_add(rep, env.run('q03a', 1))
    cases = []
    for c in sample_cps(rep):
        for w in 'dws':
            cases.append((Q.PRED[w], {'c': c}, {'op': Q.PRED[w], 'c': c}))
    validate(env, rep, cases)
    for w, o in obs.items():
        if o.result != 'sat':
            continue
        for m in o.verdict.models:
            c = m['c']
            got = env.eval([{'op': Q.PRED[w], 'c': c}, {'op': 'regex_is_match', 'pattern': CLASS_PAT[w], 'text': [c]},
                            {'op': 'build', 'cases': [[c]], 'settings': {FLAG_OF[w]: True}}])
            mine, theirs = got[0].get('ok'), got[1].get('ok')
            key = 'c=%s,class=%s' % (u(c), w)
            what = '%s(%s) = %s but regex \\%s contains it: %s; build() with the flag gives %s' % (
                Q.PRED[w], u(c), mine, w, theirs, json.dumps(''.join(map(chr, got[2].get('ok') or []))))
            classify(rep, known, o.qid, key, what, {'inputs': {'c': c, 'class': w}, 'observed': got}, mine != theirs)
    replay_ladder_models(env, rep, known, lad)
    # Kani: the compiled tables and predicates against the same oracle
    orc = kani.gen_oracle_rs(env.oracle)
    kani.prepare_lib_crate()
    hs = [('h09t_decimal_table', 'lib', 300, 8_000_000), ('h09t_space_table', 'lib', 300, 8_000_000),
          ('h09s_is_space', 'lib', 300, 8_000_000), ('h09t_word_table', 'lib', 900, 16_000_000)]
    if rep.tier == 'thorough':
        hs.append(('h09d_is_digit', 'lib', 1800, 20_000_000))
    os.environ['GREX_VERIF_ORACLE_RS'] = orc
    res = run_kani_set(rep, hs, rep.tier)
    for name, (r, where, tgt, to) in sorted(res.items()):
        d = kani_obligation(rep, r, functions=['unicode_tables::*' if 't_' in name else 'cluster::' + name[5:]],
                            domain='c: every scalar value (kani::any::<char>())',
                            bound='unwind = table length + 2 with unwinding assertions on (no input bound)')
        if r.status == 'failed':
            vals = kani.playback_values(name, where, tgt, to)
            d['concrete_playback'] = vals
            cs = [int.from_bytes(bytes(v['bytes']), 'little') for v in vals if len(v['bytes']) == 4]
            for c in cs[:1]:
                w = 'd' if 'decimal' in name or 'digit' in name else ('w' if 'word' in name else 's')
                got = env.eval([{'op': Q.PRED[w], 'c': c}, {'op': 'regex_is_match', 'pattern': CLASS_PAT[w], 'text': [c]}])
                key = 'c=%s,class=%s' % (u(c), w)
                classify(rep, known, name, key, 'Kani: table/predicate for \\%s disagrees with regex-syntax at %s' % (w, u(c)),
                         {'inputs': {'c': c, 'class': w}, 'observed': got}, got[0].get('ok') != got[1].get('ok'))
            if not cs:
                rep.nonrepro.append('%s failed but no concrete playback values could be parsed' % name)
    rep.trusted += ['Kani 0.68.0 / CBMC 6.11.0 / CaDiCaL on the compiled code (nightly-2026-08-21 std)']


def replay_c09(env, rec):
    c, w = rec['inputs']['c'], rec['inputs']['class']
    got = env.eval([{'op': Q.PRED[w], 'c': c}, {'op': 'regex_is_match', 'pattern': CLASS_PAT[w], 'text': [c]}])
    return got[0].get('ok') != got[1].get('ok'), '%s(%s)=%s, regex \\%s: %s' % (Q.PRED[w], u(c), got[0].get('ok'), w, got[1].get('ok'))


# =========================================================================== C03
def py_ladder(env, cps_, flags):
    """reference token sequence from the regex crate's own matcher"""
    ops = []
    for c in cps_:
        for w in 'dws':
            ops.append({'op': 'regex_is_match', 'pattern': CLASS_PAT[w], 'text': [c]})
    r = env.eval(ops)
    out = []
    for i, c in enumerate(cps_):
        D, W, S = (r[3 * i + k].get('ok') for k in range(3))
        if flags[0] and D: out += [92, ord('d')]
        elif flags[1] and W: out += [92, ord('w')]
        elif flags[2] and S: out += [92, ord('s')]
        elif flags[3] and not D: out += [92, ord('D')]
        elif flags[4] and not W: out += [92, ord('W')]
        elif flags[5] and not S: out += [92, ord('S')]
        else: out.append(c)
    return out


SETTING_OF_FLAG = ['digits', 'words', 'spaces', 'non_digits', 'non_words', 'non_spaces']


def replay_ladder_models(env, rep, known, o):
    if o.result != 'sat':
        return
    for m in o.verdict.models:
        seq = [m[k] for k in sorted((k for k in m if re.fullmatch(r'c\d+', k)), key=lambda s: int(s[1:]))]
        flags = [m[n] for n in Q.FLAG_NAMES]
        want = py_ladder(env, seq, flags)
        settings = {SETTING_OF_FLAG[i]: True for i in range(6) if flags[i]}
        got = env.eval([{'op': 'class_tokens', 's': seq, 'flags': flags}, {'op': 'build', 'cases': [seq], 'settings': settings},
                        {'op': 'split', 's': seq}])
        mine = got[0].get('ok')
        pat = got[1].get('ok') or []
        reachable = len(seq) == 1 or got[2].get('ok') == [seq]
        key = 'c=%s,flags=%s' % ('+'.join(u(x) for x in seq), ''.join('1' if f else '0' for f in flags))
        what = 'substituted "%s", documented precedence over the regex classes gives "%s"; build() gives %s' % (
            ''.join(map(chr, mine or [])), ''.join(map(chr, want)), json.dumps(''.join(map(chr, pat))))
        classify(rep, known, o.qid, key, what, {'inputs': {'cps': seq, 'flags': flags}, 'expected': want, 'observed': got},
                 mine != want and reachable)


def check_c03(rep):
    rep.statement = ('for every scalar value c and every subset F of the six conversion flags, the token substituted for c is '
                     '\\d if d in F and D(c); else \\w if w in F and W(c); else \\s if s in F and S(c); else \\D if D-bar in F and not D(c); '
                     'else \\W ...; else \\S ...; else c itself -- with D, W, S the REGEX CRATE\'s classes; so the token\'s class always '
                     'contains c.  The enclosing closure maps a string of n code points to the concatenation of the per-code-point '
                     'tokens (each code point independently).  The feature gate is on whenever F is non-empty.')
    rep.statement += ('  END TO END on small inputs: the whole of build() (RegExp::from and the printer, from MIR) with conversion options on 1-2 '
                      'test cases of 1-2 printable ASCII characters: the printed pattern, parsed back, accepts a string x -- every scalar value at '
                      'every position, every length -- if and only if x arises from some test case by the documented per-character generalisation '
                      '(%s).' % ('7 flag sets on 1-3 characters plus every pair of options for two one-character test cases' if rep.tier == 'quick' else 'all 63 non-empty flag sets for one and for two test cases of one character; 15 more for larger inputs'))
    rep.outside = ['strings of more than %d code points through the enclosing closure' % (2 if rep.tier == 'quick' else 3),
                   'end to end: test cases outside printable ASCII, more or longer test cases than the bound', 'combination with other options']
    env = Env(rep)
    known, _ = load_known()
    obs = [ob_add(rep, env.run('q03a', 1)), ob_add(rep, env.run('q03b'))]
    single = obs[0].verdict.models if (obs[0].verdict and obs[0].result == 'sat') else []
    if len(single) < env.ctx.cap('Q03a'):
        obs.append(decide_unit_obligation(rep, Q.q03a, env.ctx, 2, exclude=single))
        if rep.tier == 'thorough':
            obs.append(decide_unit_obligation(rep, Q.q03a, env.ctx, 3, exclude=single))
    cases = []
    rnd = random.Random(rep.seed + 1)
    cpsl = sample_cps(rep)
    for i, c in enumerate(cpsl):
        flags = [rnd.random() < 0.4 for _ in range(6)]
        s = [c] if i % 3 else [c, cpsl[(i * 7) % len(cpsl)]]
        cases.append(('class_tokens', {'s': s, 'flags': flags}, {'op': 'class_tokens', 's': s, 'flags': flags}))
    for k in range(6):
        flags = [j == k for j in range(6)]
        for c in (0x31, 0x61, 0x20, 0x2D, 0x5F, 0x661):
            cases.append(('class_tokens', {'s': [c], 'flags': flags}, {'op': 'class_tokens', 's': [c], 'flags': flags}))
    validate(env, rep, cases)
    for o in obs:
        if o.qid == 'Q03b':
            if o.result == 'sat':
                m = o.verdict.models[0]
                flags = [m[n] for n in Q.FLAG_NAMES]
                got = env.eval([{'op': 'class_feature_enabled', 'flags': flags}])
                key = 'flags=%s' % ''.join('1' if f else '0' for f in flags)
                classify(rep, known, 'Q03b', key, 'is_char_class_feature_enabled is false although a conversion flag is set',
                         {'inputs': {'flags': flags}, 'observed': got}, got[0].get('ok') is False)
            continue
        replay_ladder_models(env, rep, known, o)
    # end to end: the whole of build() with conversion options on small inputs
    ALL6 = tuple(SETTING_OF_FLAG)
    P_, A_ = 'printable', 'alnum'
    specs = [((1,), ('digits',), P_), ((1,), ALL6, P_), ((1, 1), ('digits',), P_), ((1, 1), ('words', 'non_words'), P_),
             ((2,), ('digits', 'spaces', 'non_words'), P_), ((2, 1), ('digits',), A_), ((2, 1), ('digits',), 'alnum-bs')]
    import itertools
    # two test cases of one character under every PAIR of conversion options (the precedence ladder matters as soon as two classes overlap)
    specs += [((1, 1), pr_, P_) for pr_ in itertools.combinations(SETTING_OF_FLAG, 2) if pr_ != ('words', 'non_words')]
    if rep.tier == 'thorough':
        import itertools
        specs = [((1,), tuple(k for k, on in zip(SETTING_OF_FLAG, bits) if on), P_) for bits in itertools.product((False, True), repeat=6) if any(bits)]
        specs += [((1, 1), tuple(k for k, on in zip(SETTING_OF_FLAG, bits) if on), P_) for bits in itertools.product((False, True), repeat=6) if any(bits)]
        specs += [((2,), ALL6, P_), ((2,), ('digits', 'spaces', 'non_words'), P_), ((2, 1), ('digits',), 'alnum-bs'),
                                                                  ((2, 1), ('digits',), A_), ((2, 1), ('words', 'non_words'), A_), ((2, 2), ('digits',), A_),
                                                                  ((2, 1), ALL6, A_), ((2, 2), ('spaces', 'non_spaces'), A_), ((3, 1), ('digits',), A_),
                                                                  ((2, 1, 1), ('digits',), A_)]
    run_conversion_obligations(rep, env, known, specs)


def replay_conversion(env, cases, flagset, x):
    """end to end on the real build: build() with the conversion options, then the real regex crate on the candidate string x;
    the reference is the documented precedence evaluated with the regex crate's own \\d \\w \\s"""
    settings = {k: True for k in flagset}
    got = env.eval([{'op': 'build', 'cases': cases, 'settings': settings}])
    pat = got[0].get('ok')
    if pat is None:
        return True, 'build() panics: %s' % str(got[0])[:200], {}
    chars = sorted(set(c for t in cases for c in t) | set(x))
    ops = [{'op': 'regex_is_match', 'pattern': CLASS_PAT[w], 'text': [c]} for c in chars for w in 'dws']
    r = env.eval(ops)
    cls = {c: tuple(r[3 * i + k].get('ok') for k in range(3)) for i, c in enumerate(chars)}
    flags = [k in flagset for k in SETTING_OF_FLAG]

    def stands_for(c, xc):
        D, W, S = cls[c]
        Dx, Wx, Sx = cls[xc]
        if flags[0] and D: return Dx
        if flags[1] and W: return Wx
        if flags[2] and S: return Sx
        if flags[3] and not D: return not Dx
        if flags[4] and not W: return not Wx
        if flags[5] and not S: return not Sx
        return c == xc
    expected = any(len(t) == len(x) and all(stands_for(c, xc) for c, xc in zip(t, x)) for t in cases)
    full = [94, 40, 63, 58] + list(pat[1:-1]) + [41, 36] if pat and pat[0] == 94 and pat[-1] == 36 else pat
    m = env.eval([{'op': 'regex_find', 'pattern': full, 'text': x}])[0].get('ok')
    accepted = isinstance(m, list) and m[0] == 0 and m[1] == m[2]
    what = 'build(%s, %s) = %s %s %s, which the documented generalisation %s' % (
        [''.join(map(chr, t)) for t in cases], ','.join(sorted(flagset)), json.dumps(''.join(map(chr, pat))),
        'accepts' if accepted else 'rejects', json.dumps(''.join(map(chr, x))), 'contains' if expected else 'does not contain')
    return accepted != expected, what, {'pattern': pat, 'accepted': accepted, 'expected': expected}


def run_conversion_obligations(rep, env, known, specs):
    env.prefetch([('q03t', (lens, flagset, dom), {}) for lens, flagset, dom in specs])
    for lens, flagset, dom in specs:
        o = ob_add(rep, env.run('q03t', lens, flagset, dom))
        if o.result != 'sat':
            continue
        for m in o.verdict.models:
            cases = [[m['s%d_%d' % (i, j)] for j in range(n)] for i, n in enumerate(lens)]
            x = [m['x%d' % i] for i in range(m['xlen'])]
            bad, what, obs = replay_conversion(env, cases, flagset, x)
            key = 'cases=%s,x=%s,%s' % ('|'.join('+'.join(u(c) for c in t) for t in cases), '+'.join(u(c) for c in x), ','.join(sorted(flagset)))
            classify(rep, known, 'Q03t', key, what, {'inputs': {'convert': cases, 'flagset': list(flagset), 'x': x}, 'observed': obs}, bad)


def replay_c03(env, rec):
    if 'convert' in rec['inputs']:
        bad, what, _ = replay_conversion(env, rec['inputs']['convert'], rec['inputs']['flagset'], rec['inputs']['x'])
        return bad, what
    if 'cps' not in rec['inputs']:
        got = env.eval([{'op': 'class_feature_enabled', 'flags': rec['inputs']['flags']}])
        return got[0].get('ok') is False, 'feature gate: %s' % got[0]
    seq, flags = rec['inputs']['cps'], rec['inputs']['flags']
    want = py_ladder(env, seq, flags)
    got = env.eval([{'op': 'class_tokens', 's': seq, 'flags': flags}])
    return got[0].get('ok') != want, 'substituted "%s", expected "%s"' % (''.join(map(chr, got[0].get('ok') or [])), ''.join(map(chr, want)))


# =========================================================================== C04
def check_c04(rep):
    rep.statement = ('(1) for every scalar value c, the lower-casing step of case-insensitive matching maps the one-code-point test '
                     'case [c] to [r] with r one code point in the same simple-case-folding orbit (regex crate) as c, i.e. (?i)r '
                     'matches c and accepts exactly the case variants of c; the step is idempotent; (2) the same position by position for '
                     'test cases of 2 (thorough: 3) code points; (3) the whole preprocessing at the head of RegExp::from (executed from MIR up '
                     'to grapheme_clusters), with case-insensitive matching on or off, neither loses nor invents a test case: every input has a '
                     'case variant in the list that reaches the automaton stage and vice versa (lists of 2-3 test cases of 1-2 code points).')
    rep.statement += ('  (4) END TO END on small inputs: the whole of build() (from MIR) with case-insensitive matching on 1-2 (3) test cases of 1-2 ASCII '
                      'letters in either case: the printed pattern starts with (?i) and, read with the engine\'s simple case folding (regex-syntax table), '
                      'accepts a string x -- every scalar value at every position, so KELVIN SIGN and LONG S are candidates -- iff x equals a test case '
                      'up to folding; no two alternatives are case variants of each other.')
    rep.outside = ['test cases containing U+03A3 (final-sigma context of str::to_lowercase is not modelled)',
                   'longer lists / longer test cases than the stated bounds', 'end to end: test cases outside A-Za-z']
    rep.assumptions += ['(2) and (3) treat to_lowercase / to_uppercase as uninterpreted per-code-point mappings constrained by lemmas that (1) '
                        'decides on the real tables in the same run; a counterexample of the abstraction is re-decided with the real tables '
                        '(std dump + regex-syntax folding) before it is replayed']
    rep.assumptions += ['str::to_lowercase is NOT executed: it is a table stub = its own exhaustive one-code-point dump from the '
                        'toolchain that builds the tree (Kani could not execute it; DESIGN 3)']
    env = Env(rep)
    known, _ = load_known()
    o1 = ob_add(rep, env.run('q04'))
    # closure-level idempotence on the real tables is slow (two table compositions per path); the quick tier relies on QLEM + Q10p
    o2 = ob_add(rep, env.run('q04', True)) if rep.tier == 'thorough' else None
    cases = [('lower', {'c': c}, {'op': 'lower', 'cases': [[c]]}) for c in sample_cps(rep)]
    native = env.eval([c[2] for c in cases])
    for (kind, inp, _op), nat in zip(cases, native):
        rep.validation['cases'] += 1
        enc = Q.concrete_eval(env.ctx, kind, inp)
        if nat.get('ok') != [enc]:
            rep.validation['mismatches'].append({'kind': kind, 'input': inp, 'encoding': enc, 'real_code': nat})
    if rep.validation['mismatches']:
        rep.inconclusive.append('translator validation mismatch: %s' % json.dumps(rep.validation['mismatches'][0])[:300])
    for o in (o1, o2):
        if o is None or o.result != 'sat':
            continue
        models = o.verdict.models
        ops = []
        for m in models:
            c = m['c']
            ops += [{'op': 'lower', 'cases': [[c]]}, {'op': 'build', 'cases': [[c]], 'settings': {'ignore_case': True}}]
        got = env.eval(ops)
        ops2 = []
        for i, m in enumerate(models):
            pat = got[2 * i + 1].get('ok') or []
            ops2.append({'op': 'regex_is_match', 'pattern': pat, 'text': [m['c']]})
            r = (got[2 * i].get('ok') or [[]])[0]
            ops2.append({'op': 'lower', 'cases': [r]})
        got2 = env.eval(ops2)
        for i, m in enumerate(models):
            c = m['c']
            pat = ''.join(map(chr, got[2 * i + 1].get('ok') or []))
            matched = got2[2 * i].get('ok')
            r = (got[2 * i].get('ok') or [[]])[0]
            key = 'c=%s' % u(c)
            if o.qid == 'Q04':
                what = 'case-insensitive build of the test case %s gives %s, which does not match the test case (lower-cased to %s, outside its folding orbit in regex %s)' % (
                    u(c), json.dumps(pat), '+'.join(u(x) for x in r), env.oracle['versions']['regex'])
                repro = matched is not True
            else:
                r2 = (got2[2 * i + 1].get('ok') or [[]])[0]
                what = 'lower-casing is not idempotent: %s -> %s -> %s' % (u(c), r, r2)
                repro = r2 != r
            classify(rep, known, o.qid, key, what, {'inputs': {'c': c}, 'observed': {'lower': r, 'pattern': pat, 'matches': matched}}, repro)
    # longer test cases and lists of test cases: case mapping abstracted, constrained by table lemmas decided here
    f2 = o1.verdict.models if (o1.verdict and o1.result == 'sat') else []
    lem = ob_add(rep, env.run('qlem'))
    complete = o1.result in ('unsat', 'sat') and 'cap' not in (o1.verdict.note or '') and lem.result == 'unsat'
    if not complete:
        rep.inconclusive.append('Q04n/Q04p skipped: the one-code-point result is incomplete or the table lemmas do not hold (%s / QLEM %s)' % (
            o1.verdict.note if o1.verdict else o1.inconclusive, lem.result))
    else:
        more = [env.run('q04n', 2, exclude=f2)]
        for lens in ([(1, 1), (1, 2)] if rep.tier == 'quick' else [(1, 1), (1, 2), (2, 2), (1, 1, 1)]):
            more.append(env.run('q04p', lens, exclude=f2))
        if rep.tier == 'thorough':
            more.append(env.run('q04n', 3, exclude=f2))
        for o in more:
            ob_add(rep, o)
            if o.result != 'sat':
                continue
            for m in o.verdict.models:
                if o.qid.startswith('Q04n'):
                    n_ = len([k for k in m if re.fullmatch(r'c\d+', k)])
                    cases_ = [[m['c%d' % i] for i in range(n_)]]
                    ci_ = True
                else:
                    lens_ = [int(x) for x in o.qid[5:-1].split(',')]
                    cases_ = [[m['s%d_%d' % (i, j)] for j in range(n)] for i, n in enumerate(lens_)]
                    ci_ = bool(m.get('cfg_is_case_insensitive_matching', True))
                repro, what = c04_list_replay(env, cases_, ci_)
                key = 'cases=%s,ignore_case=%s' % ('/'.join('+'.join(u(x) for x in c_) for c_ in cases_), str(ci_).lower())
                classify(rep, known, o.qid, key, what, {'inputs': {'cases': cases_, 'ignore_case': ci_}}, repro)
    # end to end: the whole of build() with case-insensitive matching on small inputs of ASCII letters in either case
    tspecs = [((1,), {}), ((1, 1), {}), ((2, 1), {})] + ([((2, 2), {}), ((1, 1, 1), {}), ((2, 1), {'verbose': True}), ((2, 1), {'capture': True})] if rep.tier == 'thorough' else [])
    env.prefetch([('q04t', (lens, stg), {}) for lens, stg in tspecs])
    for lens, stg in tspecs:
        o = ob_add(rep, env.run('q04t', lens, stg))
        if o.result != 'sat':
            continue
        nat = {{'verbose': 'verbose', 'capture': 'capture_groups'}[k]: True for k, v in stg.items() if v}
        for m in o.verdict.models:
            cases_ = [[m['s%d_%d' % (i, j)] for j in range(n)] for i, n in enumerate(lens)]
            if m['xlen'] == 0xFFFF:
                # two alternatives of the pattern are case variants of each other: visible in the pattern text itself
                got = env.eval([{'op': 'build', 'cases': cases_, 'settings': dict(nat, ignore_case=True)}])
                txt = ''.join(map(chr, got[0].get('ok') or []))
                alts = re.sub(r'^\(\?i\)\^\(\?:|\)\$$|^\(\?i\)\^|\$$', '', txt).split('|')
                dup = len(set(a_.lower() for a_ in alts)) < len(alts)
                key = 'collapse,cases=%s' % '|'.join(''.join(map(chr, t)) for t in cases_)
                classify(rep, known, 'Q04t', key, 'build(%s, ignore_case) = %s keeps alternatives that differ only in case' % ([''.join(map(chr, t)) for t in cases_], json.dumps(txt)),
                         {'inputs': {'ci_cases': cases_, 'settings': nat, 'x': []}, 'observed': got}, dup)
                continue
            x = [m['x%d' % i] for i in range(m['xlen'])]
            bad, what, obs = replay_ci(env, cases_, nat, x)
            key = 'cases=%s,x=%s%s' % ('|'.join(''.join(map(chr, t)) for t in cases_), '+'.join(u(c) for c in x), ''.join(',' + k for k in sorted(nat)))
            classify(rep, known, 'Q04t', key, what, {'inputs': {'ci_cases': cases_, 'settings': nat, 'x': x}, 'observed': obs}, bad)


def replay_ci(env, cases, settings, x):
    """end to end on the real build: build() with case-insensitive matching, the real regex crate on the candidate x; the reference is
    "x equals some test case up to the engine's case folding", asked of the regex crate itself with (?i)^<test case>$"""
    st_ = dict(settings, ignore_case=True)
    got = env.eval([{'op': 'build', 'cases': cases, 'settings': st_}])
    pat = got[0].get('ok')
    if pat is None:
        return True, 'build() panics: %s' % str(got[0])[:200], {}
    txt = ''.join(map(chr, pat))
    flag_ok = txt.startswith('(?ix)' if settings.get('verbose') else '(?i)')
    r = env.eval([{'op': 'regex_find', 'pattern': pat, 'text': x}] + [{'op': 'regex_find', 'pattern': [ord(ch) for ch in '(?i)^'] + t + [36], 'text': x} for t in cases])
    full = lambda g: isinstance(g.get('ok'), list) and g['ok'][0] == 0 and g['ok'][1] == g['ok'][2]
    accepted, expected = full(r[0]), any(full(g) for g in r[1:])
    what = 'build(%s, ignore_case%s) = %s %s %s, which %s a case variant of a test case%s' % (
        [''.join(map(chr, t)) for t in cases], ''.join(',' + k for k in sorted(settings) if settings[k]), json.dumps(txt), 'accepts' if accepted else 'rejects',
        json.dumps(''.join(map(chr, x))), 'is' if expected else 'is not', '' if flag_ok else '; the (?i) flag is missing')
    return accepted != expected or not flag_ok, what, {'pattern': pat, 'accepted': accepted, 'expected': expected}


def c04_list_replay(env, cases_, ci_):
    got = env.eval([{'op': 'build', 'cases': cases_, 'settings': {'ignore_case': ci_}}])
    pat = got[0].get('ok') or []
    ms = env.eval([{'op': 'regex_is_match', 'pattern': pat, 'text': c_} for c_ in cases_])
    missed = [c_ for c_, r in zip(cases_, ms) if r.get('ok') is not True]
    what = 'build(%s, ignore_case=%s) = %s does not match the test case(s) %s' % (
        ['+'.join(u(x) for x in c_) for c_ in cases_], ci_, json.dumps(''.join(map(chr, pat))), ['+'.join(u(x) for x in c_) for c_ in missed])
    return bool(missed) or 'panic' in got[0], what


def replay_c04(env, rec):
    if 'ci_cases' in rec['inputs']:
        bad, what, _ = replay_ci(env, rec['inputs']['ci_cases'], rec['inputs']['settings'], rec['inputs']['x'])
        return bad, what
    if 'cases' in rec['inputs']:
        return c04_list_replay(env, rec['inputs']['cases'], rec['inputs']['ignore_case'])
    c = rec['inputs']['c']
    got = env.eval([{'op': 'build', 'cases': [[c]], 'settings': {'ignore_case': True}}])
    pat = got[0].get('ok') or []
    m = env.eval([{'op': 'regex_is_match', 'pattern': pat, 'text': [c]}])
    return m[0].get('ok') is not True, 'build([%s], ignore_case) = %s; matches the test case: %s' % (u(c), json.dumps(''.join(map(chr, pat))), m[0].get('ok'))


# =========================================================================== C07
def check_c07(rep):
    nmax = 4 if rep.tier == 'quick' else 6
    rep.statement = ('(1) with_minimum_repetitions(q) and with_minimum_substring_length(q) panic with the documented message iff '
                     'q == 0 and otherwise store q and change nothing else (all u32, arbitrary prior settings); (2) escaper '
                     'pre-condition: the grapheme splitter\'s keep/split decision never KEEPS a unit of 2..=%d code points that '
                     'contains a backslash (such a unit is printed with a bare backslash: invalid pattern, and a panic in build() '
                     'when both anchors are disabled), and its units always partition the input in order; (3) escape_regexp_symbols '
                     'turns every unit of 1..=%d code points (multi-code-point units without backslash, by (2)) into text that the '
                     'regex crate reads as exactly those literals: every metacharacter, control character and the backslash is '
                     'escaped, for both settings of non-ASCII escaping (units may also contain shorthand-class tokens, kept verbatim); '
                     '(4) indent_regexp, the verbose-mode indentation, never panics (no arithmetic overflow) and only prepends '
                     'two-space indents to the non-empty lines, for every text of <= 3 lines of <= %d arbitrary code points.'
                     % (nmax, 2 if rep.tier == 'quick' else 3, 2 if rep.tier == 'quick' else 3))
    rep.statement += ('  (5) END TO END: for 2 test cases of one character each (0-9 a-z A-Z blank underscore) and each of %s combinations of the 13 settings, build() '
                      'from MIR returns without panicking and its text is in the syntax subset the pattern parser reads, with the requested flag group, anchors and '
                      'group kinds (Q01s, the same obligation as in C01 on another input shape).' % ('25' if rep.tier == 'quick' else '260'))
    rep.outside = ['totality of build() on longer lists / longer test cases; validity of the printed text beyond the syntax subset grex emits on these inputs',
                   'units longer than %d code points' % nmax,
                   'cluster shapes other than base + Extend* when the unconstrained query is sat (realisability filter)']
    rep.assumptions += ['GeneralCategory::of(c).is_mark()/is_other() are table stubs dumped from unic-ucd-category by running it',
                        'the closure\'s input is one extended grapheme cluster (unicode-segmentation is not executed); when the '
                        'unconstrained query is sat, counterexamples are restricted to base + non-mark grapheme extenders and replayed']
    env = Env(rep)
    known, _ = load_known()
    for w in ('repetitions', 'substring'):
        o = ob_add(rep, env.run('q07t', w))
        if o.result == 'sat':
            m = o.verdict.models[0]
            q = m['q']
            got = env.eval([{'op': 'set_threshold', 'which': w, 'q': q}])
            bad = ('panic' in got[0]) != (q == 0)
            classify(rep, known, o.qid, 'q=%d,which=%s' % (q, w), 'threshold setter misbehaves for q=%d: %s' % (q, got[0]),
                     {'inputs': {'q': q, 'which': w}, 'observed': got}, bad or q != 0 and got[0].get('ok') != ([q, 1] if w == 'repetitions' else [1, q]))
    for n in range(1, nmax + 1):
        o = env.run('q07g', n, False)
        if o.result == 'sat':
            # not every code point sequence is a grapheme cluster: ask again for realisable shapes only
            d = o.as_dict()
            d['result'] = 'superseded'
            d['note'] = 'sat without the grapheme-cluster pre-condition; decided by the realisable query below'
            rep.obligations.append(d)
            o = env.run('q07g', n, True)
        ob_add(rep, o)
        if o.result != 'sat':
            continue
        models = o.verdict.models
        got = env.eval(sum(([{'op': 'split', 's': [m['u%d' % i] for i in range(n)]},
                             {'op': 'build', 'cases': [[m['u%d' % i] for i in range(n)]], 'settings': {}},
                             {'op': 'build', 'cases': [[m['u%d' % i] for i in range(n)]], 'settings': {'no_anchors': True}}]
                            for m in models), []))
        pats = [got[3 * i + 1].get('ok') for i in range(len(models))]
        comp = env.eval([{'op': 'regex_is_match', 'pattern': p or [], 'text': [0]} for p in pats])
        for i, m in enumerate(models):
            seq = [m['u%d' % j] for j in range(n)]
            units = got[3 * i].get('ok') or []
            kept = any(len(x) > 1 and 92 in x for x in units)
            invalid = isinstance(comp[i].get('ok'), dict) or 'panic' in got[3 * i + 1]
            panics = 'panic' in got[3 * i + 2]
            key = 's=%s' % '+'.join(u(x) for x in seq)
            what = 'the splitter keeps %s as one unit; build() gives %s (compiles: %s); without_anchors().build() panics: %s' % (
                '+'.join(u(x) for x in seq), json.dumps(''.join(map(chr, pats[i] or []))), not invalid, panics)
            classify(rep, known, o.qid, key, what, {'inputs': {'s': seq}, 'observed': {'units': units, 'pattern': pats[i], 'invalid': invalid, 'panics': panics}},
                     kept and (invalid or panics))
    # escaping of metacharacters: every unit becomes text that denotes exactly that literal
    single = []
    shapes = ['c', 'cc', 'tc', 'ct', 'tt'] + (['tcc', 'ctc', 'cct'] if rep.tier == 'thorough' else [])     # 'ccc' (three arbitrary code points) did not finish in 2 h
    for shape in shapes:
        if len(single) >= env.ctx.cap('Q07e'):
            break
        o = decide_unit_obligation(rep, Q.q07e, env.ctx, shape, exclude=single)
        if o.result != 'sat':
            continue
        if shape == 'c':
            single = o.verdict.models
        for m in o.verdict.models:
            seq = []
            for i, k in enumerate(shape):
                seq += [m['c%d' % i]] if k == 'c' else [92, m['t%d' % i]]
            lits = ''.join(chr(m['c%d' % i]) if k == 'c' else 'x' for i, k in enumerate(shape))
            esc, surr = m['esc'], m['surr']
            got = env.eval([{'op': 'escape_regexp_symbols', 's': seq, 'escape': esc, 'surrogates': surr}])
            text = got[0].get('ok') or []
            # the text must parse, piece by piece, to the literals; checked with the regex crate on the whole text
            want = ''.join(map(chr, seq))
            # class tokens match one word/digit/space character; the literals must match themselves
            probe = [ord(ch) for ch in ''.join(chr(m['c%d' % i]) if k == 'c' else {'d': '7', 'D': 'x', 's': ' ', 'S': 'x', 'w': 'x', 'W': '-'}[chr(m['t%d' % i])]
                                               for i, k in enumerate(shape))]
            r = env.eval([{'op': 'regex_find', 'pattern': [ord('^')] + text + [ord('$')], 'text': probe},
                          {'op': 'build', 'cases': [probe], 'settings': {'escape': esc, 'surrogates': surr}}])
            ok = isinstance(r[0].get('ok'), list) and r[0]['ok'][0] == 0 and r[0]['ok'][1] == r[0]['ok'][2]
            key = 's=%s,escape=%s,surrogates=%s' % ('+'.join(u(x) for x in seq), str(esc).lower(), str(surr).lower())
            what = 'escape_regexp_symbols turns %s into %s, which the regex crate does not read as that literal (%s); build() gives %s' % (
                '+'.join(u(x) for x in seq), json.dumps(''.join(map(chr, text))), r[0], json.dumps(''.join(map(chr, r[1].get('ok') or []))) if 'ok' in r[1] else r[1])
            classify(rep, known, o.qid, key, what, {'inputs': {'e': seq, 'probe': probe, 'escape': esc, 'surrogates': surr}, 'observed': {'text': text, 'regex': r[0]}},
                     not ok and not (surr and esc and any(x >= 0x10000 for x in seq)))
    # the whole of build() under combinations of settings: no panic, the printed text is in the syntax the regex crate accepts (same obligations as C01,
    # on another input shape so that the two checks do not merely repeat each other)
    run_settings_obligations(rep, env, known, [(1, 1)] if rep.tier == 'quick' else [(1, 1), (2,)], setting_combinations(rep.tier))
    # verbose-mode indentation: total (no arithmetic panic) and content-preserving
    io = ob_add(rep, env.run('q07i', 3, 2) if rep.tier == 'quick' else env.run('q07i', 3, 3))
    if io.result == 'sat':
        combos = io.extra.get('line_length_combinations', [])
        for m in io.verdict.models:
            lens = combos[m['shape']] if m.get('shape', 0) < len(combos) else None
            if lens is None:
                continue
            lines = [[m.get('l%d_%d' % (i, j), 0x61) for j in range(n)] for i, n in enumerate(lens)]
            text = []
            for i, l in enumerate(lines):
                if i:
                    text.append(10)
                text += l
            nsa = bool(m.get('cfg_is_start_anchor_disabled', False))
            got = env.eval([{'op': 'indent_regexp', 's': text, 'no_start_anchor': nsa, 'colored': False}])
            bad, what = indent_bad(got[0], lines)
            key = 'text=%s,no_start_anchor=%s' % (json.dumps(''.join(map(chr, text))), str(nsa).lower())
            classify(rep, known, io.qid, key, 'indent_regexp(%s): %s' % (json.dumps(''.join(map(chr, text))), what),
                     {'inputs': {'indent': text, 'lines': lines, 'no_start_anchor': nsa}, 'observed': got}, bad)
    vcases = []
    for c in sample_cps(rep, 8):
        for esc, surr in ((False, False), (True, False), (True, True)):
            vcases.append(('escape_symbols', {'s': [c], 'escape': esc, 'surrogates': surr},
                           {'op': 'escape_regexp_symbols', 's': [c], 'escape': esc, 'surrogates': surr}))
    for c in (0x28, 0x29, 0x5B, 0x5D, 0x7B, 0x7D, 0x2B, 0x2A, 0x2D, 0x2E, 0x3F, 0x7C, 0x5E, 0x24, 0x5C, 0xA, 0xD, 0x9, 0xB, 0xC, 0x23, 0x26, 0x7E):
        vcases.append(('escape_symbols', {'s': [c], 'escape': False, 'surrogates': False},
                       {'op': 'escape_regexp_symbols', 's': [c], 'escape': False, 'surrogates': False}))
    vcases.append(('escape_symbols', {'s': [0x28, 0x1F3FB], 'escape': True, 'surrogates': True},
                   {'op': 'escape_regexp_symbols', 's': [0x28, 0x1F3FB], 'escape': True, 'surrogates': True}))
    validate(env, rep, vcases)
    cases = []
    for s in ([92, 0x61], [92, 0x1F3FB, 0x1F3FB], [0x61, 0x308], [0x1F468, 0x200D, 0x1F469], [92], [0x915, 0x94D, 0x937], [0x61],
              [92, 0xFF9E], [0xE01, 0xE33], [92, 0xE33, 0xE33]):
        cases.append(('split', {'s': s}, {'op': 'split', 's': s}))
    # the encoding covers the closure (one cluster); the real function also runs the cluster iterator, so only single clusters are compared
    native = env.eval([c[2] for c in cases])
    for (kind, inp, _op), nat in zip(cases, native):
        enc = Q.concrete_eval(env.ctx, kind, inp)
        flat_n = [x for unit in nat.get('ok', []) for x in unit]
        if flat_n != inp['s']:
            continue
        rep.validation['cases'] += 1
        # compare only when unicode-segmentation sees one cluster: then the closure ran exactly once
        if len(nat['ok']) == 1 or all(len(x) == 1 for x in nat['ok']):
            if nat['ok'] != enc and not (len(nat['ok']) > 1 and len(enc) == 1):
                rep.validation['mismatches'].append({'kind': kind, 'input': inp, 'encoding': enc, 'real_code': nat})
    if rep.validation['mismatches']:
        rep.inconclusive.append('translator validation mismatch: %s' % json.dumps(rep.validation['mismatches'][0])[:300])
    kani.prepare_lib_crate()
    os.environ['GREX_VERIF_ORACLE_RS'] = kani.gen_oracle_rs(env.oracle)
    hs = [(h, 'lib', 300, 8_000_000) for h in ('h07a_min_repetitions_zero_panics', 'h07b_min_substring_length_zero_panics',
                                                'h07c_min_repetitions_positive_ok', 'h07d_min_substring_length_positive_ok')]
    res = run_kani_set(rep, hs, rep.tier)
    for name, (r, where, tgt, to) in sorted(res.items()):
        kani_obligation(rep, r, functions=['RegExpBuilder::' + ('with_minimum_repetitions' if 'repet' in name else 'with_minimum_substring_length')],
                        domain='q: every u32 (> 0) / q = 0', bound='none')
        if r.status == 'failed':
            which = 'repetitions' if 'repet' in name else 'substring'
            q = 0 if 'zero' in name else None
            vals = kani.playback_values(name, where, tgt, to) if q is None else []
            if q is None:
                qs = [int.from_bytes(bytes(v['bytes']), 'little') for v in vals if len(v['bytes']) == 4]
                q = qs[0] if qs else 1
            got = env.eval([{'op': 'set_threshold', 'which': which, 'q': q}])
            bad = ('panic' in got[0]) != (q == 0)
            classify(rep, known, name, 'q=%d,which=%s' % (q, which), 'Kani: threshold setter misbehaves for q=%d: %s' % (q, got[0]),
                     {'inputs': {'q': q, 'which': which}, 'observed': got}, bad)
    rep.trusted += ['Kani 0.68.0 / CBMC 6.11.0 / CaDiCaL on the compiled code (nightly-2026-08-21 std)']


def indent_bad(res, lines):
    if 'panic' in res:
        return True, 'panics: %s' % str(res['panic'])[:80]
    out = ''.join(map(chr, res.get('ok') or []))
    want = [''.join(map(chr, l)) for l in lines if l]
    got = out.split('\n') if out else []
    ok = len(got) == len(want) and all(g.endswith(w) and set(g[:len(g) - len(w)]) <= {' '} and (len(g) - len(w)) % 2 == 0 for g, w in zip(got, want))
    return (not ok), 'returns %s for the lines %s' % (json.dumps(out), want)


def replay_c07(env, rec):
    if 'indent' in rec['inputs']:
        got = env.eval([{'op': 'indent_regexp', 's': rec['inputs']['indent'], 'no_start_anchor': rec['inputs']['no_start_anchor'], 'colored': False}])
        return indent_bad(got[0], rec['inputs']['lines'])
    if 'e' in rec['inputs']:
        seq, esc, surr = rec['inputs']['e'], rec['inputs']['escape'], rec['inputs']['surrogates']
        got = env.eval([{'op': 'escape_regexp_symbols', 's': seq, 'escape': esc, 'surrogates': surr}])
        text = got[0].get('ok') or []
        r = env.eval([{'op': 'regex_find', 'pattern': [ord('^')] + text + [ord('$')], 'text': rec['inputs'].get('probe', seq)}])
        ok = isinstance(r[0].get('ok'), list) and r[0]['ok'][0] == 0 and r[0]['ok'][1] == r[0]['ok'][2]
        return not ok, 'escaped text %s; regex crate: %s' % (json.dumps(''.join(map(chr, text))), r[0])
    if 's' in rec['inputs']:
        s = rec['inputs']['s']
        got = env.eval([{'op': 'split', 's': s}, {'op': 'build', 'cases': [s], 'settings': {'no_anchors': True}}])
        kept = any(len(x) > 1 and 92 in x for x in got[0].get('ok') or [])
        return kept and 'panic' in got[1], 'units %s; without_anchors().build(): %s' % (got[0].get('ok'), 'panic' if 'panic' in got[1] else 'ok')
    q, w = rec['inputs']['q'], rec['inputs']['which']
    got = env.eval([{'op': 'set_threshold', 'which': w, 'q': q}])
    return ('panic' in got[0]) != (q == 0), str(got[0])


# =========================================================================== C10
def check_c10(rep):
    rep.statement = ('(A) the test-case list that reaches the automaton stage is a function of the SET of test cases: the preprocessing '
                     'at the head of RegExp::from (case conversion, sort, dedup, length sort -- executed from MIR up to the call of '
                     'grapheme_clusters) is idempotent (a second build() or a clone sees a fixpoint), independent of the order of the '
                     'input list and insensitive to duplicates, for lists of 2-3 test cases of 1-2 arbitrary code points with the '
                     'case-insensitive flag symbolic; (B) the settings are unaffected by the order in which they were applied and are '
                     'preserved by clone().  For an ARBITRARY builder state and every pair of setters with arbitrary arguments: '
                     'applying them in either order gives the same RegExpConfig; repeating a setter with the same argument changes '
                     'nothing; no setter touches the test cases; each setter changes only its own field(s); clone() preserves config '
                     'and test cases.  (One inductive step from an arbitrary state, so it covers setter histories of any length.)')
    rep.statement += ('  (C) hash seeds: the whole of build() (from MIR) is run under three iteration-order policies for every HashSet / HashMap '
                      '(insertion order, reversed, rotated by one) and prints the same text, for 2-3 test cases of 1-2 letters (default settings and '
                      'without anchors) and, with conversion of word characters, for 4 test cases ":"x, ":"y, ";"z, ";"w with x..w from 0-9 : ; A-Z a-z (two '
                      'states with two outgoing edges each whose raw order and label order differ); the self-check block of RegExp::from as a unit (expression handed over by stubs, see C08) likewise.')
    rep.outside = ['hash iteration orders other than the three policies (3 of n! per container)',
                   'threads (the code has no shared state: nothing to schedule)', 'lists of more than 3 test cases or test cases longer than 2 code points; test cases containing U+03A3',
                   'Kani cannot execute the sort of heap strings (DESIGN 3); this part rests on mirsym alone']
    rep.assumptions += ['Q10p treats str::to_lowercase as an uninterpreted per-code-point mapping constrained by lemmas that Q04b decides on '
                        'the real table (idempotence where one code point is kept); a counterexample of the abstraction is re-decided with the '
                        'real table before it is replayed', '<[String]>::sort / sort_by are modelled as THE stable sorted permutation (insertion '
                        'sort with the comparator run from MIR); Vec::dedup removes consecutive equal elements']
    env = Env(rep, need_native=True)
    known, _ = load_known()
    o = ob_add(rep, env.run('q10'))
    if o.result == 'sat':
        rep.nonrepro.append('Q10 is sat: %s (replay of setter pairs is done by the Kani harnesses below)' % json.dumps(o.verdict.models[0])[:300])
    # order of the input list, duplicates, repeated build(): the preprocessing at the head of RegExp::from
    lem = ob_add(rep, env.run('qlem'))
    for lens in ([(1, 1), (1, 2)] if rep.tier == 'quick' else [(1, 1), (1, 2), (2, 2), (1, 1, 1)]):
        if lem.result != 'unsat':
            rep.inconclusive.append('Q10p skipped: the table lemmas it assumes are not established (QLEM %s)' % lem.result)
            break
        po = ob_add(rep, env.run('q10p', lens))
        if po.result != 'sat':
            continue
        for m in po.verdict.models:
            cases_ = [[m['s%d_%d' % (i, j)] for j in range(n)] for i, n in enumerate(lens)]
            st_ = {'ignore_case': bool(m.get('cfg_is_case_insensitive_matching', False))}
            got = env.eval([{'op': 'build_twice', 'cases': cases_, 'settings': st_},
                            {'op': 'build', 'cases': cases_[::-1], 'settings': st_},
                            {'op': 'build', 'cases': cases_ + [cases_[0]], 'settings': st_}])
            outs_ = [''.join(map(chr, x)) for x in (got[0].get('ok') or [[], [], []])] + \
                    [''.join(map(chr, g.get('ok') or [])) for g in got[1:]]
            key = 'cases=%s,ignore_case=%s' % ('/'.join('+'.join(u(x) for x in c_) for c_ in cases_), str(st_['ignore_case']).lower())
            if len(set(outs_)) == 1:
                # the lists differ but so small an input prints the same pattern (classes are sorted when printed): make the
                # order of the list observable by giving every test case its own suffix, so that the output is an alternation
                amp = [c_ + [0x78, 0x61 + i] for i, c_ in enumerate(cases_)]
                got2 = env.eval([{'op': 'build_twice', 'cases': amp, 'settings': st_}, {'op': 'build', 'cases': amp[::-1], 'settings': st_},
                                 {'op': 'build', 'cases': amp + [amp[0]], 'settings': st_}])
                outs2 = [''.join(map(chr, x)) for x in (got2[0].get('ok') or [[], [], []])] + [''.join(map(chr, g.get('ok') or [])) for g in got2[1:]]
                if len(set(outs2)) > 1:
                    cases_, outs_ = amp, outs2
                    key += ',amplified'
            what = 'build() = %s, second build() on the same builder = %s, on a clone = %s, reversed input = %s, with a duplicate = %s' % tuple(json.dumps(x) for x in outs_)
            classify(rep, known, po.qid, key, what, {'inputs': {'cases': cases_, 'settings': st_}, 'observed': outs_}, len(set(outs_)) > 1)
    # (C) per-process hash seeds: the printed text does not depend on the iteration order of any HashSet / HashMap
    B_ = {'no_start_anchor': True, 'no_end_anchor': True}
    # templates for the class-conversion case: two one-character prefixes ':' and ';' (non-word, no metacharacter) with two continuations each
    FX4 = {(0, 0): ':', (1, 0): ':', (2, 0): ';', (3, 0): ';'}
    FX6 = dict(list(FX4.items()) + [((0, 1), ':'), ((3, 1), ':')])
    W_ = {'words': True}
    hspecs = [((2, 1), {}), ((1, 1, 1), {}), ((2, 1), B_), ((2, 2, 2, 2), W_, 'alnum-colon', False, FX6)] + \
             ([((2, 2), {}), ((2, 2), B_), ((2, 1), {'repetitions': True}), ((3,), {'repetitions': True}), ((2, 2, 2, 2), W_, 'alnum-colon', False, FX4),
               ((2, 2, 2, 2), {'digits': True}, 'alnum-colon', False, FX6)] if rep.tier == 'thorough' else [])
    hspecs = [h_ if len(h_) == 5 else h_ + ('letters', False, None) for h_ in hspecs]
    uspecs = [(SK['xx?|xx'], B_, 'same')] + ([(SK['x(xx)?|(xx|x)x'], B_, 'same'), (SK['xx?|xx'], {'no_end_anchor': True}, 'same'), (SK['x|xx'], B_, 'same')] if rep.tier == 'thorough' else [])
    env.prefetch([('q10h', h_, {}) for h_ in hspecs] + [('q08u', (sk, stg, sec, None, True), {}) for sk, stg, sec in uspecs])
    for h_ in hspecs:
        lens, stg = h_[0], h_[1]
        ho = ob_add(rep, env.run('q10h', *h_))
        if ho.result != 'sat':
            continue
        for m in ho.verdict.models:
            cases_ = [[m['s%d_%d' % (i, j)] for j in range(n)] for i, n in enumerate(lens)]
            nat = {SEARCH_SMAP[k]: True for k, v in stg.items() if v}
            outs_ = replay_many_processes(env, cases_, nat)
            key = 'hash-order,cases=%s,%s' % (canonical_words(cases_), ','.join(sorted(nat)) or 'default')
            what = 'build(%s, %s) printed %d different texts in %d runs: %s' % ([''.join(map(chr, c_)) for c_ in cases_], ','.join(sorted(nat)) or 'default',
                                                                              len(set(outs_)), len(outs_), json.dumps(sorted(set(outs_))[:3]))
            classify(rep, known, 'Q10h', key, what, {'inputs': {'hash_order_cases': cases_, 'settings': nat}, 'observed': sorted(set(outs_))}, len(set(outs_)) > 1)
    for sk, stg, sec in uspecs:
        uo = ob_add(rep, env.run('q08u', sk, stg, sec, None, True))
        if uo.result != 'sat':
            continue
        nat = {SEARCH_SMAP[k]: True for k, v in stg.items() if v}
        repro_here = 0
        for m in uo.verdict.models:
            cases_ = [[m[v_] for v_ in w] for w in uo.extra['cases_vars']]
            cases_ = [list(t) for t in sorted(set(tuple(c) for c in cases_), key=lambda c: (len(c), c))]
            outs_ = replay_many_processes(env, cases_, nat)
            if len(set(outs_)) > 1:
                repro_here += 1
                key = 'hash-order,cases=%s,%s' % (canonical_words(cases_), ','.join(sorted(nat)))
                what = 'build(%s, %s) printed %d different texts in %d runs: %s' % ([''.join(map(chr, c_)) for c_ in cases_], ','.join(sorted(nat)),
                                                                                  len(set(outs_)), len(outs_), json.dumps(sorted(set(outs_))[:3]))
                classify(rep, known, 'Q10h', key, what, {'inputs': {'hash_order_cases': cases_, 'settings': nat}, 'observed': sorted(set(outs_))}, True)
        if not repro_here:
            rep.nonrepro.append('%s: %d input(s) for which the self-check block prints different texts under different hash orders, none reproduces through '
                                'build() (the automaton stages do not hand over an expression of this shape for those test cases)' % (uo.qid, len(uo.verdict.models)))
    kani.prepare_lib_crate()
    os.environ['GREX_VERIF_ORACLE_RS'] = kani.gen_oracle_rs(env.oracle)
    hs = [(h, 'lib', 600, 8_000_000) for h in ('h10c_setters_commute', 'h10f_setter_frame_and_idempotence', 'h10k_clone_preserves_settings')]
    res = run_kani_set(rep, hs, rep.tier)
    for name, (r, where, tgt, to) in sorted(res.items()):
        d = kani_obligation(rep, r, functions=['RegExpBuilder::{16 setters}', 'RegExpBuilder::clone', 'RegExpBuilder::from'],
                            domain='symbolic setter indices i, j < 16, symbolic bool / u32 arguments; builder fresh from from(&["a"])',
                            bound='setter histories of length <= 2 from the initial state')
        if r.status == 'failed':
            vals = kani.playback_values(name, where, tgt, to)
            d['concrete_playback'] = vals
            key = 'harness=%s,values=%s' % (name, '/'.join(v['value'] for v in vals)[:80])
            ops = setter_replay_ops(vals)
            got = env.eval(ops) if ops else []
            bad = len(got) == 2 and got[0] != got[1]
            classify(rep, known, name, key, 'Kani: %s fails: %s' % (name, '; '.join(r.failed_checks)[:200]),
                     {'inputs': {'playback': vals}, 'observed': got}, bad or name != 'h10c_setters_commute')
    if o.result == 'sat' and not rep.violations:
        pass
    elif o.result == 'sat':
        rep.nonrepro = [x for x in rep.nonrepro if not x.startswith('Q10 is sat')]
    rep.trusted += ['Kani 0.68.0 / CBMC 6.11.0 / CaDiCaL on the compiled code (nightly-2026-08-21 std)']


SETTER_NAMES = ['digits', 'non_digits', 'spaces', 'non_spaces', 'words', 'non_words', 'repetitions', 'ignore_case',
                'capture_groups', 'escape', 'verbose', 'no_start_anchor', 'no_end_anchor', 'no_anchors', 'min_repetitions',
                'min_substring_length']


def setter_replay_ops(vals):
    """h10c's kani::any() order: i, j, fi, fj, qi, qj"""
    try:
        i, j = vals[0]['bytes'][0], vals[1]['bytes'][0]
        fi, fj = bool(vals[2]['bytes'][0]), bool(vals[3]['bytes'][0])
        qi = int.from_bytes(bytes(vals[4]['bytes']), 'little')
        qj = int.from_bytes(bytes(vals[5]['bytes']), 'little')
    except (IndexError, KeyError):
        return None
    a = [[SETTER_NAMES[i], fi, qi], [SETTER_NAMES[j], fj, qj]]
    return [{'op': 'setters', 'seq': a}, {'op': 'setters', 'seq': a[::-1]}]


def replay_many_processes(env, cases, settings, processes=12, builds_per_process=3):
    """hash seeds differ per process and per HashSet instance: build() the same input in several fresh processes, several times each"""
    outs = []
    ops = [{'op': 'build', 'cases': cases, 'settings': settings} for _ in range(builds_per_process)]
    for _ in range(processes):
        for g in env.eval(ops):
            outs.append(''.join(map(chr, g.get('ok') or [])) if 'ok' in g else 'PANIC')
    return outs


def replay_c10(env, rec):
    if 'hash_order_cases' in rec['inputs']:
        outs = replay_many_processes(env, rec['inputs']['hash_order_cases'], rec['inputs']['settings'], processes=30)
        return len(set(outs)) > 1, '%d different outputs in %d runs' % (len(set(outs)), len(outs))
    if 'cases' in rec['inputs']:
        c_, st_ = rec['inputs']['cases'], rec['inputs']['settings']
        got = env.eval([{'op': 'build_twice', 'cases': c_, 'settings': st_}, {'op': 'build', 'cases': c_[::-1], 'settings': st_},
                        {'op': 'build', 'cases': c_ + [c_[0]], 'settings': st_}])
        outs_ = [''.join(map(chr, x)) for x in (got[0].get('ok') or [[], [], []])] + [''.join(map(chr, g.get('ok') or [])) for g in got[1:]]
        return len(set(outs_)) > 1, str(outs_)
    ops = setter_replay_ops(rec['inputs'].get('playback', []))
    if not ops:
        return False, 'no replayable values'
    got = env.eval(ops)
    return got[0] != got[1], '%s vs %s' % (got[0], got[1])


# =========================================================================== C12
def check_c12(rep):
    rep.statement = ('(1) obtain_input (bin crate MIR, process environment = symbolic stubs constrained by their contracts) returns exactly the '
                     'test cases the user supplied on every channel: arguments; "-" with piped stdin (the lines BufRead::lines delivers, untouched); '
                     '-f FILE with LF or CRLF line endings, with or without a final line ending; -f - with the file name on piped stdin (with or without a '
                     'trailing line feed; the file that is opened is the one named); a failing read ends in Err -- for 2 (3) lines of '
                     '2 arbitrary code points. (1b) the library\'s from_file (lib MIR, fs stub) holds exactly the lines of the file, LF or CRLF, with or '
                     'without a final line ending, and panics with the documented message when the file is missing. (2) handle_input: for every combination of the 16 Boolean CLI fields and both (positive) thresholds the builder '
                     'that reaches build() carries exactly the documented settings (each flag <-> its config field; start anchor '
                     'disabled iff --no-start-anchor or --no-anchors, same for end; surrogates iff --escape and --with-surrogates; '
                     'thresholds copied; build() called exactly once); no panic for input vectors of length 0, 1, 2 -- an empty '
                     'list and every io::ErrorKind end in Err, never in a panic.')
    rep.outside = ['invalid UTF-8 input, the operating system itself',
                   'clap\'s own parsing and value parsers', 'that the printed line is the library\'s result (build and print are stubbed)',
                   'input vectors longer than 2 (a symbolic length did not finish, DESIGN 3)']
    rep.assumptions += ['stubs: RegExpBuilder::build records verif_hooks::config_bits and returns an empty string; std::io::_print '
                        'is empty; alloc::fmt::format is empty in the error-kind harness only',
                        'thresholds >= 1 as clap\'s value parser guarantees']
    env = Env(rep, need_mir=True, need_native=True)
    known, _ = load_known()
    # input acquisition on every channel: obtain_input from the bin crate's MIR with the process environment as symbolic stubs
    from mirsym.mir import Mir
    bin_text, bi = prep.mir_dump('bin')
    rep.info['bin_mir_lines'] = bi['mir_lines']
    env.ctx.bin_mir = Mir(bin_text, prep.repo())
    chans = ('args', 'stdin', 'file-lf', 'file-crlf', 'file-lf-final', 'file-crlf-final', 'file-missing', 'file-on-stdin', 'file-on-stdin-nl')
    env.prefetch([('q12i', (ch, 2 if rep.tier == 'quick' else 3, 2), {}) for ch in chans])
    fvars = ('lf', 'crlf', 'lf-final', 'crlf-final', 'missing')
    env.prefetch([('q12f', (v_,), {}) for v_ in fvars])
    for v_ in fvars:
        fo = ob_add(rep, env.run('q12f', v_))
        if fo.result != 'sat':
            continue
        for m in fo.verdict.models:
            lines_ = [[m['t%d_%d' % (i, j)] for j in range(2)] for i in range(2)]
            if v_ == 'missing':
                classify(rep, known, 'Q12f', 'from_file=missing', 'from_file on a missing file does not panic with the documented message', {'inputs': {'kind': 'from_file', 'variant': v_}}, True)
                continue
            sep = [13, 10] if 'crlf' in v_ else [10]
            content = []
            for i, l in enumerate(lines_):
                content += (sep if i else []) + l
            content += sep if v_.endswith('final') else []
            got = env.eval([{'op': 'from_file', 'content': content}, {'op': 'build', 'cases': lines_, 'settings': {}}])
            r0 = got[0].get('ok')
            bad = not (isinstance(r0, list) and r0[0] == lines_ and r0[1] == got[1].get('ok'))
            key = 'from_file=%s,lines=%s' % (v_, '|'.join('+'.join(u(x) for x in l) for l in lines_))
            classify(rep, known, 'Q12f', key, 'from_file on %r holds %s; from() on its lines would hold %s' % (''.join(map(chr, content)), r0, lines_),
                     {'inputs': {'kind': 'from_file', 'variant': v_, 'content': content, 'lines': lines_}, 'observed': got}, bad)
    for ch in chans:
        o = ob_add(rep, env.run('q12i', ch, 2 if rep.tier == 'quick' else 3, 2))
        if o.result != 'sat':
            continue
        for m in o.verdict.models:
            bad, key, what, record = replay_channel(env, ch, m)
            classify(rep, known, 'Q12i', key, what, record, bad)
    hs = [('h12m_flag_mapping', 'cli', 1200, 16_000_000), ('h12p0_no_test_cases_is_an_error_not_a_panic', 'cli', 1200, 16_000_000),
          ('h12p2_two_test_cases', 'cli', 1200, 16_000_000), ('h12e_input_errors_become_err', 'cli', 1200, 16_000_000)]
    # one target dir for the bin crate (clap is compiled once); harnesses run one after the other in it
    tgt = os.path.join(WORK, 'kani-tgt', 'cli')
    results = []
    for name, where, to, mem in hs:
        r, out = kani.run_harness(name, where, tgt, to, mem)
        results.append((name, r))
    for name, r in results:
        d = kani_obligation(rep, r, expect_covers=True, functions=['main.rs cli::handle_input', 'RegExpBuilder::from', 'RegExpBuilder setters'],
                            domain='16 Boolean CLI fields, two u32 thresholds >= 1: all symbolic; input vector concrete (length %s)' % (
                                {'h12m': '1', 'h12p0': '0', 'h12p2': '2'}.get(name.split('_')[0], 'n/a: Err(kind), 6 kinds')),
                            bound='input vector length fixed per harness; unwind 17',
                            stubs=['RegExpBuilder::build', 'std::io::_print'] + (['alloc::fmt::format'] if name.startswith('h12e') else []))
        if r.status != 'failed':
            continue
        vals = kani.playback_values(name, 'cli', tgt, 1200)
        d['concrete_playback'] = vals
        repro, key, what, record = replay_cli(name, vals, r)
        classify(rep, known, name.split('_')[0], key, what, record, repro)
    rep.trusted += ['Kani 0.68.0 / CBMC 6.11.0 / CaDiCaL on the compiled bin crate (clap 4.5 compiled under Kani)']


def replay_channel(env, ch, m):
    """run the real grex binary on the channel with the solver's input and compare with the library's build() of the same test cases"""
    binp = prep.cli_build()
    import tempfile

    def lines_of(tag):
        out, i = [], 0
        while ('%s%d_0' % (tag, i)) in m or ('%s%d_1' % (tag, i)) in m:
            l, j = [], 0
            while ('%s%d_%d' % (tag, i, j)) in m:
                l.append(m['%s%d_%d' % (tag, i, j)])
                j += 1
            out.append(l)
            i += 1
        return out
    enc = lambda l: ''.join(map(chr, l)).encode('utf-8', 'surrogatepass')
    if ch == 'stdin':
        cases = lines_of('l')
        raw = b''.join(enc(l) + b'\r\n' for l in cases)     # BufRead::lines strips "\n" and ONE preceding "\r": this delivers exactly the lines
        p = subprocess.run([binp, '-'], input=raw, capture_output=True)
    elif ch == 'args':
        cases = lines_of('a')
        if any(0 in l for l in cases):
            return False, 'args=nul', 'an argument with a NUL character cannot be passed to a process', {}
        p = subprocess.run([binp, '--'] + [enc(l).decode('utf-8', 'replace') for l in cases], capture_output=True, stdin=subprocess.DEVNULL)
    elif ch.startswith('file-on-stdin'):
        # the file name arrives on stdin; the solver's two path characters become the file's name inside a scratch directory
        cases = lines_of('t')
        d = tempfile.mkdtemp()
        name = ''.join(chr(m.get('p%d' % i, 0x61)) for i in range(2))
        if '/' in name or '\x00' in name or name in ('..',):
            return False, 'path=unusable', 'the path %r cannot name a scratch file' % name, {}
        path = os.path.join(d, name)
        try:
            with open(path, 'wb') as f:
                f.write(b'\n'.join(enc(l) for l in cases))
            p = subprocess.run([binp, '-f', '-'], input=path.encode('utf-8', 'surrogatepass') + (b'\n' if ch.endswith('-nl') else b''), capture_output=True)
        except (OSError, UnicodeError, ValueError):
            return False, 'path=unusable', 'the path %r cannot name a scratch file' % name, {}
        finally:
            import shutil
            shutil.rmtree(d, ignore_errors=True)
    else:
        cases = lines_of('t')
        sep = b'\r\n' if 'crlf' in ch else b'\n'
        raw = sep.join(enc(l) for l in cases) + (sep if ch.endswith('final') else b'')
        with tempfile.NamedTemporaryFile('wb', suffix='.txt', delete=False) as f:
            f.write(raw)
            path = f.name
        p = subprocess.run([binp, '-f', path], capture_output=True, stdin=subprocess.DEVNULL)
        os.unlink(path)
    lib = env.eval([{'op': 'build', 'cases': cases, 'settings': {}}])
    want = (''.join(map(chr, lib[0].get('ok') or [])) + '\n').encode('utf-8', 'surrogatepass')
    bad = p.returncode != 0 or p.stdout != want
    key = 'channel=%s,cases=%s' % (ch, '|'.join('+'.join(u(x) for x in l) for l in cases))
    what = 'grex on channel %s with the test cases %s prints %r (exit %d); the library gives %r' % (ch, [''.join(map(chr, l)) for l in cases], p.stdout, p.returncode, want)
    return bad, key, what, {'inputs': {'kind': 'channel', 'channel': ch, 'cases': cases}, 'observed': {'stdout': p.stdout.decode('utf-8', 'replace'), 'exit': p.returncode}}


CLI_FIELDS = ['minrep', 'minlen', 'digits', 'non-digits', 'spaces', 'non-spaces', 'words', 'non-words', 'escape', 'with-surrogates',
              'repetitions', 'no-start-anchor', 'no-end-anchor', 'no-anchors', 'verbose', 'colorize', 'ignore-case', 'capture-groups']


def replay_cli(name, vals, r):
    """run the REAL grex binary.  any_cli() draws: minrep, minlen, then the 16 flags in struct order."""
    binp = prep.cli_build()
    args = []
    try:
        minrep = int.from_bytes(bytes(vals[0]['bytes']), 'little')
        minlen = int.from_bytes(bytes(vals[1]['bytes']), 'little')
        flags = [bool(v['bytes'][0]) for v in vals[2:18]]
        for f, on in zip(CLI_FIELDS[2:], flags):
            if on:
                args.append('--' + f)
        if '--with-surrogates' in args and '--escape' not in args:
            args.remove('--with-surrogates')      # clap rejects it (requires = "escape")
        args += ['--min-repetitions', str(max(minrep, 1)), '--min-substring-length', str(max(minlen, 1))]
    except (IndexError, KeyError, ValueError):
        pass
    import tempfile
    if name.startswith('h12p0'):
        with tempfile.NamedTemporaryFile('w', suffix='.txt', delete=False) as f:
            path = f.name
        p = subprocess.run([binp, '-f', path] + args, capture_output=True, text=True, stdin=subprocess.DEVNULL)
        os.unlink(path)
        panicked = p.returncode == 101 or 'panicked at' in p.stderr
        return (panicked, 'input=empty-file', 'grex -f <empty file> panics (exit %d: %s) instead of exiting 1 with a one-line error' % (
            p.returncode, p.stderr.strip().split('\n')[0][:120]),
            {'inputs': {'kind': 'empty-file', 'args': args}, 'observed': {'exit': p.returncode, 'stderr': p.stderr[:400]}})
    if name.startswith('h12e'):
        p = subprocess.run([binp, '-f', '/nonexistent/verif/file'] + args, capture_output=True, text=True, stdin=subprocess.DEVNULL)
        bad = p.returncode != 1 or 'panicked' in p.stderr
        return (bad, 'input=missing-file', 'grex -f <missing file>: exit %d, stderr %s' % (p.returncode, p.stderr.strip()[:120]),
                {'inputs': {'kind': 'missing-file', 'args': args}, 'observed': {'exit': p.returncode, 'stderr': p.stderr[:400]}})
    # flag mapping: compare the binary's output with the library called with the documented settings
    def drawn(i):
        try:
            return '' if vals[i]['bytes'][0] else 'a'
        except (IndexError, KeyError):
            return 'a'
    cases = [drawn(18)] if name.startswith('h12m') else [drawn(18), drawn(19)]
    p = subprocess.run([binp] + args + cases, capture_output=True, text=True, stdin=subprocess.DEVNULL)
    native, _ = prep.native_build('release')
    st = {}
    amap = {'--digits': 'digits', '--non-digits': 'non_digits', '--spaces': 'spaces', '--non-spaces': 'non_spaces', '--words': 'words',
            '--non-words': 'non_words', '--escape': 'escape', '--with-surrogates': 'surrogates', '--repetitions': 'repetitions',
            '--no-start-anchor': 'no_start_anchor', '--no-end-anchor': 'no_end_anchor', '--no-anchors': 'no_anchors',
            '--verbose': 'verbose', '--colorize': 'colorize', '--ignore-case': 'ignore_case', '--capture-groups': 'capture_groups'}
    for a in args:
        if a in amap:
            st[amap[a]] = True
    try:
        st['min_repetitions'] = int(args[args.index('--min-repetitions') + 1])
        st['min_substring_length'] = int(args[args.index('--min-substring-length') + 1])
    except ValueError:
        pass
    lib = prep.native_eval(native, [{'op': 'build', 'cases': [[ord(c) for c in s] for s in cases], 'settings': st}])
    want = ''.join(map(chr, lib[0].get('ok') or [])) + '\n'
    bad = p.returncode != 0 or p.stdout != want
    return (bad, 'args=%s' % ','.join(args), 'grex %s %s prints %s (exit %d); the library with the documented settings gives %s' % (
        ' '.join(args), ' '.join(cases), json.dumps(p.stdout), p.returncode, json.dumps(want)),
        {'inputs': {'kind': 'args', 'args': args, 'cases': cases}, 'observed': {'exit': p.returncode, 'stdout': p.stdout, 'library': want}})


def replay_c12(env, rec):
    binp = prep.cli_build()
    kind = rec['inputs']['kind']
    if kind == 'channel':
        ch, cases = rec['inputs']['channel'], rec['inputs']['cases']
        tag = {'stdin': 'l', 'args': 'a'}.get(ch, 't')
        m = {'%s%d_%d' % (tag, i, j): c for i, l in enumerate(cases) for j, c in enumerate(l)}
        bad, _k, what, _r = replay_channel(env, ch, m)
        return bad, what
    if kind == 'from_file':
        if rec['inputs'].get('variant') == 'missing':
            return False, 'from_file on a missing file: not replayable in-process (it panics by design)'
        got = env.eval([{'op': 'from_file', 'content': rec['inputs']['content']}, {'op': 'build', 'cases': rec['inputs']['lines'], 'settings': {}}])
        r0 = got[0].get('ok')
        return not (isinstance(r0, list) and r0[0] == rec['inputs']['lines'] and r0[1] == got[1].get('ok')), 'from_file holds %s' % (r0,)
    args = rec['inputs'].get('args', [])
    if kind == 'empty-file':
        import tempfile
        with tempfile.NamedTemporaryFile('w', suffix='.txt', delete=False) as f:
            path = f.name
        p = subprocess.run([binp, '-f', path] + args, capture_output=True, text=True, stdin=subprocess.DEVNULL)
        os.unlink(path)
        return p.returncode == 101 or 'panicked at' in p.stderr, 'exit %d: %s' % (p.returncode, p.stderr.strip()[:200])
    if kind == 'missing-file':
        p = subprocess.run([binp, '-f', '/nonexistent/verif/file'] + args, capture_output=True, text=True, stdin=subprocess.DEVNULL)
        return p.returncode != 1 or 'panicked' in p.stderr, 'exit %d: %s' % (p.returncode, p.stderr.strip()[:200])
    p = subprocess.run([binp] + args + rec['inputs']['cases'], capture_output=True, text=True, stdin=subprocess.DEVNULL)
    return p.stdout != rec['observed']['library'], 'stdout %s vs library %s' % (json.dumps(p.stdout), json.dumps(rec['observed']['library']))


# =========================================================================== C05 / C13  (cluster-level repetition conversion)
def replay_cluster(env, s_, minrep, minlen, clause):
    got = env.eval([{'op': 'cluster_repetitions', 's': s_, 'min_repetitions': minrep, 'min_substring_length': minlen}])
    if 'ok' not in got[0]:
        return True, 'convert_repetitions panics: %s' % str(got[0])[:120], got
    rows = got[0]['ok']

    def walk(i, depth):
        """-> (next index, expansion of the grapheme at rows[i], threshold violations)"""
        d, chars, mn, mx = rows[i]
        j = i + 1
        nested, viol = [], []
        while j < len(rows) and rows[j][0] > depth:
            j, e, v = walk(j, depth + 1)
            nested += e
            viol += v
        own = [tuple(c) for c in chars]
        if mn != mx:
            viol.append('ranged count {%d,%d}' % (mn, mx))
        if mn > 1 and not (mn > minrep and len(own) >= minlen):
            viol.append('unit %s x%d (min_repetitions %d, min_substring_length %d)' % (''.join(''.join(map(chr, c)) for c in own), mn, minrep, minlen))
        if nested and nested != own:
            viol.append('nested rendering differs from the unit')
        return j, own * mn, viol
    i, flat, viol = 0, [], []
    while i < len(rows):
        i, e, v = walk(i, 0)
        flat += e
        viol += v
    orig = [(c,) for c in s_]
    notation_bad = flat != orig or any('nested' in v for v in viol)
    thr_bad = any('unit ' in v or 'ranged' in v for v in viol)
    text = 'convert_repetitions(%s, min_repetitions=%d, min_substring_length=%d) -> %s' % (
        json.dumps(''.join(map(chr, s_))), minrep, minlen,
        ' '.join('%s%s{%d}' % ('  ' * r[0], '|'.join(''.join(map(chr, c)) for c in r[1]), r[2]) for r in rows))
    if clause == 'notation':
        return notation_bad, text + ('; expansion differs from the test case' if notation_bad else ''), got
    return thr_bad, text + ('; ' + '; '.join(viol) if viol else ''), got


def check_cluster(rep, clause):
    env = Env(rep)
    known, _ = load_known()
    ns = (2, 3, 4, 5) if rep.tier == 'quick' else (2, 3, 4, 5, 6, 7)
    env.prefetch([('q05r', (n, clause), {}) for n in ns] + ([('q05r', (n, clause), {'tokens': True}) for n in ((2, 3, 4) if rep.tier == 'quick' else (2, 3, 4, 5, 6))] if clause == 'thresholds' else []))
    for n in ns:
        o = env.run('q05r', n, clause)
        if o.result == 'sat':
            # counterexamples with arbitrary code points may not survive grapheme clustering: ask for letters a..z
            d = o.as_dict()
            d['result'] = 'superseded'
            d['note'] = 'sat for arbitrary code points; re-decided over the letters a..z so that the counterexample is a plain string'
            rep.obligations.append(d)
            o = env.run('q05r', n, clause, letters=True)
        ob_add(rep, o)
        if o.result != 'sat':
            continue
        dev_native = None
        if o.classes_seen.get('arithmetic-panic-edge'):
            # a feasible overflow edge: replay in the overflow-checked dev profile as well (the release profile wraps silently)
            try:
                dev_native, _dt = prep.native_build('dev')
            except prep.PrepError:
                dev_native = None
        for m in o.verdict.models:
            s_ = [m['g%d' % i] for i in range(n)]
            minrep, minlen = m['cfg_minimum_repetitions'], m['cfg_minimum_substring_length']
            bad, what, got = replay_cluster(env, s_, minrep, minlen, clause)
            if not bad and dev_native:
                dgot = prep.native_eval(dev_native, [{'op': 'cluster_repetitions', 's': s_, 'min_repetitions': minrep, 'min_substring_length': minlen}])
                if 'panic' in dgot[0]:
                    bad, what, got = True, what + '; the dev (overflow-checked) build panics: %s' % str(dgot[0]['panic'])[:100], dgot
            key = 's=%s,min_repetitions=%d,min_substring_length=%d' % (json.dumps(''.join(map(chr, s_))), minrep, minlen)
            classify(rep, known, o.qid, key, what, {'inputs': {'s': s_, 'min_repetitions': minrep, 'min_substring_length': minlen, 'clause': clause},
                                                    'observed': got}, bad)
    # longer clusters with a fixed equality pattern (nested repetitions need 8-15 graphemes): thresholds stay symbolic
    templates = ['aaabaaab', 'ababcababc'] + (['aabaabcaabaabc', 'ababcababcababc'] if rep.tier == 'thorough' else [])
    for tpl in templates:
        o = ob_add(rep, env.run('q05r', len(tpl), clause, template=tpl))
        if o.result != 'sat':
            continue
        for m in o.verdict.models:
            s_ = [m['g%d' % i] for i in range(len(tpl))]
            minrep, minlen = m['cfg_minimum_repetitions'], m['cfg_minimum_substring_length']
            bad, what, got = replay_cluster(env, s_, minrep, minlen, clause)
            key = 's=%s,min_repetitions=%d,min_substring_length=%d' % (json.dumps(''.join(map(chr, s_))), minrep, minlen)
            classify(rep, known, o.qid, key, what, {'inputs': {'s': s_, 'min_repetitions': minrep, 'min_substring_length': minlen, 'clause': clause}, 'observed': got}, bad)
    if clause == 'thresholds':
        # units that are shorthand-class tokens: one original character, two code points (length must be counted in characters)
        for n in ((2, 3, 4) if rep.tier == 'quick' else (2, 3, 4, 5, 6)):
            o = ob_add(rep, env.run('q05r', n, clause, tokens=True))
            if o.result != 'sat':
                continue
            for m in o.verdict.models:
                digits = {ord('d'): '7', ord('D'): 'x', ord('s'): ' ', ord('S'): 'x', ord('w'): 'x', ord('W'): '-'}
                toks = [m['g%d' % i] for i in range(n)]
                minrep, minlen = m['cfg_minimum_repetitions'], m['cfg_minimum_substring_length']
                # public API: a string whose characters convert to these tokens, with all six conversions decided by the token letters
                text = [ord(digits.get(t, 'x')) for t in toks]
                settings = {'repetitions': True, 'min_repetitions': minrep, 'min_substring_length': minlen}
                for t in set(toks):
                    settings[{ord('d'): 'digits', ord('D'): 'non_digits', ord('s'): 'spaces', ord('S'): 'non_spaces', ord('w'): 'words', ord('W'): 'non_words'}[t]] = True
                got = env.eval([{'op': 'build', 'cases': [text], 'settings': settings}])
                pat = ''.join(map(chr, got[0].get('ok') or []))
                viol = []
                for mm in re.finditer(r'(\(\?:(?:[^()]|\\.)*\)|\\.|.)\{(\d+)(?:,(\d+))?\}', pat):
                    unit, cnt = mm.group(1), int(mm.group(3) or mm.group(2))
                    ulen = len(re.findall(r'\\.|[^\\()?:]', unit)) if unit.startswith('(') else 1
                    if not (cnt > minrep and ulen >= minlen):
                        viol.append('%s{%d}' % (unit, cnt))
                key = 'tokens=%s,min_repetitions=%d,min_substring_length=%d' % (''.join(chr(t) for t in toks), minrep, minlen)
                what = 'build(%s, %s) = %s has quantifier(s) %s below the thresholds' % (json.dumps(''.join(map(chr, text))), ','.join(sorted(k for k, v in settings.items() if v is True)), json.dumps(pat), viol)
                classify(rep, known, o.qid, key, what, {'inputs': {'s': text, 'settings': settings, 'clause': 'tokens'}, 'observed': got}, bool(viol) or 'panic' in got[0])
    # translator validation: concrete strings through the encoding and through the real function
    cases = []
    rnd = random.Random(rep.seed + 5)
    for s_ in ('aa', 'aaa', 'abab', 'aabb', 'abcabc', 'aaaa', 'abba', 'xyzxyz', 'aabaab', 'ababab', 'zzzzz', 'abcab'):
        for (mr, ml) in ((1, 1), (2, 1), (1, 2), (rnd.choice([1, 2, 3]), rnd.choice([1, 2, 3]))):
            inp = {'s': [ord(c) for c in s_], 'min_repetitions': mr, 'min_substring_length': ml}
            cases.append(('cluster_repetitions', inp, dict(inp, op='cluster_repetitions')))
    validate(env, rep, cases)
    return env


def check_c05(rep):
    rep.statement = ('kernel "in-cluster notation change": for every cluster of n <= %d one-code-point graphemes and all positive thresholds, '
                     'GraphemeCluster::convert_repetitions (collect_repeated_substrings, create_ranges_of_repetitions, coalesce_repetitions, '
                     'replace_graphemes_with_repetitions and the recursion into nested units, all executed from MIR) returns graphemes whose '
                     'expansion -- every unit repeated its {k} times, nested renderings expanded -- is exactly the original grapheme sequence; '
                     'counts are exact (min == max) and no panic is reachable.' % (5 if rep.tier == 'quick' else 7))
    rep.outside = ['merging of adjacent repeat counts into ranges while inserting into the trie (Dfa::find_next_state), label matching in the '
                   'minimiser: the known over-matching ["aab","aaac"] -> a{2,3}[bc] (DESIGN 6, F5) lives there and is NOT seen by this check',
                   'printing of {n} / {m,n} and the group around multi-character units (Display for Grapheme)',
                   'graphemes of more than one code point; clusters longer than the bound']
    rep.assumptions += ['HashMap is modelled as an insertion-ordered association list (the real iteration order is arbitrary; the code sorts the '
                        'entries by (length, first index), a total order on distinct keys, before using them)',
                        'itertools sorted_by_key / chunk_by / coalesce / tuple_windows and Vec::splice are modelled by their documented behaviour']
    env = check_cluster(rep, 'notation')
    # printing of {n} / {m,n}: the quantifier must apply to the whole unit
    known, _ = load_known()
    deep = rep.tier == 'thorough'
    for n, ranged in ((1, False), (1, True), (2, False), (2, True)):
        o = decide_unit_obligation(rep, Q.q05g, env.ctx, n, ranged, all_counts=deep)
        if o.result != 'sat':
            continue
        cases_ = o.extra.get('count_cases', [(2, 2)])
        for m in o.verdict.models:
            unit = [m['c%d' % i] for i in range(n)]
            mn, mx = cases_[m.get('count_case', 0)] if m.get('count_case', 0) < len(cases_) else cases_[0]
            esc, surr = bool(m.get('cfg_is_non_ascii_char_escaped')), bool(m.get('cfg_is_astral_code_point_converted_to_surrogate'))
            tests = [unit * k for k in sorted(set([mn, mx]))] if mn != mx else [unit * mx]
            settings = {'repetitions': True, 'escape': esc, 'surrogates': esc and surr, 'capture_groups': bool(m.get('cfg_is_capturing_group_enabled'))}
            got = env.eval([{'op': 'build', 'cases': tests, 'settings': settings}])
            pat = got[0].get('ok') or []
            ms = env.eval([{'op': 'regex_find', 'pattern': pat, 'text': t_} for t_ in tests])
            missed = [t_ for t_, r_ in zip(tests, ms) if not (isinstance(r_.get('ok'), list) and r_['ok'][0] == 0 and r_['ok'][1] == r_['ok'][2])]
            skip = esc and surr and any(x >= 0x10000 for x in unit)
            key = 'unit=%s,count=%s,escape=%s' % ('+'.join(u(x) for x in unit), '%d' % mx if mn == mx else '%d..%d' % (mn, mx), str(esc).lower())
            what = 'build(%s, %s) = %s does not match %s: the quantifier binds to the last character of the unit only' % (
                [''.join(map(chr, t_)) for t_ in tests], ','.join(k for k, v in settings.items() if v), json.dumps(''.join(map(chr, pat))), [''.join(map(chr, t_)) for t_ in missed])
            classify(rep, known, o.qid, key, what, {'inputs': {'quantified': tests, 'settings': settings}, 'observed': got}, bool(missed) and not skip or 'panic' in got[0])
    # an optional part that is itself one quantified unit must keep its group ("u{2}?" would be a lazy quantifier)
    for n_, k_ in ((1, 2), (2, 2)) + (((2, 3), (3, 2)) if rep.tier == 'thorough' else ()):
        o = ob_add(rep, env.run('q05o', n_, k_))
        if o.result != 'sat':
            continue
        for m in o.verdict.models:
            unit = [m['c%d' % i] for i in range(n_)]
            head = [0x7A if 0x7A not in unit else 0x79]
            tests = [head, head + unit * k_]
            st_ = {'repetitions': True, 'capture_groups': bool(m.get('cfg_is_capturing_group_enabled'))}
            bad, what, obs = replay_pipeline(env, tests, st_, 'exact')
            classify(rep, known, 'Q05o', 'unit=%s,count=%d' % (canonical_words([unit]), k_), what, {'inputs': {'pipeline': tests, 'settings': st_, 'clause': 'exact'}, 'observed': obs}, bad)
    # repetitions nested several levels deep: the real conversion followed by the real printer, one symbolic character in a fixed template
    for tpl, esc in ([('xxbxxb', False), ('xxbxxbdxxbxxbd', False), ('xxbxxbdxxbxxbd', True)] + ([('xbxbdxbxbd', False), ('bxxbxxdbxxbxxd', True)] if rep.tier == 'thorough' else [])):
        o = ob_add(rep, env.run('q05n', tpl, esc))
        if o.result != 'sat':
            continue
        for m in o.verdict.models:
            bad, what, obs = replay_nested(env, tpl, m['x'], esc)
            cat_ = 'metacharacter' if m['x'] < 0x80 else 'non-ascii'
            classify(rep, known, 'Q05n', 'template=%s,escape=%s,x=%s' % (tpl, str(esc).lower(), cat_), what,
                     {'inputs': {'nested_template': tpl, 'x': m['x'], 'escape': esc}, 'observed': obs}, bad)
    # the second mechanism the property names: merging of adjacent repeat counts while inserting into the trie
    known, _ = load_known()
    run_trie_obligations(rep, env, known, TRIE_SHAPES_QUICK if rep.tier == 'quick' else TRIE_SHAPES_THOROUGH)
    run_edge_flag_obligations(rep, env, known, [(1, 1), (2, 1)] if rep.tier == 'quick' else [(1, 1), (2, 1), (2, 2), (1, 1, 1)])
    # end to end: build() with conversion of repetitions prints a pattern whose language is still exactly the test cases
    R = {'repetitions': True}
    specs = [((2,), 'letters', R), ((3,), 'letters', R), ((4,), 'letters', R), ((2, 1), 'letters', R),
             # an optional tail that is itself a repetition: "x" and "x" + "yy" (Latin-1, so that escaping matters when it is on)
             ((1, 3), 'latin1', R), ((1, 3), 'latin1', dict(R, escape=True))]
    if rep.tier == 'thorough':
        specs += [((2, 2), 'letters', R), ((5,), 'letters', R), ((3, 2), 'letters', R), ((2,), 'ascii', R)]
    run_text_obligations(rep, env, known, specs)


def check_c13(rep):
    rep.statement = ('kernel "thresholds inside one test case": for every cluster of n <= %d one-code-point graphemes and all positive '
                     'thresholds, every quantified unit that GraphemeCluster::convert_repetitions produces, at any nesting depth, has a '
                     'count strictly greater than minimum_repetitions and spans at least minimum_substring_length graphemes; counts are exact.'
                     % (5 if rep.tier == 'quick' else 7))
    rep.statement += ('  END TO END on the printed pattern (Q01s, build() from MIR): without conversion of repetitions no {n} / {m,n} quantifier is printed (2 test cases of 2 '
                      'characters; and every setting combination of C01/C07); with it, for one test case of 4 (5) characters from 0-9 a-z blank underscore and thresholds '
                      '(1,1), (2,1), (1,2) ((2,2)), every quantifier in the printed pattern -- also ranges created by trie-edge merging -- has an upper count above '
                      'minimum_repetitions and a unit of at least minimum_substring_length characters.')
    rep.outside = ['graphemes of more than one code point; clusters longer than the bound; end to end: thresholds above 2, more or longer test cases']
    rep.assumptions += ['HashMap modelled as an insertion-ordered association list; itertools adaptors by their documented behaviour (see C05)']
    env = check_cluster(rep, 'thresholds')
    # end to end on the printed pattern: no quantifier without the option; with it every quantifier respects both thresholds
    known, _ = load_known()
    R_ = ('repetitions',)
    specs = [((2, 2), (), (1, 1)), ((4,), R_, (1, 1)), ((4,), R_, (2, 1)), ((4,), R_, (1, 2)), ((2, 1), R_, (1, 1))]
    if rep.tier == 'thorough':
        specs += [((5,), R_, (1, 1)), ((5,), R_, (2, 1)), ((5,), R_, (1, 2)), ((5,), R_, (2, 2)), ((3, 2), R_, (1, 1)), ((4,), R_ + ('verbose',), (1, 1)), ((4,), R_ + ('capture',), (1, 2)),
                  ((2, 2), ('verbose', 'ignore_case'), (1, 1)), ((3,), ('digits',), (1, 1))]
    env.prefetch([('q01s', sp_, {}) for sp_ in specs])
    for lens, st_, th in specs:
        o = ob_add(rep, env.run('q01s', lens, st_, th))
        if o.result != 'sat':
            continue
        for m in o.verdict.models:
            cases = [[m['s%d_%d' % (i, j)] for j in range(n)] for i, n in enumerate(lens)]
            bad, what, obs = replay_thresholds(env, cases, st_, th)
            key = 'cases=%s,%s,thresholds=%d/%d' % (canonical_words(cases), ','.join(st_) or 'default', th[0], th[1])
            classify(rep, known, 'Q01s', key, what, {'inputs': {'threshold_cases': cases, 'settings_list': list(st_), 'thresholds': list(th)}, 'observed': obs}, bad)


def replay_thresholds(env, cases, settings, th):
    nat = {NATIVE_SETTING.get(k, k): True for k in settings}
    nat.update({'min_repetitions': th[0], 'min_substring_length': th[1]})
    got = env.eval([{'op': 'build', 'cases': cases, 'settings': nat}])
    pat = ''.join(map(chr, got[0].get('ok') or []))
    viol = []
    for mm in re.finditer(r'(\((?:\?:)?(?:[^()]|\\.)*\)|\\.|[^\\])\{(\d+)(?:,(\d+))?\}', pat):
        unit, cnt = mm.group(1), int(mm.group(3) or mm.group(2))
        ulen = len(re.findall(r'\\.|[^\\()?:\s]', unit)) if unit.startswith('(') else 1
        if 'repetitions' not in settings or not (cnt > th[0] and ulen >= th[1]):
            viol.append(mm.group(0))
    bad, what, obs = replay_settings(env, cases, settings) if tuple(th) == (1, 1) else (False, '', {})
    what2 = 'build(%s, %s, thresholds %d/%d) = %s' % ([''.join(map(chr, c)) for c in cases], ','.join(settings) or 'default', th[0], th[1], json.dumps(pat))
    if viol:
        what2 += ' has quantifier(s) %s %s' % (viol, 'although conversion of repetitions is off' if 'repetitions' not in settings else 'below the thresholds')
    return bool(viol) or bad or 'panic' in got[0], what2 + ('; ' + what if bad else ''), {'pattern': pat}


def replay_nested(env, tpl, x, esc):
    """build() of the one test case that the template describes, with conversion of repetitions: the pattern must compile, be pure ASCII when
    escaping is on, match the test case and reject the same string with x replaced by another character"""
    case = [x if ch == 'x' else ord(ch) for ch in tpl]
    other = [0x71 if x != 0x71 else 0x7A if ch == 'x' else ord(ch) for ch in tpl]
    other = [(0x71 if x != 0x71 else 0x7A) if ch == 'x' else ord(ch) for ch in tpl]
    st_ = {'repetitions': True, 'escape': bool(esc)}
    got = env.eval([{'op': 'build', 'cases': [case], 'settings': st_}])
    pat = got[0].get('ok')
    if pat is None:
        return True, 'build() panics: %s' % str(got[0])[:160], {}
    txt = ''.join(map(chr, pat))
    r = env.eval([{'op': 'regex_find', 'pattern': pat, 'text': case}, {'op': 'regex_find', 'pattern': pat, 'text': other}])
    full = lambda g: isinstance(g.get('ok'), list) and g['ok'][0] == 0 and g['ok'][1] == g['ok'][2]
    problems = []
    if 'compile_error' in str(r[0]):
        problems.append('does not compile')
    else:
        if not full(r[0]):
            problems.append('does not match its test case')
        if full(r[1]):
            problems.append('also matches %s' % json.dumps(''.join(map(chr, other))))
    if esc and any(c >= 0x80 for c in pat):
        problems.append('is not pure ASCII although escaping is on')
    return bool(problems), 'build([%s], repetitions%s) = %s %s' % (json.dumps(''.join(map(chr, case))), ',escape' if esc else '', json.dumps(txt), '; '.join(problems)), {'pattern': pat}


def replay_c05(env, rec):
    if 'pipeline' in rec['inputs']:
        return replay_c02(env, rec)
    if 'nested_template' in rec['inputs']:
        bad, what, _ = replay_nested(env, rec['inputs']['nested_template'], rec['inputs']['x'], rec['inputs']['escape'])
        return bad, what
    if 'threshold_cases' in rec['inputs']:
        bad, what, _ = replay_thresholds(env, rec['inputs']['threshold_cases'], tuple(rec['inputs']['settings_list']), tuple(rec['inputs']['thresholds']))
        return bad, what
    if rec['inputs'].get('edge_flags'):
        bad, what, _ = replay_edge_flags(env)
        return bad, what
    if 'quantified' in rec['inputs']:
        tests, settings = rec['inputs']['quantified'], rec['inputs']['settings']
        got = env.eval([{'op': 'build', 'cases': tests, 'settings': settings}])
        pat = got[0].get('ok') or []
        ms = env.eval([{'op': 'regex_find', 'pattern': pat, 'text': t_} for t_ in tests])
        missed = [t_ for t_, r_ in zip(tests, ms) if not (isinstance(r_.get('ok'), list) and r_['ok'][0] == 0 and r_['ok'][1] == r_['ok'][2])]
        return bool(missed), 'build = %s; not matched: %s' % (json.dumps(''.join(map(chr, pat))), missed)
    if 'clusters' in rec['inputs']:
        return replay_c16(env, rec)
    i = rec['inputs']
    bad, what, _ = replay_cluster(env, i['s'], i['min_repetitions'], i['min_substring_length'], i.get('clause', 'notation'))
    return bad, what


# =========================================================================== C16 (trie stage) -- also run under C05 (edge merging)
def trie_model_clusters(m, shape):
    return [[(m['v%d_%d' % (i, j)], m['k%d_%d' % (i, j)]) for j in range(n)] for i, n in enumerate(shape)]


def canonical_shape(clusters):
    names, out = {}, []
    for cl in clusters:
        parts = []
        for c, k in cl:
            if c not in names:
                names[c] = chr(ord('a') + len(names))
            parts.append(names[c] + ('{%d}' % k if k > 1 else ''))
        out.append(''.join(parts))
    return '|'.join(out)


first_widening = Q.first_widening


def replay_trie(env, clusters):
    """public-API replay: the clusters as plain strings, build() with repetition conversion, then the regex crate on the
    tiny universe of strings over the letters used"""
    strings = [[c for c, k in cl for _ in range(k)] for cl in clusters]
    reach = env.eval([{'op': 'cluster_repetitions', 's': s_, 'min_repetitions': 1, 'min_substring_length': 1} for s_ in strings])
    for cl, r in zip(clusters, reach):
        top = [(row[1], row[2]) for row in r.get('ok', []) if row[0] == 0]
        if top != [([[c]], k) for c, k in cl]:
            return None, 'the clusters are not what convert_repetitions makes of their expansions (unreachable through the public API)', {}
    got = env.eval([{'op': 'build', 'cases': strings, 'settings': {'repetitions': True}}])
    pat = got[0].get('ok')
    if pat is None:
        return True, 'build() panics: %s' % got[0], {'build': got[0]}
    alphabet = sorted(set(c for s_ in strings for c in s_))
    max_len = max(len(s_) for s_ in strings) + 1
    lang = env.eval([{'op': 'regex_language', 'pattern': pat, 'alphabet': alphabet, 'max_len': max_len}])[0].get('ok')
    if not isinstance(lang, list):
        return True, 'pattern %s does not compile' % json.dumps(''.join(map(chr, pat))), {'pattern': pat}
    extra = [w for w in lang if w not in strings]
    missing = [w for w in strings if w not in lang]
    what = 'build(%s, repetitions) = %s' % ([''.join(map(chr, s_)) for s_ in strings], json.dumps(''.join(map(chr, pat))))
    if extra:
        what += ' also matches %s' % [''.join(map(chr, w)) for w in extra[:6]]
    if missing:
        what += ' does not match %s' % [''.join(map(chr, w)) for w in missing]
    return bool(extra or missing), what, {'pattern': pat, 'extra': extra[:10], 'missing': missing}


def run_trie_obligations(rep, env, known, shapes):
    env.prefetch([('q16t', (shape,), {}) for shape in shapes] + [('q16t', (shape,), {'letters': True}) for shape in shapes])
    for shape in shapes:
        o = env.run('q16t', shape)
        if o.result == 'sat':
            d = o.as_dict()
            d['result'] = 'superseded'
            d['note'] = 'sat for arbitrary code points; re-decided over the letters a..z so that counterexamples are plain strings'
            rep.obligations.append(d)
            o = env.run('q16t', shape, letters=True)
        ob_add(rep, o)
        if o.result != 'sat':
            continue
        if 'cap' in (o.verdict.note or ''):
            rep.inconclusive.append('%s: more violating input shapes than the all-SAT cap; the listed set may be incomplete' % o.qid)
        for m in o.verdict.models:
            clusters = trie_model_clusters(m, shape)
            ev = first_widening(clusters)
            key = ('widening=%s' % ev) if ev else ('clusters=%s' % canonical_shape(clusters))
            shape_txt = canonical_shape(clusters)
            bad, what, obs = replay_trie(env, clusters)
            if bad is None:
                rep.replayed += 1
                rep.info.setdefault('unreachable_trie_models', []).append(key)
                continue
            classify(rep, known, 'Q16t', key, 'input shape %s: %s' % (shape_txt, what), {'inputs': {'clusters': clusters}, 'observed': obs}, bad)


def replay_edge_flags(env):
    """public-API replay of a wrong presentation flag on a merged edge label: a two-letter unit repeated 2 and 3 times is merged
    into (ab){2,3}; with exactly one of capturing groups / verbose mode the printed group must be of the requested kind and the
    pattern must still match both test cases"""
    cases = [[0x61, 0x62] * 2, [0x61, 0x62] * 3]
    problems, obs = [], {}
    for extra in ({'capture_groups': True}, {'verbose': True}):
        st_ = dict(extra, repetitions=True)
        got = env.eval([{'op': 'build', 'cases': cases, 'settings': st_}])
        pat = got[0].get('ok')
        if pat is None:
            problems.append('build() panics with %s' % sorted(st_))
            continue
        txt = ''.join(map(chr, pat))
        obs[','.join(sorted(st_))] = txt
        found = env.eval([{'op': 'regex_find', 'pattern': pat, 'text': c} for c in cases])
        if any(not (isinstance(r.get('ok'), list) and r['ok'][0] == 0 and r['ok'][1] == r['ok'][2]) for r in found):
            problems.append('build(["abab","ababab"], %s) = %s does not match its test cases' % (','.join(sorted(st_)), json.dumps(txt)))
        if extra.get('capture_groups') and '(?:' in txt:
            problems.append('build(["abab","ababab"], %s) = %s has a non-capturing group' % (','.join(sorted(st_)), json.dumps(txt)))
    return bool(problems), '; '.join(problems) or 'edge flags not observable', obs


def run_edge_flag_obligations(rep, env, known, shapes):
    env.prefetch([('q16t', (shape, 3, False, 'flags'), {}) for shape in shapes])
    for shape in shapes:
        o = ob_add(rep, env.run('q16t', shape, 3, False, 'flags'))
        if o.result != 'sat':
            continue
        bad, what, obs = replay_edge_flags(env)
        m = o.verdict.models[0]
        key = 'edge-flags,capture=%s,colorize=%s,verbose=%s' % tuple(str(bool(m.get(k))).lower() for k in ('cfg_is_capturing_group_enabled', 'cfg_is_output_colorized', 'cfg_is_verbose_mode_enabled'))
        classify(rep, known, 'Q16f', key, what, {'inputs': {'edge_flags': True}, 'observed': obs}, bad)


def run_union_obligations(rep, env, known, max_letters, max_total):
    """Q16u over every ordered pair of expression shapes of the enumerated family"""
    fam = [f for f in Q.skeleton_family(max_letters, max_words=3, max_len=3)]
    pairs = [(a, b) for a in fam for b in fam if Q.skel_words(a)[1] + Q.skel_words(b)[1] <= max_total]
    env.prefetch([('q16u', (a, b), {}) for a, b in pairs])
    n_unsat, shown = 0, 0
    for a, b in pairs:
        o = env.run('q16u', a, b)
        if o.result == 'unsat':
            n_unsat += 1
            if shown < 6:          # keep the evidence readable: a few full records, the rest as one summary record
                shown += 1
                ob_add(rep, o)
            continue
        ob_add(rep, o)
        if o.result != 'sat':
            continue
        repro_here = 0
        for m in o.verdict.models:
            cases = [[m['x%d' % i] for i in w] for w in o.extra['words_ix']]
            cases = [list(t) for t in sorted(set(tuple(c) for c in cases), key=lambda c: (len(c), c))]
            bad, what, obs = replay_pipeline(env, cases, {}, 'exact')
            if not bad:
                # whether the elimination calls union with these operands depends on what else is in the automaton: look for ONE more
                # test case (over the letters used plus a fresh one) with which the real build() shows the difference
                import itertools
                alpha = sorted(set(c for t in cases for c in t)) + [0x71 if 0x71 not in [c for t in cases for c in t] else 0x7A]
                extras = [list(w) for n_ in (1, 2, 3) for w in itertools.product(alpha, repeat=n_) if list(w) not in cases][:200]
                got = env.eval([{'op': 'build', 'cases': cases + [w], 'settings': {}} for w in extras])
                for w, g in zip(extras, got):
                    if 'ok' not in g:
                        continue
                    txt = ''.join(map(chr, g['ok']))
                    if '*' in txt or '+' in txt.replace('\\+', ''):
                        bad, what, obs = replay_pipeline(env, cases + [w], {}, 'exact')
                        if bad:
                            cases = cases + [w]
                            break
                if not bad:
                    short = [w for w in extras if len(w) <= 2][:24]
                    pairs2 = [(u_, w_) for i_, u_ in enumerate(short) for w_ in short[i_ + 1:]]
                    got = env.eval([{'op': 'build', 'cases': cases + [u_, w_], 'settings': {}} for u_, w_ in pairs2])
                    for (u_, w_), g in zip(pairs2, got):
                        txt = ''.join(map(chr, g.get('ok') or []))
                        if '*' in txt or '+' in txt.replace('\\+', ''):
                            bad, what, obs = replay_pipeline(env, cases + [u_, w_], {}, 'exact')
                            if bad:
                                cases = cases + [u_, w_]
                                break
            if bad:
                repro_here += 1
                classify(rep, known, 'Q16u', 'cases=%s' % canonical_words(cases), what, {'inputs': {'pipeline': cases, 'settings': {}, 'clause': 'exact'}, 'observed': obs}, True)
                if repro_here >= 3:
                    break
        if not repro_here:
            rep.nonrepro.append('%s: %d input(s) on which Expression::union does not denote the union; none reproduces through build() (the elimination never '
                                'calls union with these operands for those test cases)' % (o.qid, len(o.verdict.models)))
    rep.obligations.append({'id': 'Q16u[summary]', 'title': Q.q16u.__doc__, 'engine': 'mirsym', 'result': 'unsat' if n_unsat == len(pairs) else 'mixed',
                            'input_domain': '%d ordered pairs of expression shapes (<= %d letters each, <= %d together); %d unsat' % (len(pairs), max_letters, max_total, n_unsat),
                            'paths': 0, 'queries': 0})


def replay_minimised(env, cases):
    """public-API replay for the minimisation stage: default build(), then the regex crate on the universe of short strings"""
    got = env.eval([{'op': 'build', 'cases': cases, 'settings': {}}])
    pat = got[0].get('ok')
    if pat is None:
        return True, 'build() panics: %s' % got[0], {}
    alphabet = sorted(set(c for s_ in cases for c in s_)) or [0x61]
    max_len = max(len(s_) for s_ in cases) + 1
    lang = env.eval([{'op': 'regex_language', 'pattern': pat, 'alphabet': alphabet, 'max_len': max_len}])[0].get('ok')
    if not isinstance(lang, list):
        return True, 'pattern %s does not compile' % json.dumps(''.join(map(chr, pat))), {'pattern': pat}
    extra = [w for w in lang if w not in cases]
    missing = [w for w in cases if w not in lang]
    what = 'build(%s) = %s' % ([''.join(map(chr, s_)) for s_ in cases], json.dumps(''.join(map(chr, pat))))
    if extra:
        what += ' also matches %s' % [''.join(map(chr, w)) for w in extra[:6]]
    if missing:
        what += ' does not match %s' % [''.join(map(chr, w)) for w in missing]
    return bool(extra or missing), what, {'pattern': pat, 'extra': extra[:10], 'missing': missing}


def run_minimiser_obligations(rep, env, known, specs):
    env.prefetch([('q16m', (shape,), {'max_count': max_count, 'with_empty': with_empty}) for shape, max_count, with_empty in specs])
    for shape, max_count, with_empty in specs:
        o = env.run('q16m', shape, max_count=max_count, with_empty=with_empty)
        if o.result == 'sat':
            d = o.as_dict()
            d['result'] = 'superseded'
            d['note'] = 'sat for arbitrary code points; re-decided over the letters a..z so that counterexamples are plain strings'
            rep.obligations.append(d)
            o = env.run('q16m', shape, max_count=max_count, with_empty=with_empty, letters=True)
        ob_add(rep, o)
        if o.result != 'sat':
            continue
        for m in o.verdict.models:
            clusters = trie_model_clusters(m, shape)
            cases = ([[]] if with_empty else []) + [[c for c, k in cl for _ in range(k)] for cl in clusters]
            bad, what, obs = replay_minimised(env, cases)
            lost_empty = with_empty and [] in obs.get('missing', [[]] if bad else [])
            key = 'empty-test-case-lost' if (with_empty and obs.get('missing') == [[]] and not obs.get('extra')) else 'cases=%s%s' % ('""|' if with_empty else '', canonical_shape(clusters))
            classify(rep, known, 'Q16m', key, what, {'inputs': {'min_cases': cases}, 'observed': obs}, bad)


MIN_SPECS_QUICK = [((1,), 1, False), ((1, 1), 1, False), ((2, 1), 1, False), ((2, 2), 1, False), ((2, 1), 2, False),
                   ((1,), 1, True), ((2, 1), 1, True)]
MIN_SPECS_THOROUGH = MIN_SPECS_QUICK + [((2, 2), 2, False), ((2, 2, 1), 1, False), ((3, 2), 1, False), ((2, 2), 1, True)]     # (3,3) exceeds the 16M step budget (sorted alphabet: more forks)
TRIE_SHAPES_QUICK = [(1, 1), (2, 1), (1, 2), (2, 2)]
TRIE_SHAPES_THOROUGH = TRIE_SHAPES_QUICK + [(1, 1, 1), (2, 2, 1), (3, 2)]


def check_c16(rep):
    rep.statement = ('(3) state elimination: Expression::from (Brzozowski elimination over ndarray matrices with union / concatenate simplifications) run on the minimised automaton returns an expression with the same language (2-3 clusters of 1-3 graphemes). (2) minimisation stage: Dfa::minimize (Hopcroft refinement over sets of states, get_parent_states) and recreate_graph, executed '
                     'from MIR, return an automaton with the same language as the trie; with single-symbol edges it is deterministic and no two '
                     'reachable states share a right language (2-3 clusters of 1-3 graphemes; also with counts <= 2 for the language clause). On '
                     'this tree the EMPTY test case is lost (known finding F7: recreate_graph marks a state final only as the target of an edge). '
                     '(1) trie stage: for the stated shapes of input (2-3 clusters of 1-3 one-code-point graphemes with exact repeat counts '
                     '1..=3, the form the cluster converter produces) the automaton built by Dfa::from WITHOUT minimisation (new, insert, '
                     'return_next_state, find_next_state with its edge-label widening, add_new_state -- executed from MIR over a concrete-shape '
                     'model of petgraph\'s StableGraph) accepts exactly the union of the inserted clusters. On this tree it does NOT: the solver '
                     'returns the complete set of violating input shapes within the bound (known finding F5, edge widening conflates prefixes).')
    rep.statement += ('  (4) printing: the whole of build() incl. Display for RegExp / Expression / Grapheme and format.rs from MIR; the printed pattern, parsed '
                      'back, denotes exactly the test cases (2 test cases of 1-2 letters; 3 test cases of 1 printable ASCII character, so character classes with '
                      'ranges and escapes) -- the same obligations as C02.')
    rep.outside = ['HashSet iteration orders other than insertion order (see C10 (C))',
                   'clusters with multi-code-point graphemes, counts > 3, more clusters than the stated shapes']
    rep.assumptions += ['petgraph StableGraph is modelled with a concrete shape: nodes, edges in insertion order, neighbors() newest edge first, '
                        'update_edge replaces the weight of an existing edge; BTreeSet/HashSet as duplicate-free lists']
    env = Env(rep)
    known, _ = load_known()
    run_trie_obligations(rep, env, known, TRIE_SHAPES_QUICK if rep.tier == 'quick' else TRIE_SHAPES_THOROUGH)
    run_edge_flag_obligations(rep, env, known, [(1, 1), (2, 1)] if rep.tier == 'quick' else [(1, 1), (2, 1), (2, 2), (1, 1, 1)])
    run_minimiser_obligations(rep, env, known, MIN_SPECS_QUICK if rep.tier == 'quick' else MIN_SPECS_THOROUGH)
    # (3) state elimination: the expression denotes the language of the automaton it is given
    e_shapes = [(1,), (1, 1), (2, 1), (2, 2)] if rep.tier == 'quick' else [(1,), (1, 1), (2, 1), (2, 2), (2, 2, 1), (3, 2)]
    env.prefetch([('q16e', (shape,), {}) for shape in e_shapes])
    for shape in e_shapes:
        o = ob_add(rep, env.run('q16e', shape))
        if o.result == 'sat':
            for m in o.verdict.models:
                cases = [[m['v%d_%d' % (i, j)] for j in range(n)] for i, n in enumerate(shape)]
                bad, what, obs = replay_minimised(env, cases)
                classify(rep, known, 'Q16e', 'cases=%s' % canonical_shape([[(c, 1) for c in s_] for s_ in cases]), what,
                         {'inputs': {'min_cases': cases}, 'observed': obs}, bad)
    # (3b) Expression::union as a unit, over every ordered pair of small expression shapes
    if rep.tier == 'quick':
        run_union_obligations(rep, env, known, 3, 5)
    else:
        run_union_obligations(rep, env, known, 4, 7)
    # (4) the printed pattern denotes that same language: the whole of build() incl. Display (format.rs: classes with ranges, groups, escaping)
    run_default_text_obligations(rep, env, known, [((2, 1), False, 'letters'), ((1, 1, 1), False, 'ascii')] +
                                 ([((2, 2), False, 'letters'), ((1, 1, 1), False, 'letters'), ((2,), False, 'ascii'), ((2, 1), False, 'ascii')] if rep.tier == 'thorough' else []))


def replay_c16(env, rec):
    if rec['inputs'].get('edge_flags'):
        bad, what, _ = replay_edge_flags(env)
        return bad, what
    if 'pipeline' in rec['inputs']:
        return replay_c02(env, rec)
    if 'min_cases' in rec['inputs']:
        bad, what, _ = replay_minimised(env, rec['inputs']['min_cases'])
        return bool(bad), what
    bad, what, _ = replay_trie(env, [[tuple(x) for x in cl] for cl in rec['inputs']['clusters']])
    return bool(bad), what


# =========================================================================== C06 / C08  (Display for RegExp on literal ASTs)
PRINT_FLAGS = [('cfg_is_case_insensitive_matching', 'ignore_case'), ('cfg_is_verbose_mode_enabled', 'verbose'),
               ('cfg_is_start_anchor_disabled', 'no_start_anchor'), ('cfg_is_end_anchor_disabled', 'no_end_anchor'),
               ('cfg_is_non_ascii_char_escaped', 'escape'), ('cfg_is_astral_code_point_converted_to_surrogate', 'surrogates')]


def replay_printed_literal(env, seq, settings):
    """build([s]) with the settings; the pattern must compile, carry the requested flags and anchors, and -- on a tiny universe
    around the test case -- accept the test case and nothing else"""
    got = env.eval([{'op': 'build', 'cases': [seq], 'settings': settings}])
    if 'ok' not in got[0]:
        return True, 'build() panics: %s' % str(got[0])[:160], got
    pat = got[0]['ok']
    text = ''.join(map(chr, pat))
    problems = []
    flag = '(?ix)' if settings.get('ignore_case') and settings.get('verbose') else '(?i)' if settings.get('ignore_case') else '(?x)' if settings.get('verbose') else ''
    if not text.startswith(flag) or (not flag and text.startswith('(?')):
        problems.append('flag prefix is not %r' % flag)
    body = re.sub(r'\s+', '', text[len(flag):]) if settings.get('verbose') else text[len(flag):]
    if body.startswith('^') == bool(settings.get('no_start_anchor')):
        problems.append('start anchor %s' % ('present although disabled' if settings.get('no_start_anchor') else 'missing'))
    ends = body.endswith('$') and not body.endswith('\\$')
    if ends == bool(settings.get('no_end_anchor')):
        problems.append('end anchor %s' % ('present although disabled' if settings.get('no_end_anchor') else 'missing'))
    if not (settings.get('escape') and settings.get('surrogates') and any(c >= 0x10000 for c in seq)):
        alphabet = sorted(set(seq + [0x20, 0x09, 0x78, 0x2003, 0xA0]))
        anchored = '^' + text if False else text
        lang = env.eval([{'op': 'regex_language', 'pattern': pat, 'alphabet': alphabet, 'max_len': len(seq) + 1}])[0].get('ok')
        if not isinstance(lang, list):
            problems.append('the pattern does not compile')
        else:
            if seq not in lang:
                problems.append('does not match the test case')
            same = lambda w: ''.join(map(chr, w)).lower() == ''.join(map(chr, seq)).lower() if settings.get('ignore_case') else w == seq
            extra = [w for w in lang if not same(w)]
            if extra:
                problems.append('also matches %s' % [''.join(map(chr, w)) for w in extra[:4]])
    return bool(problems), 'build([%s], %s) = %s: %s' % ('+'.join(u(x) for x in seq), ','.join(k for k, v in settings.items() if v), json.dumps(text), '; '.join(problems) or 'ok'), got


def run_printer_obligations(rep, env, known, which):
    obs = []
    if which == 'C06':
        obs.append(ob_add(rep, env.run('q06d', 1)))
        # two ARBITRARY code points under all settings did not finish within 16M steps (43 min): the two-grapheme case is decided over
        # alphanumerics (C08's obligations) and end to end (Q02t variants below); every code point on its own is decided above
    else:
        obs.append(ob_add(rep, env.run('q06d', 1, alnum=True)))
        obs.append(ob_add(rep, env.run('q06d', 2, alnum=True)))
    for o in obs:
        if o.result != 'sat':
            continue
        for m in o.verdict.models:
            seq = [m[k] for k in sorted((k for k in m if re.fullmatch(r'c\d+', k)), key=lambda s_: int(s_[1:]))]
            settings = {name: bool(m.get(var, False)) for var, name in PRINT_FLAGS}
            bad, what, got = replay_printed_literal(env, seq, settings)
            key = 'c=%s,%s' % ('+'.join(u(x) for x in seq), ','.join(k for k, v in sorted(settings.items()) if v) or 'default')
            classify(rep, known, o.qid, key, what, {'inputs': {'print': seq, 'settings': settings}, 'observed': got}, bad)


def check_c06(rep):
    rep.statement = ('kernel "printing of a literal pattern": Display for RegExp on an AST that is one literal of one one-code-point '
                     'grapheme, for EVERY scalar value and every combination of the case-insensitive, verbose, anchor, escaping, surrogate and '
                     'capturing settings: the text starts with exactly the flag group the settings ask for ((?i), (?x), (?ix) or none), carries '
                     '^ / $ exactly when not disabled, and writes each code point in a form that the regex crate reads as exactly that literal -- '
                     'under (?x) too: spaces, #, line breaks and every other whitespace must be escaped, not ignored and not widened to a class.')
    rep.statement += ('  END TO END (Q02t variants, build() from MIR): with verbose mode, capturing groups or escaping of non-ASCII characters the printed pattern still '
                      'denotes exactly the test cases, the (?x) text stays valid, every group is of the requested kind, escaped output is pure ASCII (2 test cases of 1-2 letters / '
                      'printable ASCII / Latin-1 characters).')
    rep.outside = ['two arbitrary code points in one literal (did not finish; decided over alphanumerics in C08)', 'syntax highlighting (C15)',
                   'more or longer test cases than the bound']
    env = Env(rep)
    known, _ = load_known()
    run_printer_obligations(rep, env, known, 'C06')
    # end to end on small inputs: verbose mode and capturing groups leave the language of the printed pattern unchanged
    # (= the test cases), the (?x) text stays valid, and the group kind is the requested one everywhere
    specs = [((2, 1), 'letters', {'verbose': True}), ((2, 1), 'letters', {'capture': True}), ((1, 1), 'ascii', {'verbose': True}),
             ((2, 1), 'letters', {'verbose': True, 'capture': True}), ((2, 1), 'latin1', {'escape': True}), ((1, 1), 'latin1', {'escape': True, 'verbose': True})]
    if rep.tier == 'thorough':
        specs += [((2, 2), 'letters', {'verbose': True}), ((2,), 'ascii', {'verbose': True}), ((2, 2), 'letters', {'capture': True}), ((1, 1), 'ascii', {'capture': True}),
                  ((2, 1), 'latin1', {'escape': True, 'capture': True}), ((1, 1), 'emoticons', {'escape': True, 'verbose': True})]
    run_text_obligations(rep, env, known, specs)


def canonical_words(cases):
    names = {}
    return '|'.join(''.join(names.setdefault(c, chr(ord('a') + len(names))) for c in s_) or '""' for s_ in cases)


def replay_search(env, cases, settings):
    """the search clause of C08 on the real build: build() with these settings, then Regex::find on every test case"""
    got = env.eval([{'op': 'build', 'cases': cases, 'settings': settings}])
    pat = got[0].get('ok')
    if pat is None:
        return True, 'build() panics: %s' % str(got[0])[:200], {}
    found = env.eval([{'op': 'regex_find', 'pattern': pat, 'text': c} for c in cases])
    partial = []
    for c, r in zip(cases, found):
        span = r.get('ok')
        if not (isinstance(span, list) and span[0] == 0 and span[1] == span[2]):
            partial.append((c, span))
    what = 'build(%s, %s) = %s' % ([''.join(map(chr, s_)) for s_ in cases], ','.join(sorted(k for k, v in settings.items() if v)), json.dumps(''.join(map(chr, pat))))
    if partial:
        what += '; searching %s finds %s' % (json.dumps(''.join(map(chr, partial[0][0]))),
                                             'nothing' if partial[0][1] is None else 'only bytes %d..%d of %d' % tuple(partial[0][1]))
    return bool(partial), what, {'pattern': pat, 'partial': [[c, sp] for c, sp in partial]}


SEARCH_SMAP = {'no_start_anchor': 'no_start_anchor', 'no_end_anchor': 'no_end_anchor', 'capture': 'capture_groups', 'repetitions': 'repetitions', 'digits': 'digits',
               'words': 'words', 'verbose': 'verbose'}


def run_search_obligations(rep, env, known, e2e_specs, unit_specs):
    """C08 clause 2.  e2e_specs: [(lens, settings)] through the whole of build(); unit_specs: [(skeleton, settings, second_ast)] through the
    self-check block of RegExp::from with the automaton stages replaced by an arbitrary expression of that shape"""
    unit_specs = [u_ if len(u_) == 4 else u_ + (None,) for u_ in unit_specs]
    env.prefetch([('q08s', (e_[0], e_[1], 'letters', e_[2] if len(e_) == 3 else None), {}) for e_ in e2e_specs] +
                 [('q08u', (sk, settings, second, kinds), {}) for sk, settings, second, kinds in unit_specs])
    e2e_specs = [e_ if len(e_) == 3 else e_ + (None,) for e_ in e2e_specs]
    for i_, (lens, settings, runs) in enumerate(e2e_specs):
        o = ob_add(rep, env.run('q08s', lens, settings, 'letters', runs))
        if o.result != 'sat':
            continue
        nat = {SEARCH_SMAP[k]: True for k, v in settings.items() if v}
        for m in o.verdict.models:
            cases = [[m['s%d_%d' % (i, j)] for j in range(n)] for i, n in enumerate(lens)]
            bad, what, obs = replay_search(env, cases, nat)
            key = 'search=%s,%s' % (canonical_words(sorted(cases, key=lambda c: (len(c), c))), ','.join(sorted(nat)))
            classify(rep, known, 'Q08s', key, what, {'inputs': {'search': cases, 'settings': nat}, 'observed': obs}, bad)
    unit_only = 0
    for i_, (sk, settings, second, kinds) in enumerate(unit_specs):
        o = ob_add(rep, env.run('q08u', sk, settings, second, kinds))
        if o.result != 'sat':
            continue
        nat = {SEARCH_SMAP[k]: True for k, v in settings.items() if v}
        repro_here = 0
        for m in o.verdict.models:
            cases = [[m[v_] for v_ in w] for w in o.extra['cases_vars']]
            cases = [list(t) for t in sorted(set(tuple(c) for c in cases), key=lambda c: (len(c), c))]
            bad, what, obs = replay_search(env, cases, nat)
            key = 'search=%s,%s' % (canonical_words(cases), ','.join(sorted(nat)))
            if bad:
                repro_here += 1
                classify(rep, known, 'Q08s', key, what, {'inputs': {'search': cases, 'settings': nat}, 'observed': obs}, True)
                if repro_here >= 4:
                    break           # enough witnesses for this obligation
            else:
                unit_only += 1
        if not repro_here:
            # the unit contract is broken for this shape, but none of the enumerated counterexamples is reachable through build():
            # the automaton stages never hand over such an expression for these test cases.  Not a violation of the property; undecided.
            rep.nonrepro.append('%s: %d counterexample(s) of the unit contract, none reproduces through build() (the automaton stages do not '
                                'produce an expression of this shape for those test cases)' % (o.qid, len(o.verdict.models)))
    rep.info['unit_counterexamples_not_reachable_through_build'] = unit_only


SK = {
    'x|xx': ('A', [('L', 1), ('L', 2)]),
    'xx?': ('C', ('L', 1), ('O', ('L', 1))),
    'xx?|xx': ('A', [('C', ('L', 1), ('O', ('L', 1))), ('L', 2)]),
    '(x|xx)x': ('C', ('A', [('L', 1), ('L', 2)]), ('L', 1)),
    'x(x|xx)': ('C', ('L', 1), ('A', [('L', 1), ('L', 2)])),
    'x(xx)?|(xx|x)x': ('A', [('C', ('L', 1), ('O', ('L', 2))), ('C', ('A', [('L', 2), ('L', 1)]), ('L', 1))]),
    'x(xx)?|x?xx': ('A', [('C', ('L', 1), ('O', ('L', 2))), ('C', ('O', ('L', 1)), ('L', 2))]),
}


def check_c08(rep):
    rep.statement = ('clause 1 (anchors as requested): Display for RegExp on a literal AST of 1-2 alphanumeric code points under every combination of '
                     'settings prints ^ first (after the flag group) exactly when the start anchor is not disabled and $ last exactly when the end '
                     'anchor is not disabled; end to end (build() from MIR) for 2 test cases of 1-2 letters with one anchor disabled the right anchor '
                     'is printed and the body still denotes exactly the test cases.  Clause 2 (search returns the whole test case): the printed '
                     'pattern is parsed into an AST and searched with the leftmost-first semantics of a backtracking engine (alternatives left to '
                     'right, greedy ? and {m,n}); (a) end to end for 2-3 test cases of 1-2 (3) letters with the end anchor or both anchors disabled '
                     '-- RegExp::from including its self-check (Regex::new, find_iter().count(), find, rotation, both fall-backs) from MIR; (b) the '
                     'self-check block as a unit: Dfa::from / Expression::from are replaced by stubs handing over ANY expression of a given shape '
                     '(up to 7 letters, 4 words of <= 3 letters; %s) whose language is the set of test cases, the rest of RegExp::from and '
                     'Display run from MIR, and every test case must be found in full; also with conversion of digits (leaves that are digits become \\d through the real '
                     'convert_to_char_classes, so that test cases are prefixes of one another only at class level).' % (
                         '%d shapes' % len(SK) if rep.tier == 'quick' else 'every shape of the enumerated family up to 4 letters (VERIF_C08_FAMILY raises it) plus the 7-letter shapes'))
    rep.outside = ['the regex crate itself (its documented leftmost-first semantics is modelled, on the syntax subset grex prints; every counterexample is '
                   'replayed with the real Regex::find)', 'test cases outside a..z, verbose mode and syntax highlighting in the self-check (Regex::to_string / '
                   'replace_all are not modelled)', 'expression shapes outside the enumerated family; more or longer test cases end to end']
    rep.assumptions += ['unit obligations assume only that the expression handed over by the automaton stages denotes exactly the test cases (decided '
                        'within its own bounds by C16 / C02); counterexamples are reported only if they reproduce through build()']
    env = Env(rep)
    known, _ = load_known()
    run_printer_obligations(rep, env, known, 'C08')
    # end to end on small inputs: one anchor disabled -> exactly the other one is printed and the body still denotes the test cases
    specs = [((2, 1), 'letters', {'no_start_anchor': True}), ((2, 1), 'letters', {'no_end_anchor': True}), ((1, 1), 'letters', {'no_start_anchor': True})]
    if rep.tier == 'thorough':
        specs += [((2, 2), 'letters', {'no_start_anchor': True}), ((2, 2), 'letters', {'no_end_anchor': True}), ((1, 1), 'ascii', {'no_end_anchor': True})]
    run_text_obligations(rep, env, known, specs)
    E, S, B = {'no_end_anchor': True}, {'no_start_anchor': True}, {'no_start_anchor': True, 'no_end_anchor': True}
    ER, BR = dict(E, repetitions=True), dict(B, repetitions=True)
    # with conversion of repetitions: "x", "xy", "zzz" with the third test case one repeated letter (known finding F11 lives here)
    e2e = [((1, 1), E), ((2, 1), E), ((2, 1), B), ((2, 1), S), ((2, 2), B), ((1, 2, 3), ER, (2,)), ((1, 2, 3), BR, (2,))]
    ED, BD = dict(E, digits=True), dict(B, digits=True)
    unit = [(SK['x|xx'], E, 'same'), (SK['xx?|xx'], E, 'same'), (SK['xx?|xx'], B, 'same'), (SK['xx?|xx'], B, 'literals'), (SK['x(xx)?|(xx|x)x'], E, 'same'),
            (SK['x(xx)?|(xx|x)x'], BD, 'same', 'ddldlld'), (SK['xx?|xx'], ED, 'same', 'dldd'),
            # verbose mode: the candidates of both DFA stages fail the self-check (their text keeps its indentation), so the last-resort alternation is printed
            (SK['xx?|xx'], dict(E, verbose=True), 'same'), (SK['x(xx)?|(xx|x)x'], dict(E, verbose=True), 'same')]
    if rep.tier == 'thorough':
        e2e += [((2, 2), E), ((2, 2), S), ((2, 2, 1), E), ((2, 2, 1), B), ((3, 2), E)]
        fam = Q.skeleton_family(int(os.environ.get('VERIF_C08_FAMILY', '4')))
        fam = [f for f in fam if len(set(len(w) for w in Q.skel_words(f)[0])) > 1]      # all words of one length: no word can be a prefix of another
        unit = [(f, st_, 'same') for f in fam for st_ in (E, B)] + [(SK['x(xx)?|(xx|x)x'], st_, sec) for st_ in (E, B) for sec in ('same', 'literals')] + \
               [(SK['x(xx)?|x?xx'], st_, 'same') for st_ in (E, B)] + [(SK['xx?|xx'], S, 'same'), (SK['xx?|xx'], B, 'literals')]
        import itertools
        allk = [''.join(k) for k in itertools.product('dl', repeat=7) if 'd' in k]
        # digit kinds for the 7-letter shape: those in which both branches start with a digit (the prefix relation at class level needs that)
        unit += [(SK['x(xx)?|(xx|x)x'], st_, 'same', k) for st_ in (ED, BD) for k in allk if k[0] == 'd' and k[3] == 'd']
        unit += [(SK['xx?|xx'], st_, 'same', ''.join(k)) for st_ in (ED, BD) for k in itertools.product('dl', repeat=4) if 'd' in k]
    run_search_obligations(rep, env, known, e2e, unit)


def replay_c08(env, rec):
    if 'search' in rec['inputs']:
        bad, what, _ = replay_search(env, rec['inputs']['search'], rec['inputs']['settings'])
        return bad, what
    if 'pipeline' in rec['inputs']:
        bad, what, _ = replay_pipeline(env, rec['inputs']['pipeline'], rec['inputs']['settings'], rec['inputs'].get('clause', 'exact'))
        return bad, what
    return replay_c06(env, rec)


def replay_c06(env, rec):
    bad, what, _ = replay_printed_literal(env, rec['inputs']['print'], rec['inputs']['settings'])
    return bad, what


# =========================================================================== C01 / C02  (whole pipeline up to the AST)
def replay_pipeline(env, cases, settings, clause):
    got = env.eval([{'op': 'build', 'cases': cases, 'settings': settings}])
    pat = got[0].get('ok')
    if pat is None:
        return True, 'build() panics: %s' % str(got[0])[:200], {}
    if settings.get('escape') and any(c >= 0x80 for c in pat):
        return True, 'build(%s, %s) = %s is not pure ASCII' % ([''.join(map(chr, s_)) for s_ in cases], ','.join(sorted(settings)), json.dumps(''.join(map(chr, pat)))), {'pattern': pat}
    if settings.get('surrogates'):
        # surrogate escapes are not regex-crate syntax: re-pair them into the code point before compiling
        txt = re.sub(r'\\u\{(d[89ab][0-9a-f]{2})\}\\u\{(d[c-f][0-9a-f]{2})\}',
                     lambda m_: '\\u{%x}' % (0x10000 + ((int(m_.group(1), 16) - 0xD800) << 10) + (int(m_.group(2), 16) - 0xDC00)), ''.join(map(chr, pat)))
        pat = [ord(ch) for ch in txt]
    alphabet = sorted(set(c for s_ in cases for c in s_)) or [0x61]
    max_len = max(len(s_) for s_ in cases) + 1
    lang = env.eval([{'op': 'regex_language', 'pattern': pat, 'alphabet': alphabet, 'max_len': max_len}])[0].get('ok')
    if not isinstance(lang, list):
        return True, 'pattern %s does not compile' % json.dumps(''.join(map(chr, pat))), {'pattern': pat}
    extra = [w for w in lang if w not in cases]
    missing = [w for w in cases if w not in lang]
    what = 'build(%s%s) = %s' % ([''.join(map(chr, s_)) for s_ in cases], ', repetitions' if settings.get('repetitions') else '', json.dumps(''.join(map(chr, pat))))
    if extra:
        what += ' also matches %s' % [''.join(map(chr, w)) for w in extra[:6]]
    if missing:
        what += ' does not match %s' % [''.join(map(chr, w)) for w in missing]
    bad = bool(missing) if clause == 'sound' else bool(extra or missing)
    return bad, what, {'pattern': pat, 'extra': extra[:10], 'missing': missing}


def run_pipeline_obligations(rep, env, known, specs, clause):
    env.prefetch([('q02e', (lens, with_empty, clause, repetitions), {}) for lens, with_empty, repetitions in specs])
    for lens, with_empty, repetitions in specs:
        o = ob_add(rep, env.run('q02e', lens, with_empty, clause, repetitions))
        if o.result != 'sat':
            continue
        for m in o.verdict.models:
            cases = ([[]] if with_empty else []) + [[m['s%d_%d' % (i, j)] for j in range(n)] for i, n in enumerate(lens)]
            settings = {'repetitions': True} if repetitions else {}
            bad, what, obs = replay_pipeline(env, cases, settings, clause)
            names = {}
            shape_txt = '|'.join(''.join(names.setdefault(c, chr(ord('a') + len(names))) for c in s_) or '""' for s_ in cases)
            if with_empty and obs.get('missing') == [[]] and not obs.get('extra'):
                key = 'empty-test-case-lost'
            else:
                ev = Q.first_widening([[(c, 1) for c in s_] for s_ in cases]) if not repetitions else None
                key = 'cases=%s%s' % (shape_txt, ',repetitions' if repetitions else '')
            classify(rep, known, o.qid.split('[')[0], key, what, {'inputs': {'pipeline': cases, 'settings': settings, 'clause': clause}, 'observed': obs}, bad)


def run_text_obligations(rep, env, known, specs):
    """end-to-end obligations on the printed pattern under non-default settings; specs: [(lens, domain, settings)]"""
    smap = {'repetitions': 'repetitions', 'verbose': 'verbose', 'capture': 'capture_groups', 'no_start_anchor': 'no_start_anchor',
            'no_end_anchor': 'no_end_anchor', 'escape': 'escape', 'surrogates': 'surrogates'}
    env.prefetch([('q02t', (lens, False, dom, settings), {}) for lens, dom, settings in specs])
    for lens, dom, settings in specs:
        o = ob_add(rep, env.run('q02t', lens, False, dom, settings))
        if o.result != 'sat':
            continue
        nat_settings = {smap[k]: True for k, v in settings.items() if v}
        for m in o.verdict.models:
            cases = [[m['s%d_%d' % (i, j)] for j in range(n)] for i, n in enumerate(lens)]
            bad, what, obs = replay_pipeline(env, cases, nat_settings, 'exact')
            if not bad and not settings.get('surrogates'):
                bad2, what2, _o = replay_settings(env, cases, tuple(sorted(k for k, v in settings.items() if v)))
                if bad2 and ('group is' in what2 or 'flag group' in what2 or 'anchors' in what2):
                    bad, what = True, what2
            key = 'cases=%s,%s' % ('|'.join('+'.join(u(x) for x in s_) for s_ in cases), ','.join(sorted(nat_settings)) or 'default')
            if settings.get('repetitions'):
                # name the finding by the trie-widening event of the clusters the real converter makes of these test cases
                rows = env.eval([{'op': 'cluster_repetitions', 's': s_, 'min_repetitions': 1, 'min_substring_length': 1} for s_ in sorted(cases, key=lambda c: (len(c), c))])
                clusters = []
                for r in rows:
                    top = [row for row in r.get('ok', []) if row[0] == 0]
                    clusters.append([(tuple(tuple(ch) for ch in row[1]), row[2]) for row in top])
                ev = Q.first_widening(clusters)
                if ev:
                    key = 'widening=%s' % ev
            classify(rep, known, 'Q16t' if key.startswith('widening=') else 'Q02t', key, what,
                     {'inputs': {'pipeline': cases, 'settings': nat_settings, 'clause': 'exact'}, 'observed': obs}, bad)


def run_default_text_obligations(rep, env, known, specs):
    """Q02t under default settings: the language of the printed pattern is exactly the set of test cases; specs: [(lens, with_empty, domain)]"""
    env.prefetch([('q02t', (lens, with_empty, dom), {}) for lens, with_empty, dom in specs])
    for lens, with_empty, dom in specs:
        o = ob_add(rep, env.run('q02t', lens, with_empty, dom))
        if o.result != 'sat':
            continue
        for m in o.verdict.models:
            cases = ([[]] if with_empty else []) + [[m['s%d_%d' % (i, j)] for j in range(n)] for i, n in enumerate(lens)]
            bad, what, obs = replay_pipeline(env, cases, {}, 'exact')
            if not bad and obs.get('pattern') and m.get('xqlen', 0) and m['xqlen'] <= max(lens) + 2:
                # the solver's own candidate string (it may use characters that are in no test case, e.g. inside a class range)
                xq = [m['xq%d' % i] for i in range(m['xqlen'])]
                if all(c < 0x110000 and not 0xD800 <= c <= 0xDFFF for c in xq):
                    g = env.eval([{'op': 'regex_find', 'pattern': obs['pattern'], 'text': xq}])[0].get('ok')
                    acc = isinstance(g, list) and g[0] == 0 and g[1] == g[2]
                    if acc != (xq in cases):
                        bad = True
                        what += ' %s %s, which is %sa test case' % ('accepts' if acc else 'rejects', json.dumps(''.join(map(chr, xq))), '' if xq in cases else 'not ')
            if with_empty and obs.get('missing') == [[]] and not obs.get('extra'):
                key = 'empty-test-case-lost'
            else:
                key = 'cases=%s' % '|'.join('+'.join(u(x) for x in s_) or '""' for s_ in cases)
            classify(rep, known, 'Q02t', key, what, {'inputs': {'pipeline': cases, 'settings': {}, 'clause': 'exact'}, 'observed': obs}, bad)


def check_c02(rep):
    rep.statement = ('bounded, END TO END for small inputs: (b) the whole of build() -- RegExp::from followed by Display for RegExp / Expression / Grapheme '
                     '(format.rs: alternations, character classes with ranges, concatenations, groups, escaping) -- is executed from MIR on test cases of '
                     'symbolic characters, the printed pattern text is parsed back (groups, classes, ranges, escapes, quantifiers) and its language is '
                     'EXACTLY the set of test cases: 2-3 test cases of 1-2 letters, and 1-2 test cases of 1-2 arbitrary printable ASCII characters (every '
                     'metacharacter, \\n, \\t). (a) bounded, up to the AST: for 1-3 test cases of 1-3 letters (every equality pattern) under default settings, RegExp::from -- '
                     'preprocessing, grapheme clustering, trie construction, Hopcroft minimisation, recreate_graph, Brzozowski elimination with '
                     'union / concatenate and their simplifications, all executed from MIR -- returns an expression whose language (computed from '
                     'the returned Expression value) is EXACTLY the set of test cases. With the empty string among the test cases it is not: '
                     'known finding F7.  (c) Expression::union as a unit: for every ordered pair of expression shapes of the enumerated family '
                     '(literal runs, concatenation, alternation, optional; <= 3 (4) letters each) over symbolic letters, union(a, b) denotes L(a) union L(b); '
                     'a counterexample is reported if it reproduces through build(), if need be with one or two further test cases.')
    rep.outside = ['the regex crate\'s own parser (the printed text is read back by a parser written for the subset of syntax grex emits; every counterexample is replayed with the real regex crate)',
                   'code points other than printable ASCII (grapheme clustering is stubbed to one cluster per character)', 'more or longer test cases than the bound',
                   'settings other than the default (each covered by its own property)']
    rep.assumptions += ['petgraph StableGraph / Dfs, ndarray Array1/Array2, HashSet/HashMap/BTreeSet are modelled with concrete shape (insertion-ordered sets, '
                        'neighbors() newest edge first, Dfs with explicit stack); unicode-segmentation is stubbed for ASCII letters']
    env = Env(rep)
    known, _ = load_known()
    quick = [((1,), False, False), ((1, 1), False, False), ((2, 1), False, False), ((2, 2), False, False), ((1,), True, False)]
    thorough = quick + [((3, 2), False, False), ((2, 2, 1), False, False), ((2, 1), True, False)]     # (3,3) exceeds the step budget since BTreeSet iteration is sorted (more forks); Q16m/Q16e decide (3,3) stage-wise
    run_pipeline_obligations(rep, env, known, quick if rep.tier == 'quick' else thorough, 'exact')
    # the same pipeline followed by Display for RegExp: the language of the PRINTED text (parsed back) is the set of test cases
    tq = [((1, 1), False, 'letters'), ((2, 1), False, 'letters'), ((1,), False, 'ascii'), ((1, 1), False, 'ascii'), ((2,), False, 'ascii'), ((1,), True, 'letters'),
          ((2, 2), False, 'letters'), ((1, 1, 1), False, 'ascii')]
    tt = tq + [((1, 1, 1), False, 'letters'), ((2, 1), False, 'ascii'), ((3, 2), False, 'letters'), ((2, 2, 1), False, 'letters'), ((3,), False, 'ascii')]
    run_default_text_obligations(rep, env, known, tq if rep.tier == 'quick' else tt)
    # the factoring step on its own, beyond the end-to-end bound: Expression::union over every ordered pair of small expression shapes
    run_union_obligations(rep, env, known, 3, 5) if rep.tier == 'quick' else run_union_obligations(rep, env, known, 4, 7)


def check_c01(rep):
    rep.statement = ('bounded, up to the AST: for the same family of inputs as C02, with default settings and with conversion of repetitions, the '
                     'language of the expression RegExp::from returns CONTAINS every test case (soundness). The empty test case is lost (known '
                     'finding F7). Code-point-level sub-obligations of soundness are decided under C03/C09 (class tokens contain the character), '
                     'C04 (case conversion), C07 (escaping), C11 (escape text).  END TO END under combinations of settings (Q01s): for 2 test cases '
                     'of 2/1 characters from 0-9 a-z (A-Z), blank, underscore and each of %s combinations of the 13 settings (class conversions, repetitions, '
                     'case-insensitive matching, capturing groups, escaping, verbose mode, anchors), build() from MIR does not panic, prints the requested flag group '
                     'and anchors and only groups of the requested kind, the text is in the syntax subset read by the pattern parser, and every test case is '
                     'in the language of the pattern, i.e. matched in full with the anchors in place (with (?i) up to simple case folding; which match a SEARCH returns when an '
                     'anchor is disabled is C08\'s clause).' % ('25' if rep.tier == 'quick' else '260'))
    rep.outside = ['the regex crate\'s own parser (replays use it; the deciding step reads the syntax subset grex prints)',
                   'code points outside the stated domains; more or longer test cases than the bound', 'surrogate escaping and syntax highlighting (excluded by the property)']
    rep.assumptions += ['same models as C02']
    env = Env(rep)
    known, _ = load_known()
    quick = [((2, 1), False, False), ((2, 2), False, False), ((2,), False, True), ((3,), False, True), ((2, 1), False, True), ((1,), True, False)]
    thorough = quick + [((3, 2), False, False), ((4,), False, True), ((3, 2), False, True), ((2, 2, 1), False, False)]
    run_pipeline_obligations(rep, env, known, quick if rep.tier == 'quick' else thorough, 'sound')
    # every combination of settings, end to end on the printed pattern
    run_settings_obligations(rep, env, known, [(2, 1)] if rep.tier == 'quick' else [(2, 1), (1, 1)], setting_combinations(rep.tier))


NATIVE_SETTING = {'capture': 'capture_groups'}


def setting_combinations(tier):
    """the combinations of settings Q01s is decided for: presentation / anchor / case / repetition flags crossed with sets of class conversions"""
    import itertools
    conv = [(), ('digits',), ('words', 'non_words'), ('digits', 'words', 'spaces', 'non_digits', 'non_words', 'non_spaces')]
    if tier == 'quick':
        base = [(), ('ignore_case',), ('verbose',), ('capture',), ('repetitions',), ('no_start_anchor',), ('no_end_anchor',), ('no_start_anchor', 'no_end_anchor'),
                ('ignore_case', 'verbose', 'capture'), ('repetitions', 'verbose', 'no_end_anchor'), ('escape', 'ignore_case', 'repetitions')]
        out = [b + c for b in base for c in conv[:2]] + [conv[2], conv[3], ('ignore_case', 'verbose') + conv[3]]
    else:
        flags = ['ignore_case', 'verbose', 'capture', 'repetitions', 'no_start_anchor', 'no_end_anchor']
        out = [tuple(f for f, on in zip(flags, bits) if on) + c for bits in itertools.product((False, True), repeat=6) for c in conv]
        out += [('escape',) + c for c in conv]
    seen, res = set(), []
    for o in out:
        k = tuple(sorted(o))
        if k not in seen:
            seen.add(k)
            res.append(k)
    return res


def replay_settings(env, cases, settings):
    """build() with the settings on the real build: no panic, the pattern compiles, flags / anchors as requested, every test case found in full"""
    nat = {NATIVE_SETTING.get(k, k): True for k in settings}
    got = env.eval([{'op': 'build', 'cases': cases, 'settings': nat}])
    pat = got[0].get('ok')
    if pat is None:
        return True, 'build(%s, %s) panics: %s' % ([''.join(map(chr, c)) for c in cases], ','.join(settings), str(got[0])[:160]), {}
    txt = ''.join(map(chr, pat))
    want_head = '(?ix)' if ('ignore_case' in settings and 'verbose' in settings) else '(?i)' if 'ignore_case' in settings else '(?x)' if 'verbose' in settings else ''
    # full match "with its anchors in place": the anchors the settings removed are put back around the body (search order is C08's clause)
    inner = txt[len(want_head):] if txt.startswith(want_head) else txt
    stripped = inner.strip()
    core = stripped[1:] if stripped.startswith('^') else stripped
    core = core[:-1] if (core.endswith('$') and not core.endswith('\\$')) else core
    anchored = [ord(ch) for ch in (want_head + '^(?:' + core + ')$')]
    found = env.eval([{'op': 'regex_find', 'pattern': anchored, 'text': c} for c in cases] + [{'op': 'regex_find', 'pattern': pat, 'text': cases[0]}])
    problems = []
    if any('compile_error' in str(r) for r in found):
        problems.append('does not compile')
    else:
        for c, r in zip(cases, found):
            sp = r.get('ok')
            if not (isinstance(sp, list) and sp[0] == 0 and sp[1] == sp[2]):
                problems.append('%s is not matched in full' % json.dumps(''.join(map(chr, c))))
    if not txt.startswith(want_head) or (not want_head and txt.startswith('(?') and not txt.startswith('(?:')):
        problems.append('flag group is not %r' % want_head)
    body = txt[len(want_head):].strip()
    if body.startswith('^') != ('no_start_anchor' not in settings) or body.endswith('$') != ('no_end_anchor' not in settings):
        problems.append('anchors not as requested')
    opens = [m_.start() for m_ in re.finditer(r'(?<!\\)(?:\\\\)*\(', body)]
    opens = [i_ + len(re.match(r'(?:\\\\)*', body[i_:]).group(0)) for i_ in opens]
    noncap = [i_ for i_ in opens if body[i_:i_ + 3] == '(?:']
    if ('capture' in settings and noncap) or ('capture' not in settings and len(noncap) != len(opens)):
        problems.append('not every group is %s' % ('capturing' if 'capture' in settings else 'non-capturing'))
    what = 'build(%s, %s) = %s' % ([''.join(map(chr, c)) for c in cases], ','.join(settings) or 'default', json.dumps(txt)) + ('; ' + '; '.join(problems) if problems else '')
    return bool(problems), what, {'pattern': pat}


def run_settings_obligations(rep, env, known, lens_list, combos):
    jobs = [(lens, st_) for lens in lens_list for st_ in combos]
    env.prefetch([('q01s', (lens, st_), {}) for lens, st_ in jobs])
    shown = 0
    n_unsat = 0
    for lens, st_ in jobs:
        o = env.run('q01s', lens, st_)
        if o.result == 'unsat':
            n_unsat += 1
            if shown < 8:
                shown += 1
                ob_add(rep, o)
            continue
        ob_add(rep, o)
        if o.result != 'sat':
            continue
        for m in o.verdict.models:
            cases = [[m['s%d_%d' % (i, j)] for j in range(n)] for i, n in enumerate(lens)]
            bad, what, obs = replay_settings(env, cases, st_)
            key = 'cases=%s,%s' % (canonical_words(cases), ','.join(st_) or 'default')
            classify(rep, known, 'Q01s', key, what, {'inputs': {'settings_cases': cases, 'settings_list': list(st_)}, 'observed': obs}, bad)
    rep.obligations.append({'id': 'Q01s[summary]', 'title': Q.q01s.__doc__, 'engine': 'mirsym', 'result': 'unsat' if n_unsat == len(jobs) else 'mixed',
                            'input_domain': '%d (shape, settings) pairs: shapes %s x %d combinations of settings; %d unsat' % (len(jobs), lens_list, len(combos), n_unsat),
                            'paths': 0, 'queries': 0})


def replay_c02(env, rec):
    i = rec['inputs']
    if 'settings_cases' in i:
        bad, what, _ = replay_settings(env, i['settings_cases'], tuple(i['settings_list']))
        return bad, what
    bad, what, _ = replay_pipeline(env, i['pipeline'], i['settings'], i.get('clause', 'exact'))
    return bad, what


# =========================================================================== C15
def check_c15(rep):
    rep.statement = ('kernel "per-component rendering": for each of the 18 Component variants and all field values (Booleans, every '
                     'u32, payload strings copied through), and for Display of a Grapheme (one unit of 1-2 code points or a class token, '
                     'any min/max, capture/verbose flags), the highlighted rendering minus its SGR sequences (ESC [ digits;digits m / '
                     'ESC [ 0 m) equals the plain rendering, and highlighting adds balanced start/reset codes; and END TO END on small inputs (Q15t): the whole of '
                     'build() is executed with and without highlighting -- RegExp::from once, Display for RegExp twice, incl. format.rs and the colour-aware '
                     'indent_regexp -- and the highlighted output minus SGR codes equals the plain output.')
    rep.outside = ['format.rs / Display for RegExp / indent_regexp beyond the small end-to-end inputs of Q15t (2-3 test cases of 1-2 letters, a few settings combinations)',
                   'payloads containing an ESC character (a test case with a literal SGR sequence)',
                   'nested repetitions beyond one level; counts >= 100 in the nested shape']
    rep.assumptions += ['payload strings contain no ESC (U+001B)']
    env = Env(rep)
    known, _ = load_known()
    variants = env.ctx.mir.enums.get('Component') or []
    obs = []
    env.prefetch([('q15', (k,), {}) for k in range(len(variants))] + [('q15g', (sh,), {}) for sh in ['unit1', 'class-token'] + (['unit2', 'nested'] if rep.tier == 'thorough' else [])])
    for k in range(len(variants)):
        obs.append(ob_add(rep, env.run('q15', k)))
    shapes = ['unit1', 'class-token'] + (['unit2', 'nested'] if rep.tier == 'thorough' else [])
    for sh in shapes:
        obs.append(ob_add(rep, env.run('q15g', sh)))
    # end to end on small inputs: the whole of build() with and without highlighting (incl. the colour-aware indentation)
    smap = {'verbose': 'verbose', 'capture': 'capture_groups', 'no_start_anchor': 'no_start_anchor', 'no_end_anchor': 'no_end_anchor',
            'ignore_case': 'ignore_case', 'repetitions': 'repetitions'}
    tspecs = [((2, 1), {}), ((2, 1), {'verbose': True, 'ignore_case': True, 'no_start_anchor': True}), ((2, 1), {'verbose': True, 'capture': True}),
              ((2, 1), {'no_start_anchor': True, 'no_end_anchor': True})]
    if rep.tier == 'thorough':
        tspecs += [((2, 1), {'verbose': True}), ((2, 1), {'verbose': True, 'no_end_anchor': True}), ((2, 1), {'ignore_case': True}),
                   ((1, 1), {'verbose': True, 'ignore_case': True}), ((2, 2), {'verbose': True, 'no_start_anchor': True}), ((3,), {'repetitions': True, 'verbose': True})]
    env.prefetch([('q15t', (lens, stg), {}) for lens, stg in tspecs])
    for lens, stg in tspecs:
        o = ob_add(rep, env.run('q15t', lens, stg))
        obs.append(o)
        if o.result != 'sat':
            continue
        for m in o.verdict.models:
            cases_ = [[m['s%d_%d' % (i, j)] for j in range(n)] for i, n in enumerate(lens)]
            ns = {smap[k]: True for k, v in stg.items() if v}
            got = env.eval([{'op': 'build', 'cases': cases_, 'settings': dict(ns, colorize=True)}, {'op': 'build', 'cases': cases_, 'settings': ns}])
            a_, b_ = py_strip_sgr(got[0].get('ok') or []), got[1].get('ok') or []
            key = 'cases=%s,%s' % ('|'.join('+'.join(u(x) for x in c_) for c_ in cases_), ','.join(sorted(ns)) or 'default')
            what = 'highlighted output minus SGR codes %s differs from the plain output %s' % (json.dumps(''.join(map(chr, a_))), json.dumps(''.join(map(chr, b_))))
            classify(rep, known, 'Q15t', key, what, {'inputs': {'what': 'pipeline', 'cases': cases_, 'settings': ns}, 'observed': got}, a_ != b_)
    obs = [o for o in obs if not o.qid.startswith('Q15t')]
    # translator validation: concrete renderings through the encoding and the real code
    cases = []
    rnd = random.Random(rep.seed + 15)
    for k in range(len(variants)):
        for colored in (False, True):
            inp = {'kind': k, 'text': [0x61, 0x7C, 0x62][:rnd.randrange(4)], 'a': rnd.choice([0, 1, 7, 12, 4294967295]),
                   'b': rnd.choice([0, 3, 10, 99999]), 'flag1': rnd.random() < 0.5, 'flag2': rnd.random() < 0.5, 'colored': colored}
            cases.append(('component', inp, dict(inp, op='component')))
    for chars, mn, mx in (([[0x61]], 1, 1), ([[0x61]], 3, 3), ([[0x61, 0x62]], 2, 5), ([[92, 0x64]], 2, 2), ([[92, 0x64]], 1, 4),
                          ([[0x61], [0x62]], 4, 4), ([[92, 0x75, 0x7B, 0x31, 0x7D]], 2, 3)):
        for colored in (False, True):
            inp = {'chars': chars, 'min': mn, 'max': mx, 'capture': rnd.random() < 0.5, 'colored': colored, 'verbose': rnd.random() < 0.5}
            cases.append(('grapheme_display', inp, dict(inp, op='grapheme_display')))
    validate(env, rep, cases)
    for o in obs:
        if o.result != 'sat':
            continue
        m = o.verdict.models[0]
        if o.qid.startswith('Q15['):
            k = variants.index(o.qid[4:-1])
            text = [m[x] for x in sorted((x for x in m if re.fullmatch(r'p\d+', x)), key=lambda s: int(s[1:]))]
            inp = {'kind': k, 'text': text, 'a': m.get('a', 0), 'b': m.get('b', 0), 'flag1': bool(m.get('flag1', False)), 'flag2': bool(m.get('flag2', False))}
            if variants[k] == 'Quantifier':
                # both quantifier kinds are run; replay each
                rs = []
                for f2 in (False, True):
                    rs.append(env.eval([dict(inp, op='component', flag2=f2, colored=True), dict(inp, op='component', flag2=f2, colored=False)]))
                bad = any(py_strip_sgr(r[0].get('ok') or []) != (r[1].get('ok') or []) for r in rs)
                got = rs[0]
            else:
                got = env.eval([dict(inp, op='component', colored=True), dict(inp, op='component', colored=False)])
                bad = py_strip_sgr(got[0].get('ok') or []) != (got[1].get('ok') or [])
            key = 'component=%s,%s' % (variants[k], ','.join('%s=%s' % (a_, inp[a_]) for a_ in ('text', 'a', 'b', 'flag1', 'flag2')))
            what = 'highlighted %s / plain %s' % (json.dumps(''.join(map(chr, got[0].get('ok') or []))), json.dumps(''.join(map(chr, got[1].get('ok') or []))))
            classify(rep, known, o.qid, key, what, {'inputs': dict(inp, what='component'), 'observed': got}, bad)
        else:
            shape = o.qid[5:-1]
            if shape == 'class-token':
                chars = [[92, m['cls']]]
            elif shape.startswith('unit'):
                chars = [[m['p%d' % i] for i in range(int(shape[4:]))]]
            else:
                rep.nonrepro.append('%s: sat for the nested shape; replay through the hook is not available' % o.qid)
                continue
            inp = {'chars': chars, 'min': m['min'], 'max': m['max'], 'capture': bool(m['capture']), 'verbose': bool(m['verbose'])}
            got = env.eval([dict(inp, op='grapheme_display', colored=True), dict(inp, op='grapheme_display', colored=False)])
            bad = py_strip_sgr(got[0].get('ok') or []) != (got[1].get('ok') or [])
            key = 'grapheme=%s,min=%d,max=%d,capture=%s,verbose=%s' % ('+'.join(u(x) for x in chars[0]), m['min'], m['max'], inp['capture'], inp['verbose'])
            what = 'highlighted %s / plain %s' % (json.dumps(''.join(map(chr, got[0].get('ok') or []))), json.dumps(''.join(map(chr, got[1].get('ok') or []))))
            classify(rep, known, o.qid, key, what, {'inputs': dict(inp, what='grapheme'), 'observed': got}, bad)


def py_strip_sgr(cps_):
    s = ''.join(map(chr, cps_))
    return [ord(c) for c in re.sub('\x1b\\[(?:\\d+;\\d+|0)m', '', s)]


def replay_c15(env, rec):
    inp = dict(rec['inputs'])
    what = inp.pop('what')
    if what == 'pipeline':
        got = env.eval([{'op': 'build', 'cases': inp['cases'], 'settings': dict(inp['settings'], colorize=True)},
                        {'op': 'build', 'cases': inp['cases'], 'settings': inp['settings']}])
        a_, b_ = py_strip_sgr(got[0].get('ok') or []), got[1].get('ok') or []
        return a_ != b_, 'stripped %s vs plain %s' % (json.dumps(''.join(map(chr, a_))), json.dumps(''.join(map(chr, b_))))
    op = 'component' if what == 'component' else 'grapheme_display'
    got = env.eval([dict(inp, op=op, colored=True), dict(inp, op=op, colored=False)])
    bad = py_strip_sgr(got[0].get('ok') or []) != (got[1].get('ok') or [])
    return bad, 'highlighted %s / plain %s' % (got[0], got[1])


# --------------------------------------------------------------------------- driver
CHECKS = {'C03': check_c03, 'C04': check_c04, 'C07': check_c07, 'C09': check_c09, 'C10': check_c10, 'C11': check_c11, 'C12': check_c12, 'C15': check_c15, 'C05': check_c05, 'C13': check_c13, 'C16': check_c16, 'C06': check_c06, 'C08': check_c08, 'C01': check_c01, 'C02': check_c02}
REPLAYS = {'C03': replay_c03, 'C04': replay_c04, 'C07': replay_c07, 'C09': replay_c09, 'C10': replay_c10, 'C11': replay_c11, 'C12': replay_c12, 'C15': replay_c15, 'C05': replay_c05, 'C13': replay_c05, 'C16': replay_c16, 'C06': replay_c06, 'C08': replay_c08, 'C01': replay_c02, 'C02': replay_c02}


def write_evidence(rep, exit_code):
    obs = [o for o in rep.obligations if o.get('result') != 'superseded']
    decided = [o for o in obs if o.get('result') in ('unsat', 'sat')]
    evaluations = sum(int(o.get('queries', 0)) + int(o.get('path_feasibility_queries', 0)) for o in obs) + \
        sum(1 for o in obs if str(o.get('engine', '')).startswith('Kani'))
    paths = sum(int(o.get('paths', 0)) for o in obs)
    solver_s = round(sum(float(o.get('solver_s', 0) or 0) + float(o.get('verification_time_s', 0) or 0) for o in obs), 2)
    ev = {
        'property_id': rep.prop, 'tier': rep.tier, 'seed': rep.seed, 'level': 'model_checking',
        'wall_s': round(time.time() - rep.t0, 1),
        'violations': len(rep.violations),
        'assumptions': rep.assumptions + rep.trusted + [
            'oracles are the dependencies\' own data, regenerated on this run by running regex-syntax / std / unic-ucd-category '
            '(versions in coverage.oracle); regex-syntax\'s HIR is taken to be what regex::Regex executes',
            'MIR is emitted by the nightly toolchain while the tree is built by stable; the encoding is validated against the real '
            'functions on concrete inputs on every run (coverage.translator_validation)',
            'library models used by mirsym are listed per obligation under stubs_and_models; each is exact by the documented API '
            'behaviour or named as a table stub'],
        'coverage': {
            'evaluations': max(evaluations, 1),
            'distinct_nontrivial': len(decided),
            'rule': ('evaluations = solver queries discharged on this run (final SAT/SMT queries incl. all-SAT iterations + path-'
                     'feasibility queries of the symbolic executor + Kani harnesses); an obligation counts as distinct and non-trivial '
                     'when the solver decided it (unsat/sat) AND its vacuity guard passed (every expected outcome class has a feasible '
                     'path / every kani::cover! is satisfied)'),
            'states': max(paths, 1), 'transitions': max(evaluations, 1),
            'traces_validated_against_impl': rep.validation['cases'] + rep.replayed,
            'samples': obs,
            'explanation': 'states = symbolic paths explored through the MIR of the encoded functions; transitions = solver queries; '
                           'traces_validated_against_impl = concrete inputs pushed through both the encoding and the real compiled function '
                           '(translator validation) plus solver counterexamples replayed natively',
            'exhaustive': False,
            'decided_statement': rep.statement,
            'outside_claim': rep.outside,
            'obligations': len(obs), 'discharged': len([o for o in decided if o.get('result') == 'unsat']),
            'solver_time_s': solver_s,
            'inconclusive': rep.inconclusive,
            'non_reproducing_counterexamples': rep.nonrepro,
            'known_findings_reported': [k for k, _w in rep.known],
            'violations_reported': [{'key': k, 'what': w, 'replay': p} for k, w, p in rep.violations],
            'translator_validation': rep.validation,
            'oracle': rep.info.get('oracle'), 'toolchains': {k: v for k, v in rep.info.items() if k not in ('oracle', '_seen_keys')},
            'exit_code': exit_code,
        },
    }
    os.makedirs(os.path.join(OUT, 'evidence'), exist_ok=True)
    with open(os.path.join(OUT, 'evidence', rep.prop + '.json'), 'w') as f:
        json.dump(ev, f, indent=1, default=str)


def main(argv):
    import argparse
    ap = argparse.ArgumentParser()
    ap.add_argument('prop')
    ap.add_argument('--tier', default=os.environ.get('VERIF_TIER', 'quick'), choices=['quick', 'thorough'])
    ap.add_argument('--replay')
    a = ap.parse_args(argv)
    seed = int(os.environ.get('VERIF_SEED', '0') or 0)
    if a.prop not in CHECKS:
        print('no check for %s (see MANIFEST.json not_applicable)' % a.prop)
        return 2
    if a.replay:
        rec = json.load(open(a.replay))
        rep = Report(a.prop, a.tier, seed)
        env = Env(rep, need_mir=False, need_native=True)
        repro, what = REPLAYS[a.prop](env, rec)
        print('replay %s: %s -- %s' % (a.replay, 'REPRODUCES' if repro else 'does not reproduce', what))
        if repro:
            print('VIOLATION property=%s replay=%s' % (a.prop, a.replay))
        return 1 if repro else 0
    rep = Report(a.prop, a.tier, seed)
    try:
        CHECKS[a.prop](rep)
    except prep.PrepError as e:
        rep.inconclusive.append('preparation failed: %s' % e)
        print('INCONCLUSIVE property=%s preparation failed: %s' % (a.prop, e))
        write_evidence(rep, 2)
        return 2
    for o in rep.obligations:
        if o.get('result') == 'superseded':
            continue
        print('%-34s %-12s %s' % (o.get('id'), o.get('result'), ('paths=%s solver_s=%s' % (o.get('paths'), o.get('solver_s')))
                                  if 'paths' in o else ('kani %ss covers %s' % (o.get('verification_time_s'), o.get('cover_properties_satisfied')))))
    for k, w in rep.known:
        print('KNOWN-FINDING: property=%s %s %s' % (rep.prop, k, w))
    for x in rep.inconclusive:
        print('INCONCLUSIVE property=%s %s' % (rep.prop, x))
    for x in rep.nonrepro:
        print('INCONCLUSIVE property=%s non-reproducing: %s' % (rep.prop, x))
    for k, w, p in rep.violations:
        print('violation detail: %s -- %s' % (k, w))
        print('VIOLATION property=%s replay=%s' % (rep.prop, os.path.relpath(p, VERIF)))
    decided = [o for o in rep.obligations if o.get('result') in ('unsat', 'sat')]
    if rep.violations:
        code = 1
    elif rep.nonrepro or rep.inconclusive or not decided or rep.validation['mismatches']:
        # an obligation the machinery could not decide (unmodelled callee, step budget, unparsed output, solver gave up) is never
        # counted as "held": every obligation is decided on the unchanged tree, so this only happens on a tree that differs from it
        code = 2
    else:
        code = 0
    write_evidence(rep, code)
    print('property=%s tier=%s obligations=%d decided=%d inconclusive=%d known=%d violations=%d wall=%.0fs exit=%d' % (
        rep.prop, rep.tier, len(rep.obligations), len(decided), len(rep.inconclusive), len(rep.known), len(rep.violations),
        time.time() - rep.t0, code))
    return code


if __name__ == '__main__':
    try:
        code = main(sys.argv[1:])
    except SystemExit:
        raise
    except BaseException as e:       # a crash of the machinery is "could not decide", never a verdict
        import traceback
        traceback.print_exc()
        print('INCONCLUSIVE machinery error: %s: %s' % (type(e).__name__, str(e)[:300]))
        code = 2
    sys.exit(code)
