#!/bin/bash
# usage: run.sh <harness> [timeout_s] [extra kani args...]
h=$1; t=${2:-300}; shift; shift
cd ${PROBE_SRC:-/tmp/probe/grex}
ulimit -v ${ULIM:-20000000}
start=$(date +%s)
timeout $t cargo kani --lib --no-default-features --target-dir /tmp/probe/tgt_${h}_${TAG} --harness $h "$@" > /tmp/probe/logs/$h.$TAG.log 2>&1
rc=$?
end=$(date +%s)
echo "harness=$h rc=$rc wall=$((end-start))s" >> /tmp/probe/logs/$h.$TAG.log
echo "harness=$h rc=$rc wall=$((end-start))s"
pkill -P $$ cbmc 2>/dev/null
