#[cfg(kani)]
mod h {
    use grex::verif_hooks as hk;
    fn scan(t: &[(char, char)], c: char) -> bool {
        let mut i = 0;
        while i < t.len() { if t[i].0 <= c && c <= t[i].1 { return true; } i += 1; }
        false
    }
    #[kani::proof]
    #[kani::unwind(12)]
    fn ext_space() {
        let c: char = kani::any();
        assert!(hk::is_space(c) == scan(hk::tables()[2], c));
        kani::cover!(hk::is_space(c));
    }
    #[kani::proof]
    #[kani::unwind(4)]
    fn ext_setters() {
        let mut b = grex::RegExpBuilder::from(&["a"]);
        let q: u32 = kani::any();
        kani::assume(q > 0);
        b.with_minimum_repetitions(q).without_start_anchor();
        let (bits, mr, _) = hk::config_bits(&b);
        assert!(mr == q && bits == 1 << 12);
    }
    #[kani::proof]
    #[kani::unwind(4)]
    #[kani::should_panic]
    fn ext_zero_panics() {
        let mut b = grex::RegExpBuilder::from(&["a"]);
        b.with_minimum_repetitions(0);
    }
}
