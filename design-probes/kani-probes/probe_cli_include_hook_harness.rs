use super::*;
static mut SEEN: (u32, u32, u32) = (0, 0, 0);
fn stub_build(b: &mut RegExpBuilder) -> String {
    unsafe { SEEN = grex::verif_hooks::config_bits(b); }
    String::new()
}
fn stub_print(_args: std::fmt::Arguments<'_>) {}

#[kani::proof]
#[kani::unwind(4)]
#[kani::stub(grex::RegExpBuilder::build, stub_build)]
#[kani::stub(std::io::_print, stub_print)]
fn h12m_probe() {
    let minrep: u32 = kani::any();
    kani::assume(minrep > 0);
    let cli = Cli {
        input: vec![], file_path: None,
        is_digit_converted: kani::any(), is_non_digit_converted: false, is_space_converted: false,
        is_non_space_converted: false, is_word_converted: false, is_non_word_converted: false,
        is_non_ascii_char_escaped: false, is_astral_code_point_converted_to_surrogate: false,
        is_repetition_converted: false, minimum_repetitions: minrep, minimum_substring_length: 1,
        is_caret_anchor_disabled: kani::any(), is_dollar_sign_anchor_disabled: false, are_anchors_disabled: kani::any(),
        is_verbose_mode_enabled: false, is_output_colorized: false, is_case_ignored: false, is_group_captured: false,
        help: None, version: None,
    };
    let n: u8 = kani::any();
    kani::assume(n >= 1 && n <= 2);
    let mut v = vec![String::from("a")];
    if n == 2 { v.push(String::from("b")); }
    let r = handle_input(&cli, Ok(v));
    assert!(r.is_ok());
    let (bits, mr, _) = unsafe { SEEN };
    assert!(mr == minrep);
    assert!((bits & 1 != 0) == cli.is_digit_converted);
    assert!((bits & (1 << 12) != 0) == (cli.is_caret_anchor_disabled || cli.are_anchors_disabled));
}

#[kani::proof]
#[kani::unwind(4)]
#[kani::stub(grex::RegExpBuilder::build, stub_build)]
#[kani::stub(std::io::_print, stub_print)]
fn h12p_probe_empty() {
    let cli = Cli {
        input: vec![], file_path: None,
        is_digit_converted: false, is_non_digit_converted: false, is_space_converted: false,
        is_non_space_converted: false, is_word_converted: false, is_non_word_converted: false,
        is_non_ascii_char_escaped: false, is_astral_code_point_converted_to_surrogate: false,
        is_repetition_converted: false, minimum_repetitions: 1, minimum_substring_length: 1,
        is_caret_anchor_disabled: false, is_dollar_sign_anchor_disabled: false, are_anchors_disabled: false,
        is_verbose_mode_enabled: false, is_output_colorized: false, is_case_ignored: false, is_group_captured: false,
        help: None, version: None,
    };
    let _ = handle_input(&cli, Ok(vec![]));
}
