use crate::config::RegExpConfig;
use crate::grapheme::Grapheme;
use crate::cluster::GraphemeCluster;
use crate::builder::RegExpBuilder;

fn sym_str() -> String {
    let len: u8 = kani::any();
    kani::assume(len <= 2);
    let mut s = String::new();
    if len >= 1 { s.push(if kani::any() { 'a' } else { 'b' }); }
    if len >= 2 { s.push(if kani::any() { 'a' } else { 'b' }); }
    s
}

#[kani::proof]
#[kani::unwind(5)]
fn w1_sort_perm() {
    let a = sym_str();
    let b = sym_str();
    let c = sym_str();
    let mut v1 = vec![a.clone(), b.clone(), c.clone()];
    let mut v2 = vec![c, a.clone(), b, a];
    crate::regexp::verif_sort(&mut v1);
    crate::regexp::verif_sort(&mut v2);
    assert!(v1.len() == v2.len());
    let mut i = 0;
    while i < v1.len() {
        assert!(v1[i].as_bytes().len() == v2[i].as_bytes().len());
        let mut j = 0;
        while j < v1[i].len() { assert!(v1[i].as_bytes()[j] == v2[i].as_bytes()[j]); j += 1; }
        i += 1;
    }
}

#[kani::proof]
#[kani::unwind(4)]
fn w2_setters() {
    let mut b1 = RegExpBuilder::from(&["a"]);
    let mut b2 = RegExpBuilder::from(&["a"]);
    let x: u8 = kani::any();
    let y: u8 = kani::any();
    fn apply(b: &mut RegExpBuilder, k: u8) {
        match k % 8 {
            0 => { b.with_conversion_of_digits(); }
            1 => { b.with_conversion_of_words(); }
            2 => { b.with_case_insensitive_matching(); }
            3 => { b.with_verbose_mode(); }
            4 => { b.without_anchors(); }
            5 => { b.without_start_anchor(); }
            6 => { b.with_conversion_of_repetitions(); }
            _ => { b.with_capturing_groups(); }
        }
    }
    apply(&mut b1, x); apply(&mut b1, y);
    apply(&mut b2, y); apply(&mut b2, x);
    assert!(b1.config == b2.config);
}

#[kani::proof]
#[kani::unwind(12)]
fn w3_escape_bmp() {
    let c: char = kani::any();
    kani::assume((c as u32) < 0x10000);
    let mut s = String::new();
    s.push(c);
    let mut g = Grapheme::from(&s, false, false, false);
    g.escape_non_ascii_chars(true);
    let out = g.chars()[0].as_bytes();
    if (c as u32) < 0x80 { assert!(out.len() == 1 && out[0] == c as u8); }
    else { assert!(out.len() >= 6 && out[0] == b'\\' && out[1] == b'u' && out[2] == b'{'); }
}

#[kani::proof]
#[kani::unwind(12)]
fn w4_escape_astral() {
    let c: char = kani::any();
    kani::assume((c as u32) >= 0x10000);
    let mut s = String::new();
    s.push(c);
    let mut g = Grapheme::from(&s, false, false, false);
    g.escape_non_ascii_chars(true);
    let out = g.chars()[0].as_bytes();
    assert!(out.len() == 16);
}

#[kani::proof]
#[kani::unwind(12)]
fn w5_playback() {
    let c: char = kani::any();
    let s = crate::cluster::verif_is_space(c);
    assert!(!s || (c as u32) < 0x3000);
}
