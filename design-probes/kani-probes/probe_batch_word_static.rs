use crate::unicode_tables::{WORD, DECIMAL_NUMBER};

#[kani::proof]
#[kani::unwind(772)]
fn z1_word_nochk() {
    let c: char = kani::any();
    let w = crate::cluster::verif_is_word(c);
    assert!(!w || !c.is_whitespace());
}

fn scan(t: &[(char, char)], c: char) -> bool {
    let mut i = 0;
    while i < t.len() {
        if t[i].0 <= c && c <= t[i].1 { return true; }
        i += 1;
    }
    false
}

#[kani::proof]
#[kani::unwind(772)]
fn z2_word_static() {
    let c: char = kani::any();
    let w = scan(WORD, c);
    assert!(!w || !c.is_whitespace());
    assert!(!scan(DECIMAL_NUMBER, c) || w);
}
