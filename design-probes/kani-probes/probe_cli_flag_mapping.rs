    #[cfg(kani)]
    mod verif {
        use super::*;
        static mut SEEN: (u32, u32, u32) = (0, 0, 0);
        fn stub_build(b: &mut RegExpBuilder) -> String {
            unsafe { SEEN = b.verif_config_bits(); }
            String::new()
        }
        fn stub_print(_args: std::fmt::Arguments<'_>) {}

        #[kani::proof]
        #[kani::unwind(4)]
        #[kani::stub(grex::RegExpBuilder::build, stub_build)]
        #[kani::stub(std::io::_print, stub_print)]
        fn x1_cli_flag_mapping() {
            let minrep: u32 = kani::any();
            let minlen: u32 = kani::any();
            kani::assume(minrep > 0 && minlen > 0);
            let cli = Cli {
                input: vec![],
                file_path: None,
                is_digit_converted: kani::any(),
                is_non_digit_converted: kani::any(),
                is_space_converted: kani::any(),
                is_non_space_converted: kani::any(),
                is_word_converted: kani::any(),
                is_non_word_converted: kani::any(),
                is_non_ascii_char_escaped: kani::any(),
                is_astral_code_point_converted_to_surrogate: kani::any(),
                is_repetition_converted: kani::any(),
                minimum_repetitions: minrep,
                minimum_substring_length: minlen,
                is_caret_anchor_disabled: kani::any(),
                is_dollar_sign_anchor_disabled: kani::any(),
                are_anchors_disabled: kani::any(),
                is_verbose_mode_enabled: kani::any(),
                is_output_colorized: kani::any(),
                is_case_ignored: kani::any(),
                is_group_captured: kani::any(),
                help: None,
                version: None,
            };
            let r = handle_input(&cli, Ok(vec![String::from("a")]));
            assert!(r.is_ok());
            let (bits, mr, ml) = unsafe { SEEN };
            assert!(mr == minrep && ml == minlen);
            assert!((bits & 1 != 0) == cli.is_digit_converted);
            assert!((bits & (1 << 12) != 0) == (cli.is_caret_anchor_disabled || cli.are_anchors_disabled));
            assert!((bits & (1 << 10) != 0) == (cli.is_non_ascii_char_escaped && cli.is_astral_code_point_converted_to_surrogate));
        }
    }

