use crate::config::RegExpConfig;
use crate::grapheme::Grapheme;
use crate::cluster::GraphemeCluster;

#[kani::proof]
#[kani::unwind(66)]
fn v1_digit() {
    let c: char = kani::any();
    let d = crate::cluster::verif_is_digit(c);
    assert!(!d || c.is_numeric());
}

#[kani::proof]
#[kani::unwind(12)]
fn v2_space() {
    let c: char = kani::any();
    let s = crate::cluster::verif_is_space(c);
    assert!(s == c.is_whitespace());
}

#[kani::proof]
#[kani::unwind(772)]
fn v3_word() {
    let c: char = kani::any();
    let w = crate::cluster::verif_is_word(c);
    assert!(!w || !c.is_whitespace());
}

#[kani::proof]
#[kani::unwind(12)]
fn v4_space_token() {
    let c: char = kani::any();
    let mut config = RegExpConfig::new();
    config.is_space_converted = true;
    let mut s = String::new();
    s.push(c);
    let mut cl = GraphemeCluster::new(Grapheme::from(&s, false, false, false), &config);
    cl.convert_to_char_classes();
    let out = &cl.graphemes()[0].chars()[0];
    let b = out.as_bytes();
    if c.is_whitespace() {
        assert!(b.len() == 2 && b[0] == b'\\' && b[1] == b's');
    } else {
        assert!(b.len() == c.len_utf8());
    }
}
