#!/usr/bin/env python3-vt
import re, sys, time, json
import z3
sys.argv = ['q', sys.argv[1]]
src = open('queries.py').read().split('# ================= Q11')[0]
exec(src)
O = json.load(open('/tmp/probe/oracle.json'))
c = z3.BitVec('c', 32)
class BStr:
    def __init__(self, n, cps): self.n, self.cps = n, cps
def bv(x): return z3.BitVecVal(x, 32)
def tree(x, entries, default):
    """balanced decision tree over sorted (key, value) entries; value for missing keys = default(x)"""
    def go(lo, hi):
        if hi - lo <= 4:
            e = default
            for k, v in entries[lo:hi]: e = z3.If(x == k, v, e)
            return e
        mid = (lo + hi) // 2
        return z3.If(z3.ULT(x, entries[mid][0]), go(lo, mid), go(mid, hi))
    return go(0, len(entries))
def m_to_lowercase(ex, fr, callee, a, pc, d):
    s = deref(a[0]); x = s.cps[0]
    L = sorted((k, (v + [0, 0])[:3], len(v)) for k, v in O['lower1'])
    n = tree(x, [(k, bv(ln)) for k, v, ln in L], bv(1))
    c0 = tree(x, [(k, bv(v[0])) for k, v, ln in L], x)
    c1 = tree(x, [(k, bv(v[1])) for k, v, ln in L], bv(0))
    c2 = tree(x, [(k, bv(v[2])) for k, v, ln in L], bv(0))
    return [(pc + [s.n == 1], BStr(n, [c0, c1, c2]))]
def m_chars(ex, fr, callee, a, pc, d): return Opaque('chars', deref(a[0]))
def m_count(ex, fr, callee, a, pc, d): return z3.ZeroExt(32, a[0].p[0].n)
def m_string_to_string(ex, fr, callee, a, pc, d): return deref(a[0])
MODELS2 = [(r'impl str>::to_lowercase$', m_to_lowercase), (r'impl str>::chars$', m_chars),
           (r'^<Chars<\'_> as Iterator>::count$', m_count), (r'^<String as ToString>::to_string$', m_string_to_string)] + MODELS
def orbit(x):
    return tree(x, sorted((k, bv(rep)) for k, rep in O['orbit']), x)
fn = [n for n in mir.fns if n.endswith('convert_for_case_insensitive_matching::{closure#0}')][0]
ex = Exec(mir, MODELS2); t = time.time()
outs = ex.run_fn(fn, [RefV([TupV([])]), RefV([BStr(bv(1), [c, bv(0), bv(0)])])], [valid_char(c)])
print('Q04 exec %.2fs paths=%d' % (time.time() - t, len(outs)))
known = []; t = time.time()
s = z3.SolverFor('QF_BV'); s.add(valid_char(c))
bad = z3.Or(*[z3.And(*pc, z3.Not(z3.And(ret.n == 1, orbit(ret.cps[0]) == orbit(c)))) for pc, ret in outs])
s.add(bad)
while s.check() == z3.sat:
    x = s.model()[c].as_long(); known.append(x); s.add(c != x)
    if len(known) > 600: break
print('violating code points: %d in %.1fs' % (len(known), time.time() - t))
rs = []
for x in sorted(known):
    if rs and rs[-1][1] + 1 == x: rs[-1][1] = x
    else: rs.append([x, x])
print(' '.join('%X-%X' % (a, b) if a != b else '%X' % a for a, b in rs))
