"""Symbolic executor over parsed MIR (prototype). Values are python objects wrapping z3 terms."""
import re
import z3
from mir import Mir, split_top

IntSeq = z3.SeqSort(z3.IntSort())


class Inconclusive(Exception):
    pass


# ---------------- values
class StrV:      # str / String : sequence of code points
    def __init__(self, seq): self.seq = seq
    def __repr__(self): return f'StrV({self.seq})'

class ListV:     # array / slice / Vec / iterator with concrete length
    def __init__(self, items): self.items = list(items)
    def __repr__(self): return f'ListV(n={len(self.items)})'

class TupV:      # tuple / struct / closure env, by index or name
    def __init__(self, fields, names=None): self.fields, self.names = list(fields), names
    def get(self, k):
        if isinstance(k, int): return self.fields[k]
        return self.fields[self.names.index(k)]
    def __repr__(self): return f'TupV({self.fields})'

class RefV:      # reference to a frame local (with projections already applied -> box)
    def __init__(self, box): self.box = box   # box = [value]
    def __repr__(self): return f'RefV({self.box[0]})'

class ClosV:
    def __init__(self, name, env): self.name, self.env = name, env
    def __repr__(self): return f'ClosV({self.name})'

class MapIter:
    def __init__(self, base, clos): self.base, self.clos = base, clos

class FnItem:
    def __init__(self, path): self.path = path

class Opaque:
    def __init__(self, tag, *p): self.tag, self.p = tag, p
    def __repr__(self): return f'Opaque({self.tag},{self.p})'

UNIT = TupV([])


def lit(s):
    """python str -> StrV"""
    if len(s) == 0: return StrV(z3.Empty(IntSeq))
    parts = [z3.Unit(z3.IntVal(ord(ch))) for ch in s]
    return StrV(parts[0] if len(parts) == 1 else z3.Concat(*parts))

def cat(*strs):
    strs = [s.seq for s in strs]
    return StrV(strs[0] if len(strs) == 1 else z3.Concat(*strs))

def is_z3(v): return isinstance(v, z3.ExprRef)

def ite(c, a, b):
    if isinstance(a, StrV) and isinstance(b, StrV): return StrV(z3.If(c, a.seq, b.seq))
    if is_z3(a) and is_z3(b): return z3.If(c, a, b)
    raise Inconclusive(f'cannot merge {a} / {b}')


INT_W = {'u8': 8, 'u16': 16, 'u32': 32, 'u64': 64, 'usize': 64, 'i8': 8, 'i16': 16, 'i32': 32, 'i64': 64,
         'isize': 64, 'char': 32, 'u128': 128, 'i128': 128}


def parse_char(s):
    if s.startswith('\\u{'): return int(s[3:-1], 16)
    if s.startswith('\\'): return {'n': 10, 'r': 13, 't': 9, '\\': 92, "'": 39, '0': 0, '"': 34}[s[1]]
    assert len(s) == 1, s
    return ord(s)


class Frame:
    def __init__(self, body):
        self.body = body
        self.locals = {}     # name -> box [value]

    def box(self, name):
        if name not in self.locals: self.locals[name] = [None]
        return self.locals[name]


class Exec:
    def __init__(self, mir, models, max_depth=12):
        self.mir, self.models, self.max_depth = mir, models, max_depth
        self.solver = z3.Solver()
        self.stats = {'paths': 0, 'calls_inlined': 0, 'models_used': set()}

    # ---------- resolution helpers
    def resolve_fn(self, callee, caller):
        if callee in self.mir.fns: return callee
        last = re.sub(r'<.*?> ?', '', callee)  # drop generic/trait sugar crudely
        segs = [s for s in re.split(r'::', callee) if s and not s.startswith('<')]
        tail = segs[-1] if segs else callee
        cands = [n for n in self.mir.fns if n.endswith('::' + tail) or n == tail]
        if len(cands) > 1 and len(segs) >= 2:
            c2 = [n for n in cands if n.endswith('::' + tail) and segs[-2].split('<')[0] in n]
            if c2: cands = c2
        if len(cands) > 1:
            top = caller.split('::')[0]
            c2 = [n for n in cands if n.startswith(top)]
            if c2: cands = c2
        return cands[0] if len(cands) == 1 else None

    def resolve_const(self, path, caller):
        m = re.search(r'::promoted\[(\d+)\]$', path)
        if m:
            for owner in (caller, path[:m.start()]):
                key = f'{owner}::promoted[{m.group(1)}]'
                if key in self.mir.consts: return key
            tail = path.split('::')[-2] + '::' + path.split('::')[-1]
            c = [k for k in self.mir.consts if k.endswith(tail)]
            return c[0] if len(c) == 1 else None
        if path in self.mir.consts: return path
        tail = path.split('::')[-1]
        c = [k for k in self.mir.consts if k == tail or k.endswith('::' + tail)]
        return c[0] if len(c) == 1 else None

    # ---------- places
    def place_box(self, fr, p):
        """return box ([value]) for a place expression"""
        p = p.strip()
        if re.fullmatch(r'_\d+', p): return fr.box(p)
        if p.startswith('(') and p.endswith(')'):
            inner = p[1:-1].strip()
            if inner.startswith('*'):
                r = self.place_box(fr, inner[1:])[0]
                if isinstance(r, RefV): return r.box
                raise Inconclusive(f'deref of {r} in {p}')
            m = re.match(r'(.*) as (\w+)$', inner)
            if m: return self.place_box(fr, m.group(1))
            # field: find last ".k: " at depth 0
            depth = 0
            for i in range(len(inner) - 1, -1, -1):
                ch = inner[i]
                if ch in ')]>': depth += 1
                elif ch in '([<': depth -= 1
                elif ch == ':' and depth == 0 and inner[i + 1] == ' ':
                    m = re.match(r'(.*)\.(\d+)$', inner[:i], re.S)
                    if m:
                        base = self.place_box(fr, m.group(1))[0]
                        k = int(m.group(2))
                        if isinstance(base, TupV): return _FieldBox(base, k)
                        raise Inconclusive(f'field of {base} in {p}')
            raise Inconclusive('place ' + p)
        m = re.match(r'(.*)\[(_\d+|\d+ of \d+)\]$', p)
        if m:
            base = self.place_box(fr, m.group(1))[0]
            idx = m.group(2)
            if isinstance(base, ListV) and ' of ' in idx:
                return _FieldBox(base, int(idx.split()[0]), lst=True)
            raise Inconclusive('index ' + p)
        raise Inconclusive('place ' + p)

    # ---------- operands / rvalues
    def const(self, fr, tok):
        t = tok[len('const '):].strip()
        if t in ('true', 'false'): return z3.BoolVal(t == 'true')
        m = re.fullmatch(r"'(.*)'", t, re.S)
        if m: return z3.BitVecVal(parse_char(m.group(1)), 32)
        m = re.fullmatch(r'(-?\d+)_(\w+)', t)
        if m: return z3.BitVecVal(int(m.group(1)), INT_W[m.group(2)])
        m = re.fullmatch(r'"(.*)"', t, re.S)
        if m: return RefV([lit(bytes(m.group(1), 'utf-8').decode('unicode_escape').encode('latin-1').decode('utf-8'))])
        m = re.fullmatch(r'b"(.*)"', t, re.S)
        if m:
            raw = eval('b"' + m.group(1) + '"')
            return RefV([Opaque('bytes', raw)])
        if t.startswith('ZeroSized: {closure@'):
            return ClosV(self.closure_name(fr, t[len('ZeroSized: '):]), TupV([]))
        m = re.fullmatch(r'\{alloc\d+: &(.*)\}', t)
        if m: return RefV([Opaque('static', m.group(1))])
        if t == '()': return UNIT
        key = self.resolve_const(t, fr.body.name)
        if key: return self.run_const(key)
        raise Inconclusive('const ' + tok)

    def closure_name(self, fr, txt):
        m = re.match(r'\{closure@([^}]*)\}', txt)
        span = m.group(1)
        # closures of function F are named F::{closure#k}; find by source span in param type of _1
        for n, b in self.mir.fns.items():
            if '{closure#' in n and b.params and span in b.params[0][1]:
                return n
        raise Inconclusive('closure ' + txt)

    def operand(self, fr, tok):
        tok = tok.strip()
        m = re.match(r'(?:no_retag )?(?:copy|move) (.*)$', tok, re.S)
        if m:
            v = self.place_box(fr, m.group(1))[0]
            if v is None: raise Inconclusive('uninitialised ' + tok)
            return v
        if tok.startswith('const '): return self.const(fr, tok)
        return FnItem(tok)

    def rvalue(self, fr, rv):
        rv = rv.strip()
        if rv.startswith('const '): return self.const(fr, rv)
        m = re.match(r'&(?:mut |raw const |raw mut )?(.*)$', rv)
        if m and not rv.startswith('&&'): return RefV(self.place_box(fr, m.group(1)))
        m = re.match(r'(\w+)\((.*)\)$', rv, re.S)
        if m and m.group(1) in BINOPS:
            a, b = [self.operand(fr, x) for x in split_top(m.group(2))]
            return BINOPS[m.group(1)](a, b)
        if m and m.group(1) == 'Not':
            a = self.operand(fr, m.group(2))
            return z3.Not(a) if z3.is_bool(a) else ~a
        m = re.match(r'(.*) as (\w+) \(IntToInt\)$', rv)
        if m:
            a = self.operand(fr, m.group(1)); w = INT_W[m.group(2)]
            return z3.ZeroExt(w - a.size(), a) if a.size() < w else z3.Extract(w - 1, 0, a)
        m = re.match(r'(.*) as .* \(PointerCoercion\(.*\)\)$', rv, re.S)
        if m: return self.operand(fr, m.group(1))
        m = re.match(r'\{closure@[^}]*\} \{(.*)\}$', rv, re.S)
        if m:
            name = self.closure_name(fr, rv)
            fields, names = [], []
            for f in split_top(m.group(1)):
                k, v = f.split(':', 1); names.append(k.strip()); fields.append(self.operand(fr, v))
            return ClosV(name, TupV(fields, names))
        if rv.startswith('[') and rv.endswith(']'):
            inner = rv[1:-1]
            m = re.match(r'(.*); (\d+)$', inner)
            if m: return ListV([self.operand(fr, m.group(1))] * int(m.group(2)))
            return ListV([self.operand(fr, x) for x in split_top(inner)])
        if rv.startswith('(') and rv.endswith(')') and not re.match(r'\((\*|_\d+\.|\(|_\d+ as)', rv):
            parts = split_top(rv[1:-1])
            return TupV([self.operand(fr, x) for x in parts])
        m = re.match(r'([\w:<>, ]+?) \{(.*)\}$', rv, re.S)
        if m:
            fields, names = [], []
            for f in split_top(m.group(2)):
                k, v = f.split(':', 1); names.append(k.strip()); fields.append(self.operand(fr, v))
            return TupV(fields, names)
        return self.operand(fr, rv)

    # ---------- running
    def run_const(self, key):
        body = self.mir.consts[key]
        res = self.run_body(body, [], [], 0)
        if len(res) != 1: raise Inconclusive('const with branches ' + key)
        return res[0][1]

    def run_fn(self, name, args, pc, depth=0):
        """returns list of (pc, retval)"""
        return self.run_body(self.mir.fns[name], args, pc, depth)

    def feasible(self, pc):
        self.solver.push(); self.solver.add(*pc)
        r = self.solver.check(); self.solver.pop()
        return r != z3.unsat

    def run_body(self, body, args, pc, depth):
        if depth > self.max_depth: raise Inconclusive('inline depth')
        fr = Frame(body)
        for (p, _t), a in zip(body.params, args): fr.box(p)[0] = a
        results = []
        self._run(fr, 'bb0', list(pc), depth, results, {})
        return results

    def _run(self, fr, bb, pc, depth, results, visits):
        visits = dict(visits); visits[bb] = visits.get(bb, 0) + 1
        if visits[bb] > 1: raise Inconclusive(f'loop at {bb} in {fr.body.name}')
        stmts, cleanup = fr.body.blocks[bb]
        if cleanup: raise Inconclusive('entered cleanup block')
        for s in stmts:
            s = s.rstrip(';')
            if re.match(r'(StorageLive|StorageDead|nop|FakeRead|PlaceMention|AscribeUserType|Retag|Coverage)', s): continue
            if s == 'return':
                results.append((pc, fr.box('_0')[0])); self.stats['paths'] += 1; return
            m = re.match(r'goto -> (bb\d+)$', s)
            if m: return self._run(fr, m.group(1), pc, depth, results, visits)
            m = re.match(r'drop\(.*\) -> \[return: (bb\d+), .*\]$', s)
            if m: return self._run(fr, m.group(1), pc, depth, results, visits)
            m = re.match(r'switchInt\((.*)\) -> \[(.*)\]$', s, re.S)
            if m:
                v = self.operand(fr, m.group(1)); taken = []
                for t in split_top(m.group(2)):
                    k, tgt = [x.strip() for x in t.split(':')]
                    if k == 'otherwise':
                        cond = z3.And(*[z3.Not(c) for c in taken]) if taken else z3.BoolVal(True)
                    else:
                        cond = (z3.Not(v) if int(k) == 0 else v) if z3.is_bool(v) else (v == int(k))
                        taken.append(cond)
                    cond = z3.simplify(cond)
                    if z3.is_false(cond): continue
                    npc = pc if z3.is_true(cond) else pc + [cond]
                    if z3.is_true(cond) or self.feasible(npc):
                        fr2 = self.fork(fr)
                        self._run(fr2, tgt, npc, depth, results, visits)
                return
            m = re.match(r'assert\((!?)(.*?), ".*\) -> \[success: (bb\d+), .*\]$', s, re.S)
            if m:
                c = self.operand(fr, m.group(2))
                c = z3.Not(c) if m.group(1) else c
                # the panic side is a separate obligation; we follow success only and record it
                return self._run(fr, m.group(3), pc + [c], depth, results, visits)
            m = re.match(r'(.*?) = (.*)\((.*)\) -> \[return: (bb\d+), unwind.*\]$', s, re.S)
            if m and not m.group(2).strip().startswith(('&', 'copy', 'move')):
                dst, callee, argtxt, nxt = m.group(1), m.group(2).strip(), m.group(3), m.group(4)
                args = [self.operand(fr, a) for a in split_top(argtxt)]
                outs = self.call(fr, callee, args, pc, depth)
                for (npc, val) in outs:
                    fr2 = self.fork(fr) if len(outs) > 1 else fr
                    self.place_box(fr2, dst)[0] = val
                    self._run(fr2, nxt, npc, depth, results, visits)
                return
            m = re.match(r'(.*?) = (.*)$', s, re.S)
            if m:
                self.place_box(fr, m.group(1))[0] = self.rvalue(fr, m.group(2)); continue
            raise Inconclusive('stmt ' + s)
        raise Inconclusive('fell off ' + bb)

    def fork(self, fr):
        """copy a frame; refs into the frame are re-pointed (boxes are per-frame)"""
        fr2 = Frame(fr.body); memo = {}
        for k, b in fr.locals.items(): memo[id(b)] = fr2.box(k)
        def cp(v):
            if isinstance(v, RefV):
                if id(v.box) in memo: return RefV(memo[id(v.box)])
                return v
            if isinstance(v, TupV): return TupV([cp(x) for x in v.fields], v.names)
            if isinstance(v, ClosV): return ClosV(v.name, cp(v.env))
            return v
        for k, b in fr.locals.items(): fr2.locals[k][0] = cp(b[0])
        return fr2

    def call(self, fr, callee, args, pc, depth):
        for pat, fn in self.models:
            if re.search(pat, callee):
                self.stats['models_used'].add(pat)
                r = fn(self, fr, callee, args, pc, depth)
                return r if isinstance(r, list) else [(pc, r)]
        name = self.resolve_fn(callee, fr.body.name)
        if name:
            self.stats['calls_inlined'] += 1
            return self.run_fn(name, args, pc, depth + 1)
        raise Inconclusive('unmodelled callee ' + callee)

    def call_closure(self, clos, args, pc, depth):
        """run closure body; merge results with ite (values must be mergeable)"""
        outs = self.run_fn(clos.name, [RefV([clos.env])] + args, pc, depth + 1)
        if len(outs) == 1: return outs[0][1]
        val = outs[-1][1]
        for (p, v) in reversed(outs[:-1]):
            extra = [c for c in p if not any(c.eq(d) for d in pc)]
            val = ite(z3.And(*extra) if extra else z3.BoolVal(True), v, val)
        return val


class _FieldBox:
    """box view onto a tuple field / list element"""
    def __init__(self, base, k, lst=False): self.base, self.k, self.lst = base, k, lst
    def __getitem__(self, i):
        return self.base.items[self.k] if self.lst else self.base.fields[self.k]
    def __setitem__(self, i, v):
        if self.lst: self.base.items[self.k] = v
        else: self.base.fields[self.k] = v


def _cmp(op):
    def f(a, b):
        if op == 'Eq': return a == b
        if op == 'Ne': return a != b
        if z3.is_int(a) or z3.is_int(b):
            return {'Lt': a < b, 'Le': a <= b, 'Gt': a > b, 'Ge': a >= b}[op]
        return {'Lt': z3.ULT, 'Le': z3.ULE, 'Gt': z3.UGT, 'Ge': z3.UGE}[op](a, b)
    return f

BINOPS = {k: _cmp(k) for k in ('Eq', 'Ne', 'Lt', 'Le', 'Gt', 'Ge')}
BINOPS.update({'Add': lambda a, b: a + b, 'Sub': lambda a, b: a - b, 'BitAnd': lambda a, b: a & b,
               'BitOr': lambda a, b: a | b, 'Shr': lambda a, b: z3.LShR(a, b), 'Shl': lambda a, b: a << b})
