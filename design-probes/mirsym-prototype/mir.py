"""MIR text parser (prototype). Parses `-Zunpretty=mir` output into bodies."""
import re


class Body:
    def __init__(self, kind, name, params, ret, text):
        self.kind, self.name, self.params, self.ret, self.text = kind, name, params, ret, text
        self.blocks = {}
        self.local_types = {}
        self.debug = {}      # debug name -> place text
        self._parse()

    def _parse(self):
        for m in re.finditer(r'^\s+let (?:mut )?(_\d+): (.*);$', self.text, re.M):
            self.local_types[m.group(1)] = m.group(2)
        for p, t in self.params:
            self.local_types[p] = t
        self.local_types['_0'] = self.ret
        for m in re.finditer(r'^\s+debug (\w+) => (.*);$', self.text, re.M):
            self.debug[m.group(1)] = m.group(2)
        for m in re.finditer(r'^    (bb\d+)( \(cleanup\))?: \{\n(.*?)^    \}$', self.text, re.S | re.M):
            stmts = [s.strip() for s in m.group(3).split('\n') if s.strip()]
            self.blocks[m.group(1)] = (stmts, bool(m.group(2)))


def split_top(s, sep=','):
    """split on sep at nesting depth 0 of ()[]{} and outside quotes"""
    out, depth, cur, i, q = [], 0, '', 0, None
    while i < len(s):
        ch = s[i]
        if q:
            cur += ch
            if ch == '\\':
                cur += s[i + 1]; i += 1
            elif ch == q:
                q = None
        elif ch in '"':
            q = ch; cur += ch
        elif ch == "'" and re.match(r"'(\\.[^']*|[^'\\])'", s[i:]):
            m = re.match(r"'(\\.[^']*|[^'\\])'", s[i:])
            cur += m.group(0); i += len(m.group(0)) - 1
        elif ch in '([{':
            depth += 1; cur += ch
        elif ch in ')]}':
            depth -= 1; cur += ch
        elif ch == sep and depth == 0:
            out.append(cur.strip()); cur = ''
        else:
            cur += ch
        i += 1
    if cur.strip():
        out.append(cur.strip())
    return out


def parse_params(s):
    res = []
    for p in split_top(s):
        m = re.match(r'(_\d+): (.*)$', p, re.S)
        if m:
            res.append((m.group(1), m.group(2)))
    return res


class Mir:
    def __init__(self, text):
        self.text = text
        self.fns, self.consts = {}, {}
        # items start at column 0 with fn/const/static and end with a line "}"
        for m in re.finditer(r'^(fn|const|static) ([^\n]*?) \{\n(.*?)^\}$', text, re.S | re.M):
            kind, head, body = m.groups()
            if kind == 'fn':
                hm = re.match(r'(.*?)\((.*)\) -> (.*)$', head, re.S)
                if not hm:
                    continue
                name, params, ret = hm.group(1), parse_params(hm.group(2)), hm.group(3)
                self.fns[name] = Body('fn', name, params, ret, body)
            else:
                if not head.endswith(' ='):
                    continue
                depth, cut = 0, None
                for i, ch in enumerate(head):
                    if ch == '<': depth += 1
                    elif ch == '>' and head[i - 1] != '-': depth -= 1
                    elif ch == ':' and depth == 0 and head[i + 1:i + 2] == ' ' and head[i - 1] != ':':
                        cut = i; break
                if cut is None:
                    continue
                self.consts[head[:cut]] = Body(kind, head[:cut], [], head[cut + 2:-2], body)

    def find_fn(self, regex):
        c = [n for n in self.fns if re.search(regex, n)]
        return c
