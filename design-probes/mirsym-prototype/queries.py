#!/usr/bin/env python3-vt
"""Prototype queries: Q11 (escape), Q03a (class ladder), Q09 (tables), Q04 shape."""
import re, sys, time
import z3
from mir import Mir
from sym import *

t0 = time.time()
mir = Mir(open(sys.argv[1]).read())
print('parsed', len(mir.fns), 'fns', len(mir.consts), 'consts in %.1fs' % (time.time() - t0))


def deref(v):
    return v.box[0] if isinstance(v, RefV) else v

def char_int(c): return z3.BV2Int(c)

def digit(n):  # n: Int 0..15 -> code point Int
    return z3.If(n < 10, 48 + n, 87 + n)

def hexstr(x, maxd):
    """lower-hex of bit-vector x without leading zeros, as StrV"""
    xi = z3.BV2Int(x)
    def digs(k):  # k digits
        ds = [z3.Unit(digit((xi / (16 ** (k - 1 - i))) % 16)) for i in range(k)]
        return ds[0] if k == 1 else z3.Concat(*ds)
    e = digs(maxd)
    for k in range(maxd - 1, 0, -1):
        e = z3.If(xi < 16 ** k, digs(k), e)
    return StrV(e)

# ---------------- models
def m_is_ascii(ex, fr, callee, a, pc, d): return z3.ULT(deref(a[0]), 0x80)
def m_range_contains(ex, fr, callee, a, pc, d):
    r, c = deref(a[0]), deref(a[1])
    return z3.And(z3.ULE(r.get('start'), c), z3.ULT(c, r.get('end')))
def m_char_to_string(ex, fr, callee, a, pc, d): return StrV(z3.Unit(char_int(deref(a[0]))))
def m_str_to_string(ex, fr, callee, a, pc, d): return deref(a[0])
def m_deref(ex, fr, callee, a, pc, d):
    v = a[0]
    if isinstance(v, RefV) and isinstance(v.box[0], Opaque) and v.box[0].tag == 'static':
        top = fr.body.name.split('::')[0]
        c = [n for n in ex.mir.fns if n.startswith(top + '::<impl at') and 'lazy_static' in n and n.endswith('::deref::__static_ref_initialize')]
        if len(c) != 1: raise Inconclusive('lazy_static init of ' + v.box[0].p[0])
        outs = ex.run_fn(c[0], [], pc, d + 1)
        assert len(outs) == 1
        return RefV([outs[0][1]])
    return v
def m_escape_unicode(ex, fr, callee, a, pc, d): return Opaque('EU', a[0])
def m_eu_to_string(ex, fr, callee, a, pc, d):
    eu = deref(a[0]); return cat(lit('\\u{'), hexstr(eu.p[0], 6), lit('}'))
def m_encode_utf16(ex, fr, callee, a, pc, d):
    c = a[0]; v = c - 0x10000
    hi = z3.Extract(15, 0, 0xD800 + z3.LShR(v, 10)); lo = z3.Extract(15, 0, 0xDC00 + (v & 0x3FF))
    outs = []
    for cond, val in ((z3.ULT(c, 0x10000), ListV([z3.Extract(15, 0, c)])), (z3.UGE(c, 0x10000), ListV([hi, lo]))):
        if ex.feasible(pc + [cond]): outs.append((pc + [cond], RefV([val])))
    return outs
def m_iter(ex, fr, callee, a, pc, d): return deref(a[0])
def m_map(ex, fr, callee, a, pc, d): return MapIter(deref(a[0]), a[1])
def elems(ex, it, pc, d):
    it = deref(it)
    if isinstance(it, MapIter):
        return [ex.call_closure(it.clos, [wrap(x)], pc, d) for x in elems(ex, it.base, pc, d)]
    if isinstance(it, ListV): return it.items
    raise Inconclusive('iterate ' + repr(it))
def wrap(x):  # slice iterators yield references
    return RefV([x])
def m_collect_vec(ex, fr, callee, a, pc, d): return ListV(elems(ex, a[0], pc, d))
def m_join(ex, fr, callee, a, pc, d):
    xs = elems(ex, a[0], pc, d); sep = deref(a[1])
    out = []
    for i, x in enumerate(xs):
        if i: out.append(sep)
        out.append(x)
    return cat(*out) if out else lit('')
def m_any(ex, fr, callee, a, pc, d):
    xs = elems(ex, a[0], pc, d)
    return z3.Or(*[ex.call_closure(a[1], [wrap(x)], pc, d) for x in xs])
def m_closed(ex, fr, callee, a, pc, d): return TupV([a[0], a[1]], ['low', 'high'])
def m_cr_contains(ex, fr, callee, a, pc, d):
    r = deref(a[0]); return z3.And(z3.ULE(r.get('low'), a[1]), z3.ULE(a[1], r.get('high')))
def m_fmt_arg(ex, fr, callee, a, pc, d):
    kind = re.search(r'new_(\w+)::', callee).group(1)
    return Opaque('fmtarg', kind, deref(deref(a[0])) if kind == 'lower_hex' else deref(a[0]))
def m_args_new(ex, fr, callee, a, pc, d): return Opaque('fmtargs', deref(a[0]).p[0], deref(a[1]))
def m_format(ex, fr, callee, a, pc, d):
    tmpl, args = a[0].p
    out, i, k = [], 0, 0
    while i < len(tmpl):
        b = tmpl[i]
        if b == 0: break
        if b < 0x80:
            out.append(lit(tmpl[i + 1:i + 1 + b].decode())); i += 1 + b
        elif b == 0xC0:
            arg = args.items[k]; k += 1; i += 1
            kind, v = arg.p
            if kind == 'lower_hex': out.append(hexstr(v, (v.size() + 3) // 4))
            elif kind == 'display' and isinstance(v, StrV): out.append(v)
            else: raise Inconclusive('fmt arg ' + kind)
        else:
            raise Inconclusive('fmt template byte %#x' % b)
    return cat(*out)
def m_must_use(ex, fr, callee, a, pc, d): return a[0]

MODELS = [
    (r'impl char>::is_ascii$', m_is_ascii),
    (r'Range::<char>::contains::<char>$', m_range_contains),
    (r'^<char as ToString>::to_string$', m_char_to_string),
    (r'^<(str|String) as ToString>::to_string$', m_str_to_string),
    (r'^<.* as Deref>::deref$', m_deref),
    (r'impl char>::escape_unicode$', m_escape_unicode),
    (r'^<std::char::EscapeUnicode as ToString>::to_string$', m_eu_to_string),
    (r'impl char>::encode_utf16$', m_encode_utf16),
    (r'^core::slice::<impl \[.*\]>::iter$', m_iter),
    (r' as Iterator>::map::<', m_map),
    (r' as Itertools>::collect_vec$', m_collect_vec),
    (r' as Itertools>::join$', m_join),
    (r' as Iterator>::any::<', m_any),
    (r'^CharRange::closed$', m_closed),
    (r'^CharRange::contains$', m_cr_contains),
    (r'^core::fmt::rt::Argument::<\'_>::new_\w+::<', m_fmt_arg),
    (r'^Arguments::<\'_>::new::<', m_args_new),
    (r'^std::fmt::format$', m_format),
    (r'^must_use::<', m_must_use),
]

def valid_char(c): return z3.And(z3.ULE(c, 0x10FFFF), z3.Or(z3.ULT(c, 0xD800), z3.UGT(c, 0xDFFF)))

def decide(name, outs, spec, assume):
    t = time.time(); viol = []
    for pc, ret in outs:
        s = z3.Solver(); s.add(*assume); s.add(*pc); s.add(z3.Not(spec(ret)))
        r = s.check()
        if r == z3.sat: viol.append(s.model())
        elif r != z3.unsat: print(name, 'UNKNOWN')
    print(f'{name}: paths={len(outs)} violations={len(viol)} solver_s={time.time()-t:.2f}')
    for m in viol[:3]: print('   cex:', {str(d): m[d] for d in m.decls() if d.arity() == 0})

# ================= Q11
c = z3.BitVec('c', 32); surr = z3.Bool('surr')
ex = Exec(mir, MODELS)
fn = [n for n in mir.fns if n.endswith('::escape') and 'grapheme' in n][0]
t = time.time()
outs = ex.run_fn(fn, [RefV([Opaque('self')]), c, surr], [valid_char(c)])
print('Q11 exec %.2fs' % (time.time() - t), ex.stats)
v = c - 0x10000
ref = z3.If(z3.ULT(c, 0x80), z3.Unit(z3.BV2Int(c)),
      z3.If(z3.And(surr, z3.UGE(c, 0x10000)),
            cat(lit('\\u{'), hexstr(z3.Extract(15, 0, 0xD800 + z3.LShR(v, 10)), 4), lit('}\\u{'),
                hexstr(z3.Extract(15, 0, 0xDC00 + (v & 0x3FF)), 4), lit('}')).seq,
            cat(lit('\\u{'), hexstr(c, 6), lit('}')).seq))
decide('Q11', outs, lambda r: r.seq == ref, [valid_char(c)])

# ================= Q09 (prototype oracle: python-side whitespace list; digit subset of word)
for pred in ('is_space', 'is_digit', 'is_word'):
    ex = Exec(mir, MODELS); t = time.time()
    outs = ex.run_fn(pred, [c], [valid_char(c)])
    print(pred, 'exec %.2fs paths=%d' % (time.time() - t, len(outs)), 'inlined', ex.stats['calls_inlined'])
    globals()['F_' + pred] = outs[0][1]
ws = [(9, 13), (32, 32), (0x85, 0x85), (0xa0, 0xa0), (0x1680, 0x1680), (0x2000, 0x200a), (0x2028, 0x2029),
      (0x202f, 0x202f), (0x205f, 0x205f), (0x3000, 0x3000)]
oracle_s = z3.Or(*[z3.And(z3.ULE(lo, c), z3.ULE(c, hi)) for lo, hi in ws])
decide('Q09s', [([], F_is_space)], lambda r: r == oracle_s, [valid_char(c)])
decide('Q09 digit=>word', [([], z3.Implies(F_is_digit, F_is_word))], lambda r: r, [valid_char(c)])
decide('Q09 !(word&space)', [([], z3.Not(z3.And(F_is_word, F_is_space)))], lambda r: r, [valid_char(c)])

# ================= Q03a
names = ['is_digit_converted', 'is_word_converted', 'is_space_converted', 'is_non_digit_converted',
         'is_non_word_converted', 'is_non_space_converted']
flags = {n: z3.Bool(n) for n in names}
clos = [n for n in mir.fns if n.endswith('convert_to_char_classes::{closure#0}::{closure#0}')][0]
body = mir.fns[clos]
# captured variable order from debug lines: debug NAME => (*((*_1).K: &bool))
order = {}
for nm, pl in body.debug.items():
    m = re.match(r'\(\*\(\(\*_1\)\.(\d+): &bool\)\)', pl)
    if m: order[int(m.group(1))] = nm
env = TupV([RefV([flags[order[i]]]) for i in range(len(order))])
ex = Exec(mir, MODELS); t = time.time()
outs = ex.run_fn(clos, [RefV([env]), c], [valid_char(c)])
print('Q03a exec %.2fs paths=%d' % (time.time() - t, len(outs)), ex.stats['calls_inlined'])
D, W, S = F_is_digit, F_is_word, F_is_space
f = flags
spec = z3.If(z3.And(f[names[0]], D), lit('\\d').seq, z3.If(z3.And(f[names[1]], W), lit('\\w').seq,
       z3.If(z3.And(f[names[2]], S), lit('\\s').seq, z3.If(z3.And(f[names[3]], z3.Not(D)), lit('\\D').seq,
       z3.If(z3.And(f[names[4]], z3.Not(W)), lit('\\W').seq, z3.If(z3.And(f[names[5]], z3.Not(S)), lit('\\S').seq,
       z3.Unit(z3.BV2Int(c))))))))
decide('Q03a', outs, lambda r: r.seq == spec, [valid_char(c)])
print('total %.1fs' % (time.time() - t0))
