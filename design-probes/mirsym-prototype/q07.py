#!/usr/bin/env python3-vt
import re, sys, time, json
import z3
sys.argv = ['q', sys.argv[1]]
src = open('queries.py').read().split('# ================= Q11')[0]
exec(src)
O = json.load(open('/tmp/probe/oracle.json'))
MO = z3.Function('mark_or_other', z3.BitVecSort(32), z3.BoolSort())
class BStr:   # bounded string with concrete length, symbolic code points
    def __init__(self, cps): self.cps = cps
def m_chars(ex, fr, callee, a, pc, d): return ListV(deref(a[0]).cps)
def m_count(ex, fr, callee, a, pc, d): return z3.BitVecVal(len(deref(a[0]).items), 64)
def m_contains(ex, fr, callee, a, pc, d): return z3.Or(*[x == a[1] for x in deref(a[0]).cps])
def m_any_chars(ex, fr, callee, a, pc, d):
    return z3.Or(*[ex.call_closure(a[1], [x], pc, d) for x in deref(a[0]).items])
def m_map_chars(ex, fr, callee, a, pc, d): return Opaque('mapchars', deref(a[0]), a[1])
def m_collect_chars(ex, fr, callee, a, pc, d): return Opaque('SPLIT')
def m_gc_of(ex, fr, callee, a, pc, d): return Opaque('gc', a[0])
def m_is_mark(ex, fr, callee, a, pc, d):
    # is_mark || is_other is what the closure computes; model the pair by one predicate: mark := MO, other := false
    return MO(deref(a[0]).p[0])
def m_is_other(ex, fr, callee, a, pc, d): return z3.BoolVal(False)
def m_grapheme_from(ex, fr, callee, a, pc, d): return Opaque('UNIT', deref(a[0]))
def m_new_uninit(ex, fr, callee, a, pc, d):
    cell = [TupV([None, TupV([TupV([None])])])]
    return TupV([TupV([RefV(cell)])])
def m_into_vec(ex, fr, callee, a, pc, d):
    cell = a[0].fields[0].fields[0].box[0]
    return Opaque('WHOLE', cell.fields[1].fields[0].fields[0])
MODELS3 = [(r'impl str>::chars$', m_chars), (r'^<Chars<\'_> as Iterator>::count$', m_count),
           (r'impl str>::contains::<char>$', m_contains), (r'^<Chars<\'_> as Iterator>::any::<', m_any_chars),
           (r'^<Chars<\'_> as Iterator>::map::<', m_map_chars), (r'^<Map<Chars.* as Itertools>::collect_vec$', m_collect_chars),
           (r'^GeneralCategory::of$', m_gc_of), (r'^GeneralCategory::is_mark$', m_is_mark), (r'^GeneralCategory::is_other$', m_is_other),
           (r'^Grapheme::from$', m_grapheme_from), (r'^Box::<\[Grapheme; 1\]>::new_uninit$', m_new_uninit),
           (r'box_assume_init_into_vec_unsafe', m_into_vec)] + MODELS
fn = [n for n in mir.fns if n.endswith('cluster::<impl at src/cluster.rs:35:1: 35:29>::from::{closure#0}') or re.search(r'cluster::<impl[^>]*>::from::\{closure#0\}$', n)][0]
cfgv = TupV([z3.Bool('f%d' % i) for i in range(17)])
ext = z3.Function('x', z3.BitVecSort(32), z3.BoolSort())
for n in (1, 2, 3, 4):
    cps = [z3.BitVec('u%d' % i, 32) for i in range(n)]
    ex = Exec(mir, MODELS3)
    try:
        outs = ex.run_fn(fn, [RefV([TupV([RefV([cfgv])])]), RefV([BStr(cps)])], [valid_char(x) for x in cps])
    except Inconclusive as e:
        print('n=%d INCONCLUSIVE %s' % (n, e)); continue
    bad = []
    for pc, ret in outs:
        if ret.tag == 'WHOLE' and n > 1:
            s = z3.SolverFor('QF_UFBV'); s.add(*pc); s.add(z3.Or(*[x == 92 for x in cps]))
            # realisability filter: cps[1:] in ext_nonmark and not mark/other; cps[0] not mark/other
            for x in cps: s.add(z3.Not(MO(x)))
            for x in cps[1:]: s.add(z3.Or(*[z3.And(z3.ULE(lo, x), z3.ULE(x, hi)) for lo, hi in O['ext_nonmark']]))
            if s.check() == z3.sat: bad.append([s.model().eval(x).as_long() for x in cps])
    print('n=%d paths=%d kinds=%s cex=%s' % (n, len(outs), sorted(set(r.tag for _, r in outs)), [[hex(y) for y in b] for b in bad]))
