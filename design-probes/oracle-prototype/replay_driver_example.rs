use grex::RegExpBuilder;
use regex::Regex;
fn main() {
    for tc in ["\\\u{1F3FF}\u{0E33}", "\\\u{0E33}\u{0E33}\u{111C9}", "\u{A7DC}", "\u{1C89}", "\u{16EA0}"] {
        let p = RegExpBuilder::from(&[tc]).build();
        let pi = RegExpBuilder::from(&[tc]).with_case_insensitive_matching().build();
        let r = Regex::new(&p); let ri = Regex::new(&pi);
        println!("{:?}: default {:?} compiles={} | (?i) {:?} matches={:?}", tc, p, r.is_ok(), pi, ri.map(|r| r.is_match(tc)).ok());
        let pa = std::panic::catch_unwind(|| RegExpBuilder::from(&[tc]).without_anchors().build());
        println!("    without_anchors panics={}", pa.is_err());
    }
}
