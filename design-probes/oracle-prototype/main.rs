use regex_syntax::hir::{Class, ClassUnicode, ClassUnicodeRange, HirKind};
use regex_syntax::Parser;
use unic_ucd_category::GeneralCategory;
use unicode_segmentation::UnicodeSegmentation;

fn class(p: &str) -> Vec<(u32, u32)> {
    let hir = Parser::new().parse(p).unwrap();
    match hir.kind() {
        HirKind::Class(Class::Unicode(c)) => c.ranges().iter().map(|r| (r.start() as u32, r.end() as u32)).collect(),
        k => panic!("{:?}", k),
    }
}
fn ranges(name: &str, v: &[(u32, u32)]) -> String {
    format!("\"{}\": [{}]", name, v.iter().map(|(a, b)| format!("[{},{}]", a, b)).collect::<Vec<_>>().join(","))
}
fn main() {
    let mut out = vec![];
    out.push(ranges("d", &class(r"\d")));
    out.push(ranges("s", &class(r"\s")));
    out.push(ranges("w", &class(r"\w")));
    let mut orbit = vec![];
    let mut lower = vec![];
    let mut ext = vec![];
    for cp in 0..=0x10FFFFu32 {
        let c = match char::from_u32(cp) { Some(c) => c, None => continue };
        let mut cls = ClassUnicode::new([ClassUnicodeRange::new(c, c)]);
        cls.case_fold_simple();
        let rep = cls.ranges()[0].start() as u32;
        let n: u32 = cls.ranges().iter().map(|r| r.end() as u32 - r.start() as u32 + 1).sum();
        if n > 1 { orbit.push(format!("[{},{}]", cp, rep)); }
        let l: Vec<u32> = c.to_string().to_lowercase().chars().map(|x| x as u32).collect();
        if l != vec![cp] { lower.push(format!("[{},[{}]]", cp, l.iter().map(|x| x.to_string()).collect::<Vec<_>>().join(","))); }
        let s = format!("a{}", c);
        let cat = GeneralCategory::of(c);
        if s.graphemes(true).count() == 1 && !(cat.is_mark() || cat.is_other()) { ext.push(cp); }
    }
    out.push(format!("\"orbit\": [{}]", orbit.join(",")));
    out.push(format!("\"lower1\": [{}]", lower.join(",")));
    // compress ext to ranges
    let mut r: Vec<(u32, u32)> = vec![];
    for x in ext { match r.last_mut() { Some(l) if l.1 + 1 == x => l.1 = x, _ => r.push((x, x)) } }
    out.push(ranges("ext_nonmark", &r));
    out.push(format!("\"unicode_version\": \"{:?}\"", std::char::UNICODE_VERSION));
    println!("{{{}}}", out.join(",\n"));
}
